"""C10 — interference-alignment solvers return valid, power-limited, aligned
solutions, and keep doing so after the public setters (DESIGN.md §5 C10).

Tie to source
  * `lean/PyPhysim/Model/C10Cache.lean`: hand model of the eight solution /
    derived attributes of `IASolverBaseClass` (explicit Option caches).  Seeded
    histories of solve / randomizeF / set_precoders / set_receive_filters / P= /
    clear / getter reads are executed on the real object and on the compiled
    model (`drv_c10 hist`); every output (value, None, exception kind) is compared,
    matrices within 1e-9 (sqrt(P), LAPACK solve).
  * `lean/PyPhysim/Model/C10.lean`: the matrix formulas of the solvers, evaluated at
    binary64 by the driver on the same matrices and compared with what the code
    computes (getters, get_cost, calc_Q, calc_Q_rev, and the arguments the code hands
    to its kernels, recorded by tapping leig / peig / np.linalg.* / optimize.newton).
  * kernel results (leig, peig, eig, pinv, solve, inv, newton) are parameters of the
    model; the contract each theorem assumes of them is checked numerically here.

Oracles (implementation only, first principles): `solve`, `monotone`, `history`, `refill`.
"""
import copy
import math

import numpy as np

from harness import core

MODULE = 'PyPhysim.Properties.C10'
DRIVER = 'drv_c10'
CLAIM = {
    'technique': 'Lean 4: induction over operation histories of an Option-cache state machine (generic in the '
                 'matrix operations), tied to the source also by REGENERATION of the cache-invalidation structure '
                 '(per class and entry point: attributes reset / assigned / conditionally written / lazily filled / '
                 'read, re-emitted from the AST on every run, compared with the effect of the machine\'s step by '
                 'kernel-checked decision, plus a decidable sufficiency condition on the generated tables) + Mathlib matrix algebra over C for the solver formulas with kernel results as '
                 'contract parameters (Ky Fan minimum principle proved from a certificate contract); seeded '
                 'differential correspondence of histories and formulas at binary64; first-principles oracles',
    'text': 'For every number of users, every interpretation of the matrix operations and every history of '
            'solve / randomizeF / set_precoders / set_receive_filters / P= / clear / getter reads, no derived attribute '
            'of the repaired IASolverBaseClass is stale: full_W_H and full_W are what would be computed now from the '
            'current W_H and full_F (so any relation every solve result satisfies holds between the values the getters '
            'return), W and W_H are conjugate transposes, a stored full_F that was not given from outside is F*sqrt(P) '
            'for the current F and P, Ns is the column count of F.  Over C, for all dimensions: X/||X|| has unit norm; '
            'a unit-norm precoder scaled by sqrt(P) carries exactly P; full_W_H H_kk full_F = I for every solve-kernel '
            'result with invertible equivalent channel; the closed-form chain aligns the interference at the three '
            'receivers and null-space filters null all six cross links; get_cost of min-leakage is the leaked power; '
            'direct and reverse leakage coincide for equal powers; one min-leakage / alternating-minimisation iteration '
            'cannot increase get_cost when the current iterate is a scaled orthonormal family and leig/peig return '
            'extreme eigenpairs (certificate: eigen-equation, orthonormality, PSD remainder); the MMSE precoder never '
            'exceeds the power for every multiplier satisfying the Newton contract; the repaired svd initialisation '
            'keeps exactly Ns singular vectors.  Negative witnesses for the design-round code (stale full_F / full_W_H, '
            'half-built cache, sqrt(Ns)-norm min-leakage iterates failing the assertion, wrong svd column count).  '
            'Second tie of the cache machine (regeneration): Generated/C10Effects.lean lists, for IASolverBaseClass and '
            'each concrete solver class found in the AST (overrides resolved per class; _clear_* and every other '
            'private helper, property and super() call inlined whatever its name), what every entry point - public '
            'methods, getters, setters, solve, _updateF/_updateW - does to every data attribute on its normal exits, '
            'the attributes of a fresh object and what every lazy fill reads.  Theorems: model_step_has_table_effect '
            '(for every Ops, K, state and argument, step changes nothing outside its effect table, lazily filled '
            'fields only go None -> value, reset fields are None after every accepted call), '
            'coherence_reads_only_spec_dependencies, generated_effects_match_model (every generated row restricted to '
            'the eight attributes = the table of the model operation behind it, in every class; solve resets what '
            'Op.solve resets and writes nothing else; other entry points write none of the eight), '
            'generated_attributes_known (no unknown attribute; the eight start as None), '
            'generated_fill_reads_match_model (the lazy caches of the source are the model\'s; dependency closures '
            'agree with Coherent / FullFDerived) and generated_effects_sufficient (on the GENERATED tables: whoever '
            'writes an attribute resets or rewrites on every normal path every cached attribute whose dependency '
            'closure contains it - all entry points of all classes incl. _updateF / _updateW / solve); '
            'generated_tables_preserve_coherence states what that condition means without reference to the hand model '
            '(any value type, any coherence relations that read only the dependency closure); '
            'model_effect_table_is_tight (every listed write really happens on a concrete probe).',
    'note': 'Regeneration tie - trusted: harness/gen/_effects.py (abstract interpretation of the method bodies: last '
            'write per attribute over all normal exits, loops to a fixpoint, try/except, helper / property / super() '
            'inlining along the MRO, dict-of-bound-methods dispatch of _solve_init as a join over the referenced '
            'methods; anything outside its fragment is reported as a broken tie); it does not see mutation through a '
            'local alias or by code outside the class and is path-insensitive.  Partial: for solve only inclusions are '
            'claimed (the stored solution is a parameter of Op.solve), and _full_F inside solve of the iterative '
            'solvers is exempt from the sufficiency condition (filled and patched inside the loop / _solve_finalize; '
            'covered by correspondence and oracles); _Ns is treated as a primary attribute (NsOK needs shape '
            'contracts).  A changed set of resets breaks the bridge even if behaviour preserving.  '
            'Further trusted: numpy/scipy kernels (eig, solve, pinv, inv, svd, newton/brentq) as contract parameters checked '
            'numerically per case; binary64 rounding (1e-9 RELATIVE to the data, scaled by the condition number of the '
            'equivalent channel for the filters; 1e-11 for the exact-power relation); the harness.  Model of solve = its '
            'effect on the eight attributes (the algorithms\' numeric content is covered by the formula correspondence, '
            'the contracts and the oracles).  Monotonicity is proved for iterations that start from a feasible pair; it '
            'is not claimed for the very first step from a random / closed-form / alt-min start with Ns >= 2.  '
            'ROBUSTNESS CLASSES.  R4 rejected calls: by theorem (rejected_call_leaves_object_unchanged, '
            'history_ignores_rejected_calls: every mutator that raises leaves the eight attributes unchanged and the later '
            'history is that of an object that never saw the call; bad_power_rejected, bad_setter_arguments_rejected) + '
            'correspondence (rejected P / randomizeF / set_precoders / set_receive_filters / solve / initialize_with in the '
            'middle of histories) + oracle (every observable before/after, twin object that skips the rejected calls).  '
            'R6 scale: by theorem for the relations (scaled_precoder_power_exact, full_filter_identity, '
            'power_setter_refreshes_full_F hold for EVERY accepted power, however small or close to the previous one) + '
            'correspondence/oracles at powers 1e-15..1e6, channel gains 1e-6..1e6, relative power changes 1e-8..1e-5, all '
            'comparisons relative.  R7 call order / long-lived objects: by theorem for the eight attributes '
            '(coherent_history etc. hold for every order and repetition of the mutators) + oracle (twin object, second '
            'solver sharing the channel object, channel unchanged, final solve equals that of a freshly built solver).  '
            'R5 boundaries: the theorems hold for every K (K = 1 included) and every power > 0; K = 1, max_iterations = 0, '
            'noise 0.0, P = 0 / 1 / None, Ns = 1 and min(Nt,Nr)-1 by correspondence/oracle.  R1 element types, R2 layout / '
            'shape, R3 argument immutability / output independence: by correspondence and oracle only (the model is a '
            'function of the logical values: typed, strided, read-only, list/tuple, 0-d and narrow-dtype arguments are '
            'mapped to the same model input and must give the model\'s outputs; arguments are snapshotted before every call '
            'and compared after it and after every later call, returned arrays are compared with the model value again at '
            'the end of the history, internals must not share memory with arguments).  Out of the model: arrays whose '
            'length is not K, the diagonal-loading and mu>1e20 retry branches of MMSE (pragma: no cover), '
            '_solve_finalize stream reduction, the MaxSINR update formulas (only the generic clauses), the \'fix\' '
            'initialisation mode, GreedStream/BruteForce wrappers, the channel class itself (C08).  max-SINR / MMSE are '
            'exercised with a positive noise variance (their covariances are singular without noise when there are few '
            'interferers).  '
            'ROBUSTNESS CLASSES R8-R14.  R8 argument forms: randomizeF / solve / set_precoders / set_receive_filters / the '
            'constructors are called positionally, by keyword, mixed, with defaults left out or given explicitly as None, P '
            'and Ns as scalar / 0-d / length-1 (K = 1); by theorem filter_setter_forms_agree (set_receive_filters(W=X) and '
            '(W_H=X^H) are interchangeable under every later history; the twin object of the oracle always uses the other form); '
            'calc_SINR_in_dB vs calc_SINR, calc_sum_capacity vs calc_SINR, calc_Q vs channel.calc_Q, default vs explicit Qk '
            'by oracle; the only constructor parameter (use_best_init) has no setter.  R9 counts / indexes: Ns, '
            'max_iterations, the user index of calc_Q / calc_Q_rev / calc_remaining_interference_percentage as python int, '
            'np.int8..int64, uintN, intp, 0-d array, use_best_init as numpy bool / 0-1 int, max_iterations 257 / 300; '
            'correspondence and oracle only (the model is a function of the logical value).  R10 heterogeneous collections: '
            'per-user matrices of different dtype / layout / python type (nested lists) in one call, mixed int / float / '
            'numpy-scalar lists for P and Ns; correspondence and oracle only.  R11 non-mutating API: by theorem '
            '(passive_calls_never_change_later_results, equivalent_objects_behave_identically: getters, queries and copies at '
            'any point of any history change no later output; ObsEq bisimulation) + correspondence (the model ignores '
            'queries, all later outputs must still agree) + oracle (configuration before / after, twin object that never '
            'makes the calls).  R12 order independence of containers: does NOT apply (users, streams and filters are '
            'positional by documented index; the solvers hold no dict / set / named containers).  R13 derived objects: '
            'deepcopy / copy.copy / pickle round trip in the middle of histories, the history goes on with the derived '
            'object, the parent must stay what it was; model op fork (theorem as for R11) + correspondence + oracle; after a '
            'fork the numeric result of a later solve is not compared bitwise (another memory layout legitimately selects '
            'another eigenvector of an under-determined system).  R14 counts: K = 257 users in every quick run, 258 / 300 / '
            '257 with a min-leakage solve in thorough, max_iterations 257 / 300; the theorems hold for every K.  '
            'ROBUSTNESS CLASSES R15-R16.  R15 distinct values that are merely close: by theorem '
            '(setter_takes_effect_for_every_new_value: after P = v from ANY state the getters return the new value and '
            'F*sqrt(new value), the previous power and cache do not enter; power_lookup_exact: different accepted powers are '
            'never identified; matrix_setters_take_effect_for_every_new_value) + correspondence and oracle on deterministic '
            'histories in every run: powers 1e-9..1e-15 after each other, 2.4e9 vs 2.4e9+2e4, adjacent doubles around 0.3 / 1.0, '
            'differences beyond the 12th decimal, through P= / randomizeF / set_precoders / solve on the base class and the '
            'solvers; precoders, scaled precoders and filters followed by a variant one ulp / 1e-13 / 1e-9 / 1e-6 away, '
            'filters of magnitude 1e-12 vs 1e-13; channel refills that differ by a relative 1e-6; stored powers compared '
            'exactly, everything else relative.  R16 argument identity and buffer reuse: by theorem '
            '(buffer_reuse_equals_fresh_copies: a history driven through ONE refilled buffer, also in several roles of one '
            'call, equals the run on private copies made at call time; later_refills_do_not_change_earlier_outputs) + '
            'correspondence (a quarter of the random histories and one deterministic history per object kind hand every '
            'array argument - P, Ns, F, full_F, W, W_H and their containers - over in one buffer per role that is refilled '
            'in place before and overwritten right after every call; one container as F and full_F, one matrix object for '
            'all users, one integer array as Ns and P, the object\'s own F / full_F / W / W_H / P handed back to its setters; '
            'the model sees the contents at call time) + oracle (twin object fed fresh arrays; refill oracle: ONE channel '
            'matrix buffer refilled and re-installed in the SAME channel object before 2-4 solves of the SAME solver of every '
            'kind, k-th solution = that of a fresh solver on a fresh channel built from a copy, relations and closed-form '
            'nulling for the CURRENT channel, arrays returned earlier unchanged).  '
            'Closed form (directly, use_best_init True/False, and as the closed_form initialisation of every '
            'iterative solver): exercised for N = 2..8 and EVERY Ns in 1..N/2 (its domain: 3 users, one antenna count, N - Ns >= '
            'Ns; the code needs square channels; above N/2 perfect nulling is impossible), with the stream-shape clause '
            '(W_H / full_W_H rows = Ns, F columns = Ns) and the nulling of all six cross links checked there.',
}

SOLVERS = ['closed', 'altmin', 'minleak', 'maxsinr', 'mmse']


def _mods():
    from pyphysim.channels import multiuser
    from pyphysim.ia import algorithms, iabase
    from pyphysim.util import misc
    return multiuser, algorithms, iabase, misc


# ------------------------------------------------------------------ helpers
def Hm(a):
    return np.asarray(a).conj().T


def cplx(rs, r, c):
    return (rs.randn(r, c) + 1j * rs.randn(r, c)) / math.sqrt(2.0)


def objarr(mats):
    a = np.empty(len(mats), dtype=object)
    for i, m in enumerate(mats):
        a[i] = m
    return a


def fro(a):
    return float(np.linalg.norm(a, 'fro'))


def enc_dm(a):
    a = np.asarray(a, dtype=complex)
    if a.ndim != 2:
        a = a.reshape(a.shape[0], -1) if a.ndim > 2 else np.atleast_2d(a)
    flat = a.reshape(-1)
    return '%dx%d=%s' % (a.shape[0], a.shape[1],
                         ','.join(core.f2s(z.real) + ',' + core.f2s(z.imag) for z in flat))


def enc_arr(arr):
    if arr is None:
        return '-'
    if len(arr) == 0:
        return '[]'
    return '|'.join(enc_dm(m) for m in arr)


def dec_dm(s):
    shape, dat = s.split('=')
    r, c = (int(t) for t in shape.split('x'))
    if dat == '':
        return np.zeros((r, c), dtype=complex)
    v = [core.s2f(t) for t in dat.split(',')]
    return (np.array(v[0::2]) + 1j * np.array(v[1::2])).reshape(r, c)


def dec_arr(s):
    if s == '[]':
        return []
    return [dec_dm(t) for t in s.split('|')]


def dec_c(s):
    re, im = s.split(',')
    return complex(core.s2f(re), core.s2f(im))


def mat_close(a, b, rtol=1e-9, scale=None):
    a = np.asarray(a)
    b = np.asarray(b)
    if a.shape != b.shape:
        return False
    if a.size == 0:
        return True
    if not (np.all(np.isfinite(a)) and np.all(np.isfinite(b))):
        return False
    # relative to the magnitude of the data (class R6: no absolute floor)
    s = max(float(np.abs(a).max()), float(np.abs(b).max())) if scale is None else scale
    return float(np.abs(a - b).max()) <= rtol * s


def rel_close(a, b, rtol=1e-9, ref=None):
    r = max(abs(a), abs(b)) if ref is None else ref
    return abs(a - b) <= rtol * r


def arr_close(x, y, rtol=1e-9):
    if x is None or y is None:
        return x is None and y is None
    if len(x) != len(y):
        return False
    return all(mat_close(a, b, rtol) for a, b in zip(x, y))


def err_kind(e):
    for t, n in ((AssertionError, 'AssertionError'), (TypeError, 'TypeError'), (IndexError, 'IndexError'),
                 (ValueError, 'ValueError'), (ZeroDivisionError, 'ZeroDivisionError'),
                 (AttributeError, 'AttributeError'), (KeyError, 'KeyError'), (RuntimeError, 'RuntimeError')):
        if isinstance(e, t):
            return n
    return type(e).__name__


# ------------------------------------------------------------------ systems
def channel_matrix(K, Nr, Nt, seed, scale=1.0, grid=False):
    """the logical (complex128) big channel matrix of a case"""
    rs = np.random.RandomState(seed)
    if grid:      # Gaussian integers / 4: exact in every float and (when real) integer type
        M = (rs.randint(-8, 9, size=(int(sum(Nr)), int(sum(Nt)))) + 1j * rs.randint(-8, 9, size=(int(sum(Nr)), int(sum(Nt))))) / 4.0
    else:
        M = cplx(rs, int(sum(Nr)), int(sum(Nt)))
    return M * scale


def build_channel(K, Nr, Nt, seed, noise=None, scale=1.0, ty=None):
    """`scale` multiplies the whole channel (class R6; a noise variance is scaled with scale^2 by the caller);
    `ty` passes the same values with another element type / memory layout (classes R1, R2)"""
    mu, _, _, _ = _mods()
    M = channel_matrix(K, Nr, Nt, seed, scale, grid=ty in ('c64',))
    if ty is not None:
        M = vary_mat(M, ty)
    else:
        M = np.array(M)
    ch = mu.MultiUserChannelMatrix()
    ch.init_from_channel_matrix(M, np.array(Nr, dtype=int), np.array(Nt, dtype=int), K)
    if noise is not None:
        ch.noise_var = noise
    return ch


def case_channel(case):
    sc = case.get('chan_scale', 1.0)
    nz = case.get('noise')
    return build_channel(case['K'], case['Nr'], case['Nt'], case['chan_seed'],
                         None if nz is None else nz * sc * sc, sc, case.get('chan_ty'))


# ------------------------------------------------------------------ classes R1 / R2: the same values, passed differently
INT_SCALARS = ['int8', 'uint8', 'int16', 'uint16', 'int32', 'int64']


def vary_scalar(x, ty):
    if ty is None or ty == 'float':
        return float(x)
    if ty == 'int':
        return int(x)
    if ty == '0d':
        return np.array(float(x))
    if ty == '0d-int':
        return np.array(int(x))
    return getattr(np, ty[3:])(x)           # 'np:<dtype>'


def scalar_types(x):
    """element types that hold the value x exactly"""
    out = ['float', 'np:float64', '0d']
    if float(x).is_integer() and 0 < x < 120:
        out += ['int', '0d-int'] + ['np:' + t for t in INT_SCALARS]
    with np.errstate(all='ignore'):
        if float(np.float32(x)) == float(x):
            out.append('np:float32')
        if float(np.float16(x)) == float(x):
            out.append('np:float16')
    return out


def vary_vec(v, ty):
    v = [float(x) for x in v]
    n = len(v)
    if ty is None or ty == 'arr':
        return np.array(v, dtype=float)
    if ty == 'list':
        return list(v)
    if ty == 'tuple':
        return tuple(v)
    if ty == 'intlist':
        return [int(x) for x in v]
    if ty == 'mixedlist':       # class R10: ints, floats and numpy scalars side by side
        return [(int(x) if float(x).is_integer() and i % 2 == 0 else (np.float64(x) if i % 3 == 0 else float(x)))
                for i, x in enumerate(v)]
    if ty == 'strided':
        big = np.zeros(2 * n + 1)
        big[1::2] = v
        return big[1::2]
    if ty == 'reversed':
        return np.array(v[::-1])[::-1]
    if ty == 'broadcast':
        return np.broadcast_to(np.float64(v[0]), (n,))
    if ty == 'readonly':
        a = np.array(v)
        a.setflags(write=False)
        return a
    return np.array(v).astype(ty[4:])        # 'arr:<dtype>'


def vec_types(v):
    out = ['arr', 'list', 'tuple', 'strided', 'reversed', 'readonly', 'mixedlist']
    if len(set(v)) == 1:
        out.append('broadcast')
    if all(float(x).is_integer() and 0 < x < 120 for x in v):
        out += ['intlist', 'arr:int16', 'arr:int32', 'arr:int64', 'arr:uint8']
    with np.errstate(all='ignore'):
        if all(float(np.float32(x)) == float(x) for x in v):
            out.append('arr:float32')
        if all(float(np.float16(x)) == float(x) for x in v):
            out.append('arr:float16')
    return out


def vary_mat(A, ty):
    A = np.array(A, dtype=complex)
    r, c = A.shape
    if ty is None or ty == 'c':
        return A
    if ty == 'fortran':
        return np.asfortranarray(A)
    if ty == 'transposed':
        return np.ascontiguousarray(A.T).T
    if ty == 'strided':
        big = np.zeros((2 * r + 1, 3 * c + 2), dtype=complex)
        big[1::2, 2::3] = A
        return big[1::2, 2::3]
    if ty == 'reversed':
        return np.array(A[::-1, ::-1])[::-1, ::-1]
    if ty == 'readonly':
        B = A.copy()
        B.setflags(write=False)
        return B
    if ty == 'c64':
        return A.astype(np.complex64)
    if ty == 'real':
        return np.array(A.real, dtype=float)
    if ty == 'f32':
        return np.array(A.real, dtype=np.float32)
    if ty == 'int':
        return np.array(np.round(A.real), dtype=np.int64)
    if ty == 'int16':
        return np.array(np.round(A.real), dtype=np.int16)
    raise core.Infra('unknown matrix variant %r' % ty)


def mat_types(mats):
    """variants under which every matrix of the list keeps exactly its values"""
    out = ['c', 'fortran', 'transposed', 'strided', 'reversed', 'readonly']
    with np.errstate(all='ignore'):
        if all(np.array_equal(np.asarray(m).astype(np.complex64).astype(complex), m) for m in mats):
            out.append('c64')
        if all(np.all(np.asarray(m).imag == 0) for m in mats):
            out.append('real')
            if all(np.array_equal(np.asarray(m).real.astype(np.float32).astype(float), np.asarray(m).real) for m in mats):
                out.append('f32')
            if all(np.all(np.asarray(m).real == np.round(np.asarray(m).real)) for m in mats):
                out += ['int', 'int16']
    return out


def vary_hetero(mats, seed):
    """class R10: every user's matrix in another element type / layout / python type (nested list), each one exact"""
    rs = np.random.RandomState(seed)
    out = []
    for m in mats:
        opts = mat_types([m]) + ['nested']
        ty = opts[rs.randint(0, len(opts))]
        if ty == 'nested':
            a = np.asarray(m)
            out.append((a.real if np.all(a.imag == 0) else a).tolist())
        else:
            out.append(vary_mat(m, ty))
    return out


def vary_mats(mats, mty, seed=0):
    if mty == 'hetero':
        return vary_hetero(mats, seed)
    return [vary_mat(m, mty) for m in mats]


def mat_tag(mty):
    if mty in (None, 'c'):
        return None
    if mty == 'hetero':
        return 'R10:mat:hetero'
    return 'R%s:mat:%s' % ('1' if mty in R1_MAT else '2', mty)


def vary_container(mats, cty):
    if mats is None:
        return None
    if cty == 'list':
        return list(mats)
    if cty == 'tuple':
        return tuple(mats)
    return objarr(mats)


def gen_grid_unit(seed, rows, cols, real=False):
    """unit Frobenius norm matrices whose entries are exact in every float type: 4^j entries of modulus 2^-j.
    The top c x c block is diagonal and every other non-zero lies below it, so the matrix has full column rank
    (no exactly singular equivalent channel: a discrete decision the model and LAPACK need not take alike)"""
    rs = np.random.RandomState(seed)
    out = []
    for r, c in zip(rows, cols):
        js = [j for j in (0, 1, 2) if c <= 4 ** j <= c + max(0, r - c) * c]
        j = js[rs.randint(0, len(js))] if js else None
        if j is None:       # not representable: an ordinary random unit-norm matrix
            x = cplx(rs, r, c)
            out.append(x / fro(x))
            continue
        cnt, mod = 4 ** j, 2.0 ** -j
        phases = np.array([1, -1]) if real else np.array([1, 1j, -1, -1j])
        A = np.zeros((r, c), dtype=complex)
        for i in range(c):
            A[i, i] = mod * phases[rs.randint(0, len(phases))]
        below = [(i, k) for i in range(c, r) for k in range(c)]
        for idx in rs.permutation(len(below))[:cnt - c]:
            A[below[idx]] = mod * phases[rs.randint(0, len(phases))]
        out.append(A)
    return out


def gen_grid(seed, rows, cols, real=False, integer=False):
    """matrices with small dyadic (or integer) entries and full column rank (diagonal top block)"""
    rs = np.random.RandomState(seed)
    out = []
    for r, c in zip(rows, cols):
        den = 1.0 if integer else 4.0
        A = rs.randint(-4, 5, size=(r, c)) / den
        if not real:
            A = A + 1j * rs.randint(-4, 5, size=(r, c)) / den
        A = np.array(A, dtype=complex)
        m = min(r, c)
        A[:m, :m] = 0
        for i in range(m):
            A[i, i] = rs.choice([1, 2, 3, -1, -2]) / den
        out.append(A)
    return out


def make_solver(kind, ch, best=False, ctor=None):
    """`ctor`: how the documented constructor parameters are given (class R8: positionally, by keyword, left at
    the default; class R9: the flag as numpy bool / 0-1 integer)"""
    _, alg, base, _ = _mods()
    if kind == 'closed':
        if ctor == 'pos':
            return alg.ClosedFormIASolver(ch, best)
        if ctor == 'allkw':
            return alg.ClosedFormIASolver(multiUserChannel=ch, use_best_init=best)
        if ctor == 'default' and best is True:
            return alg.ClosedFormIASolver(ch)
        if ctor == 'npbool':
            return alg.ClosedFormIASolver(ch, use_best_init=np.bool_(best))
        if ctor == 'int':
            return alg.ClosedFormIASolver(ch, use_best_init=int(best))
        return alg.ClosedFormIASolver(ch, use_best_init=best)
    if ctor == 'allkw':
        cls = {'altmin': alg.AlternatingMinIASolver, 'minleak': alg.MinLeakageIASolver,
               'maxsinr': alg.MaxSinrIASolver, 'mmse': alg.MMSEIASolver}.get(kind, base.IASolverBaseClass)
        return cls(multiUserChannel=ch)
    if kind == 'altmin':
        return alg.AlternatingMinIASolver(ch)
    if kind == 'minleak':
        return alg.MinLeakageIASolver(ch)
    if kind == 'maxsinr':
        return alg.MaxSinrIASolver(ch)
    if kind == 'mmse':
        return alg.MMSEIASolver(ch)
    return base.IASolverBaseClass(ch)


def Hkl(ch, k, l):
    return np.array(ch.get_Hkl(k, l))


def parg_py(p):
    """p = None | ('s', x[, type]) | ('v', [..][, type]) | ('m', [..], shape-kind)"""
    if p is None:
        return None
    ty = p[2] if len(p) > 2 else None
    if p[0] == 's':
        return vary_scalar(p[1], ty)
    if p[0] == 'm':        # not 0- or 1-dimensional
        a = np.array(p[1], dtype=float)
        return {'col': a.reshape(-1, 1), 'row': a.reshape(1, -1), '3d': a.reshape(-1, 1, 1)}[ty or 'col']
    return vary_vec(p[1], ty)


def parg_tok(p):
    if p is None:
        return 'n'
    if p[0] == 's':
        return 's' + core.f2s(p[1])
    if p[0] == 'm':
        return 'm'
    return 'v' + ','.join(core.f2s(x) for x in p[1])


def parg_valid(p, K):
    if p is None:
        return True
    if p[0] == 's':
        return p[1] > 0
    if p[0] == 'm':
        return False
    return len(p[1]) == K and all(x > 0 for x in p[1])


def parg_tag(p):
    if p is None or len(p) < 3 or p[2] is None:
        return None
    if p[2] == 'mixedlist':
        return 'R10:P:mixedlist'
    return ('R2' if p[2] in ('0d', '0d-int', 'strided', 'reversed', 'broadcast', 'readonly', 'col', 'row', '3d') else 'R1') \
        + ':P:' + str(p[2])


def parg_vec(p, K):
    if p is None:
        return [1.0] * K
    if p[0] == 's':
        return [float(p[1])] * K
    return [float(x) for x in p[1]]


def vary_count(n, ty):
    """a count / index given as another integer type (class R9)"""
    if ty is None or ty == 'int':
        return int(n)
    if ty == '0d':
        return np.array(int(n))
    if ty == 'bool':
        return bool(n)
    t = getattr(np, ty[3:])
    if int(n) > np.iinfo(t).max:        # a value above 255 / 32767 needs a wider type
        t = np.int64
    return t(n)


COUNT_TYPES = ['np:' + t for t in INT_SCALARS] + ['np:intp', 'np:uint32', 'np:uint64', '0d']


def ns_val(ns):
    return ns['v'] if isinstance(ns, dict) else ns


def ns_py(ns):
    """ns = int | [..] | {'v': int | [..], 'ty': how to pass it}"""
    v = ns_val(ns)
    ty = ns.get('ty') if isinstance(ns, dict) else None
    if isinstance(v, int):
        return vary_count(v, ty)                 # python int, numpy integer scalar, 0-d array
    if ty == 'mixedlist':                        # class R10: elements of different integer types
        kinds = [np.int8, int, np.int64, np.uint16, np.intp]
        return [kinds[i % len(kinds)](x) for i, x in enumerate(v)]
    if ty is None or ty == 'arr':
        return np.array(v, dtype=int)
    if ty == 'list':
        return [int(x) for x in v]
    if ty == 'tuple':
        return tuple(int(x) for x in v)
    if ty == 'strided':
        big = np.zeros(2 * len(v), dtype=int)
        big[::2] = v
        return big[::2]
    if ty == 'reversed':
        return np.array(v[::-1], dtype=int)[::-1]
    return np.array(v).astype(ty[4:])


def ns_tok(ns):
    v = ns_val(ns)
    return 'i%d' % v if isinstance(v, int) else 'l' + ','.join(str(int(x)) for x in v)


def ns_list(ns, K):
    v = ns_val(ns)
    return [int(v)] * K if isinstance(v, int) else [int(x) for x in v]


def ns_tag(ns):
    if not isinstance(ns, dict) or ns.get('ty') in (None, 'int', 'arr'):
        return None
    if ns['ty'] == 'mixedlist':
        return 'R10:Ns:mixedlist'
    if ns['ty'] in ('0d', 'np:intp', 'np:uint32', 'np:uint64'):
        return 'R9:Ns:' + ns['ty']
    return ('R2' if ns['ty'] in ('strided', 'reversed') else 'R1') + ':Ns:' + ns['ty']


def vary_ns(rng, v):
    """a typed / laid-out variant of a stream-count argument"""
    if isinstance(v, int):
        return {'v': v, 'ty': rng.choice(COUNT_TYPES)}
    return {'v': v, 'ty': rng.choice(['list', 'tuple', 'strided', 'reversed', 'arr:int16', 'arr:int32', 'arr:uint8',
                                      'arr:int64', 'mixedlist', 'mixedlist'])}


def gen_unit(seed, rows, cols):
    rs = np.random.RandomState(seed)
    out = []
    for r, c in zip(rows, cols):
        x = cplx(rs, r, c)
        out.append(x / fro(x) if x.size else x)
    return out


NEAR_KINDS = ['ulp', 'rel1e-6', '1e-13', 'rel1e-9']


def near_mats(mats, kind, seed, unit):
    """class R15: matrices that are close to `mats` but not equal: one entry moved to the adjacent double, a
    perturbation of relative size 1e-6 / 1e-9 in a random direction, a change beyond the 12th decimal"""
    if kind is None:
        return mats
    rs = np.random.RandomState((seed + 977) % (2 ** 31))
    out = []
    for m in mats:
        m = np.array(m, dtype=complex)
        if kind == 'ulp':
            i = int(np.argmax(np.abs(m.real)))
            re = m.real.copy().reshape(-1)
            re[i] = np.nextafter(re[i], np.inf)
            m = re.reshape(m.shape) + 1j * m.imag
        elif kind == '1e-13':
            m = m * (1.0 + 1e-13)
        else:
            eps = 1e-6 if kind == 'rel1e-6' else 1e-9
            m = m + eps * fro(m) * cplx(rs, *m.shape) / math.sqrt(m.size)
            if unit:
                m = m / fro(m)
        out.append(m)
    return out


# ------------------------------------------------------------------ histories
INIT_MODES = ['random', 'alt_min', 'closed_form', 'fix', 'svd']


def init_accepted(kind, value):
    """does `solver.initialize_with = value` succeed on this solver class"""
    if not isinstance(value, str) or value not in INIT_MODES:
        return False
    return not (kind == 'altmin' and value == 'alt_min')


def call_ns_p(fn, a, b, form):
    """class R8: the same (Ns, P) call positionally, by keyword, with P left at its default, mixed"""
    if form == 'kw':
        return fn(Ns=a, P=b)
    if form == 'mixed':
        return fn(a, P=b)
    if form == 'default' and b is None:
        return fn(a)
    if form == 'kwrev':
        return fn(P=b, Ns=a)
    return fn(a, b)


def seed_solver(s, seed):
    """every random draw of a solve comes from these generators"""
    s._rs = np.random.RandomState(seed)
    inner = getattr(s, '_alt_min_ia_solver', None)
    if inner is not None:
        inner._rs = np.random.RandomState((seed + 1) % (2 ** 31))
    np.random.seed(seed % (2 ** 32))


class Hist:
    """executes one history on the real solver, producing the impl outputs and the model op tokens"""

    def __init__(self, case, ch=None, reuse=None):
        self.case = case
        # class R16: every array argument is handed over in ONE preallocated buffer per role, refilled in place
        # before the call and overwritten with other values right after it (`reuse=False`: fresh arrays, the twin)
        self.reuse = bool(case.get('reuse', False)) if reuse is None else reuse
        self.bufs = {}
        self.used = []           # buffers handed over by the current op
        self.K = case['K']
        self.Nr = case['Nr']
        self.Nt = case['Nt']
        self.ch = ch if ch is not None else case_channel(case)
        self.kind = case['solver']
        self.s = make_solver(self.kind, self.ch, best=case.get('best', False), ctor=case.get('ctor'))
        if hasattr(self.s, 'max_iterations'):
            self.s.max_iterations = vary_count(case.get('iters', 3), case.get('iters_ty'))
        self.mode = 'random'     # the initialisation mode in force
        self.parents = []        # (object, observables) left behind by a fork (class R13)
        self.given = {}          # attribute -> snapshot of the matrices handed to the last matrix setter
        self.pair_fail = None    # disagreement of two entry points documented as equivalent (class R8)
        self.tokens = []
        self.outs = []
        self.tags = []           # R-class tags of the variant arguments of each op
        self.last_inputs = []    # (label, object) handed to the implementation by the last op
        self.last_returned = None
        self.aborted = None      # (index, exception) of a solve that raised although it is defined

    def hd_token(self):
        return enc_arr([Hkl(self.ch, k, k) for k in range(self.K)])

    def note(self, *tags):
        self.tags[-1] += [t for t in tags if t]

    def inputs(self, *pairs):
        """remember every array / container handed to the implementation, with a snapshot taken BEFORE the call"""
        if self.reuse:          # the harness itself overwrites these buffers (R3 is the subject of the other cases)
            self.last_inputs = []
            return
        self.last_inputs = [(lab, obj, freeze(obj)) for lab, obj in pairs
                            if isinstance(obj, (np.ndarray, list, tuple))]

    # -- class R16: one buffer per role -------------------------------------
    def leaf_buf(self, role, a):
        b = self.bufs.get(role)
        if b is None or b.shape != a.shape or b.dtype != a.dtype:
            b = np.array(a, copy=True)
            self.bufs[role] = b
        else:
            b[...] = a                       # the SAME array object with new contents
        self.used.append(b)
        return b

    def reuse_arg(self, role, v):
        """the argument `v` as the caller's long-lived buffer of that role, refilled in place"""
        if not self.reuse or v is None:
            return v
        if isinstance(v, np.ndarray) and v.dtype != object:
            return self.leaf_buf(role, v) if v.ndim >= 1 else v
        if isinstance(v, (list, tuple, np.ndarray)):
            if not all(isinstance(m, np.ndarray) and m.dtype != object for m in v):
                return v                     # python lists of numbers / nested lists: nothing to refill
            elems = [self.leaf_buf((role, k), m) for k, m in enumerate(v)]
            if isinstance(v, tuple):
                return tuple(elems)
            cont = self.bufs.get((role, 'container'))
            if cont is None or type(cont) is not type(v) or len(cont) != len(elems):
                cont = list(elems) if isinstance(v, list) else objarr(elems)
                self.bufs[(role, 'container')] = cont
            else:
                for k, m in enumerate(elems):
                    cont[k] = m
            return cont
        return v

    def scribble(self):
        """the caller goes on using its buffers: other contents right after the call"""
        for b in self.used:
            if b.flags.writeable:
                if b.dtype.kind in 'iu':
                    b[...] = b + 1
                elif b.dtype.kind == 'b':
                    b[...] = ~b
                else:
                    b[...] = b * -3.0 + 7.0
        self.used = []

    # -- one op ------------------------------------------------------------
    def do(self, op):
        self.used = []
        try:
            return self.do_op(op)
        finally:
            if self.reuse and self.case.get('scribble', True):
                self.scribble()

    def do_op(self, op):
        self.given = {}
        name = op[0]
        s = self.s
        K = self.K
        self.tags.append([])
        self.last_inputs = []
        self.last_returned = None
        try:
            if name == 'setP':
                self.tokens.append('setP;' + parg_tok(op[1]))
                v = self.reuse_arg('P', parg_py(op[1]))
                self.note(parg_tag(op[1]))
                self.inputs(('P', v))
                s.P = v
                return ('unit',)
            if name == 'setinit':
                ok = init_accepted(self.kind, op[1])
                self.tokens.append('setinit;%d' % (1 if ok else 0))
                s.initialize_with = op[1]
                self.mode = op[1]
                return ('unit',)
            if name == 'rand':
                _, ns, p, seed = op[:4]
                form = op[4] if len(op) > 4 else None
                nsl = ns_list(ns, K)
                _, _, _, misc = _mods()
                rs2 = np.random.RandomState(seed)
                drawn = [misc.randn_c_RS(rs2, self.Nt[k], nsl[k]) for k in range(K)]
                self.tokens.append('rand;%s;%s;%s' % (enc_arr(drawn), ns_tok(ns), parg_tok(p)))
                s._rs = np.random.RandomState(seed)
                a, b = self.reuse_arg('Ns', ns_py(ns)), self.reuse_arg('P', parg_py(p))
                if form == 'same':       # class R16: ONE integer array is both the stream counts and the powers
                    a = b = self.reuse_arg('NsP', np.array(nsl, dtype=int))
                self.note(ns_tag(ns), parg_tag(p))
                self.inputs(('Ns', a), ('P', b))
                self.note('R8:form:' + form if form else None)
                call_ns_p(s.randomizeF, a, b, form)
                return ('unit',)
            if name == 'setprec':
                d = op[1]
                F, fF = self.precoder_args(d)
                alias = d.get('alias')
                if alias == 'users' and F is not None:       # class R16: ONE matrix object for every user
                    F = [F[0]] * K
                if alias == 'F=fullF':                       # ... ONE container as `F` and as `full_F`
                    fF = F
                P = d.get('P')
                self.tokens.append('setprec;%s;%s;%s' % (enc_arr(F), enc_arr(fF),
                                                       '-' if P is None else ','.join(core.f2s(x) for x in P)))
                mty, cty, pty = d.get('mty'), d.get('cty'), d.get('pty')
                if mty in R1_MAT and mty not in mat_types((F or []) + (fF or [])):
                    mty = 'fortran'       # the values are not exact in that element type: only the layout varies
                Fa = None if F is None else vary_container(vary_mats(F, mty, d.get('hseed', 1)), cty)
                fa = None if fF is None else vary_container(vary_mats(fF, mty, d.get('hseed', 1) + 1), cty)
                Pa = None if P is None else vary_vec(P, pty)
                Fa, fa, Pa = self.reuse_arg('F', Fa), self.reuse_arg('fullF', fa), self.reuse_arg('P', Pa)
                if alias == 'users' and Fa is not None:
                    if isinstance(Fa, tuple):
                        Fa = tuple([Fa[0]] * K)
                    else:
                        for k in range(K):
                            Fa[k] = Fa[0]
                if alias == 'F=fullF':
                    fa = Fa
                self.note(mat_tag(mty),
                          'R1:container:%s' % cty if cty in ('list', 'tuple') else None,
                          parg_tag(('v', P, pty)) if P is not None else None)
                self.inputs(('F', Fa), ('full_F', fa), ('P', Pa))
                self.given = {'_F': freeze(Fa), '_full_F': freeze(fa)}
                form = d.get('form')
                self.note('R8:form:' + form if form else None)
                if form == 'pos':
                    s.set_precoders(Fa, fa, Pa)
                elif form == 'default':      # only what is given
                    kw = {k: v for k, v in (('F', Fa), ('full_F', fa), ('P', Pa)) if v is not None}
                    s.set_precoders(**kw)
                elif form == 'mixed':
                    s.set_precoders(Fa, P=Pa, full_F=fa)
                else:
                    s.set_precoders(F=Fa, full_F=fa, P=Pa)
                return ('unit',)
            if name == 'setfilt':
                d = op[1]
                if d.get('grid'):
                    W = gen_grid(d['seed'], self.Nr, d['ns'], real=d.get('real', False), integer=d.get('integer', False))
                else:
                    W = gen_unit(d['seed'], self.Nr, d['ns'])
                W = near_mats(W, d.get('near'), d['seed'], unit=False)
                if d.get('scale') is not None:
                    W = [w * d['scale'] for w in W]
                if d.get('alias') == 'users':
                    W = [W[0]] * K
                which = d['which']
                mty, cty = d.get('mty'), d.get('cty')
                if mty in R1_MAT and mty not in mat_types(W):
                    mty = 'fortran'
                wh = [Hm(w) for w in W] if which in ('WH', 'both') else None
                w = W if which in ('W', 'both') else None
                self.tokens.append('setfilt;%s;%s' % (enc_arr(wh), enc_arr(w)))
                wha = None if wh is None else vary_container(vary_mats(wh, mty, d.get('hseed', 1)), cty)
                wa = None if w is None else vary_container(vary_mats(w, mty, d.get('hseed', 1)), cty)
                wha, wa = self.reuse_arg('WH', wha), self.reuse_arg('W', wa)
                if d.get('alias') == 'users':
                    for x in (wha, wa):
                        if x is not None and not isinstance(x, tuple):
                            for k in range(K):
                                x[k] = x[0]
                self.note(mat_tag(mty),
                          'R1:container:%s' % cty if cty in ('list', 'tuple') else None)
                self.inputs(('W_H', wha), ('W', wa))
                self.given = {'_W_H': freeze(wha), '_W': freeze(wa)}
                form = d.get('form')
                self.note('R8:form:' + form if form else None)
                if form == 'pos':            # documented order: (W_H, W)
                    s.set_receive_filters(wha, wa)
                elif form == 'default':
                    kw = {k: v for k, v in (('W_H', wha), ('W', wa)) if v is not None}
                    s.set_receive_filters(**kw)
                elif form == 'mixed':
                    s.set_receive_filters(wha, W=wa)
                else:
                    s.set_receive_filters(W_H=wha, W=wa)
                return ('unit',)
            if name == 'solve':
                return self.do_solve(op)
            if name == 'selfset':
                return self.do_selfset(op[1])
            if name == 'clear':
                self.tokens.append('clear')
                s.clear()
                return ('unit',)
            if name == 'query':
                self.tokens.append('query')
                self.do_query(op)
                return ('unit',)
            if name == 'fork':
                self.tokens.append('fork')
                self.do_fork(op[1])
                return ('unit',)
            self.tokens.append(name)
            if name == 'rF':
                return self.arr_out(s.F)
            if name == 'rFF':
                return self.arr_out(s.full_F)
            if name == 'rW':
                return self.arr_out(s.W)
            if name == 'rWH':
                return self.arr_out(s.W_H)
            if name == 'rFWH':
                return self.arr_out(s.full_W_H) + (self.filter_cond(),)
            if name == 'rFW':
                return self.arr_out(s.full_W) + (self.filter_cond(),)
            if name == 'rNs':
                v = s.Ns
                self.last_returned = v
                return ('ns', None if v is None else [int(x) for x in v])
            if name == 'rP':
                v = s.P
                self.last_returned = v
                return ('pow', [float(x) for x in np.asarray(v).reshape(-1)])
            raise core.Infra('unknown op %r' % (name,))
        except core.Infra:
            raise
        except Exception as e:     # the Python exception is the output
            return ('err', err_kind(e))

    def do_selfset(self, which):
        """class R16: the object's own arrays are handed back to its setters (the argument IS the internal array)"""
        s = self.s
        self.note('R16:selfset:' + which)
        if which == 'fullF' and s._F is None:
            which = 'F'
        if which == 'P':
            v = s.P
            self.tokens.append('setP;v' + ','.join(core.f2s(float(x)) for x in np.asarray(v).reshape(-1)))
            s.P = v
        elif which == 'F':
            v = s.F
            self.tokens.append('setprec;%s;-;-' % enc_arr(v))
            s.set_precoders(F=v)
        elif which == 'fullF':
            v = s.full_F
            self.tokens.append('setprec;-;%s;-' % enc_arr(v))
            s.set_precoders(full_F=v)
        elif which == 'FP':
            v, pv = s.F, s.P
            self.tokens.append('setprec;%s;-;%s' % (enc_arr(v), ','.join(core.f2s(float(x)) for x in np.asarray(pv).reshape(-1))))
            s.set_precoders(F=v, P=pv)
        elif which == 'W':
            v = s.W
            self.tokens.append('setfilt;-;%s' % enc_arr(v))
            s.set_receive_filters(W=v)
        else:
            v = s.W_H
            self.tokens.append('setfilt;%s;-' % enc_arr(v))
            s.set_receive_filters(W_H=v)
        return ('unit',)

    def do_query(self, op):
        """a call of the non-mutating API; whatever it returns or raises, its outcome is not compared with the model
        (class R11: it must not change anything later).  Index arguments come in every integer type (class R9),
        positionally or by keyword (class R8); pairs of entry points documented as equivalent are compared (R8)."""
        kind, k, kty, form = op[1], op[2] if len(op) > 2 else 0, op[3] if len(op) > 3 else None, op[4] if len(op) > 4 else None
        s = self.s
        self.note('R11:query:' + kind, ('R9:index:' + kty) if kty not in (None, 'int') else None,
                  ('R8:form:' + form) if form else None)
        kk = vary_count(k, kty)
        try:
            if kind == 'calcQ':
                r = s.calc_Q(k=kk) if form == 'kw' else s.calc_Q(kk)
                ref = copy.deepcopy(s)
                twin = ref._multiUserChannel.calc_Q(int(k), ref.full_F)
                if not mat_close(r, twin, 1e-12):
                    self.pair_fail = ('equivalent-calls-differ:calc_Q', 'solver.calc_Q(k) != channel.calc_Q(k, full_F)')
                if kty not in (None, 'int'):
                    if not mat_close(r, copy.deepcopy(s).calc_Q(int(k)), 1e-12):
                        self.pair_fail = ('index-type-changes-result:calc_Q[%s]' % kty, 'calc_Q(%r) != calc_Q(%d)' % (kk, k))
            elif kind == 'calcQrev':
                r = s.calc_Q_rev(k=kk) if form == 'kw' else s.calc_Q_rev(kk)
                if kty not in (None, 'int') and not mat_close(r, copy.deepcopy(s).calc_Q_rev(int(k)), 1e-12):
                    self.pair_fail = ('index-type-changes-result:calc_Q_rev[%s]' % kty, 'calc_Q_rev(%r) != calc_Q_rev(%d)' % (kk, k))
            elif kind == 'rip':
                r = s.calc_remaining_interference_percentage(k=kk) if form == 'kw' else \
                    s.calc_remaining_interference_percentage(kk)
                r2 = s.calc_remaining_interference_percentage(int(k), s.calc_Q(int(k)))    # Qk given explicitly
                a, b = float(np.real(r)), float(np.real(r2))
                if not ((math.isnan(a) and math.isnan(b)) or abs(a - b) <= 1e-9):      # a fraction in [0, 1]
                    self.pair_fail = ('equivalent-calls-differ:remaining_interference', 'default Qk vs explicit Qk: %r vs %r' % (r, r2))
            elif kind == 'sinr':
                s.calc_SINR()
            elif kind == 'sinrdB':
                db = s.calc_SINR_in_dB()
                lin = s.calc_SINR()        # the same object: a perfectly nulled SINR is rounding noise of the layout
                for a, b in zip(db, lin):
                    with np.errstate(all='ignore'):
                        e = 10.0 * np.log10(np.asarray(b, dtype=float))
                    fin = np.isfinite(e)
                    if np.shape(a) != np.shape(e) or not np.allclose(np.asarray(a)[fin], e[fin], rtol=1e-9, atol=1e-9):
                        self.pair_fail = ('equivalent-calls-differ:SINR_in_dB', 'calc_SINR_in_dB != 10 log10(calc_SINR)')
            elif kind == 'cap':
                c = s.calc_sum_capacity()
                lin = s.calc_SINR()
                with np.errstate(all='ignore'):
                    e = float(sum(np.sum(np.log2(1.0 + np.asarray(b, dtype=float))) for b in lin))
                if np.isfinite(e) and not rel_close(float(c), e, 1e-9):
                    self.pair_fail = ('equivalent-calls-differ:sum_capacity', 'calc_sum_capacity=%r, from calc_SINR %r' % (c, e))
            elif kind == 'sinr_old':
                s.calc_SINR_old()
            elif kind == 'cost':
                s.get_cost()
            elif kind == 'repr':
                repr(s), str(s)
            elif kind == 'dims':
                s.K, s.Nr, s.Nt, s.noise_var
                if hasattr(s, 'runned_iterations'):
                    s.runned_iterations, s.initialize_with
            elif kind == 'copy':
                copy.copy(s), copy.deepcopy(s)
        except core.Infra:
            raise
        except Exception:
            pass        # e.g. nothing installed yet: the outcome of a query is not part of the comparison

    def do_fork(self, how):
        """class R13: the history goes on with an object derived from the current one; the parent is kept"""
        import pickle
        old = self.s
        self.note('R13:fork:' + how)
        if how == 'pickle':
            new = pickle.loads(pickle.dumps(old))
        elif how == 'copy':
            new = copy.copy(old)
        else:
            new = copy.deepcopy(old)
        self.parents.append((old, observables(old), how))
        self.s = new
        self.ch = new._multiUserChannel

    def precoder_args(self, d):
        ns = d['ns']
        if d.get('grid'):
            real = d.get('real', False)
            F = gen_grid_unit(d['F'], self.Nt, ns, real) if d.get('F') is not None else None
            fF = None
            if d.get('fullF') is not None:
                # a power of two not above sqrt(P): exact, and within the power in force
                amp = [2.0 ** math.floor(math.log2(math.sqrt(p))) for p in d['amp_P']]
                base = F if F is not None else gen_grid_unit(d['fullF'] + 1, self.Nt, ns, real)
                fF = [b * a for b, a in zip(base, amp)]
            return F, fF
        F = gen_unit(d['F'], self.Nt, ns) if d.get('F') is not None else None
        if F is not None:
            F = near_mats(F, d.get('near'), d['F'], unit=True)
        fF = None
        if d.get('fullF') is not None:
            rs = np.random.RandomState(d['fullF'])
            amp = [math.sqrt(p) * (0.5 + 0.5 * rs.rand()) for p in d['amp_P']]
            base = F if F is not None else near_mats(gen_unit(d['fullF'] + 1, self.Nt, ns), d.get('near'), d['fullF'], unit=True)
            fF = [b * a for b, a in zip(base, amp)]
        return F, fF

    def filter_cond(self):
        """condition number of the equivalent channels the full filters were solved from (the model's own
        elimination and LAPACK agree to ~ eps * cond)"""
        s = self.s
        try:
            WH = s._W_H if s._W_H is not None else [Hm(w) for w in s._W]
            fF = s._full_F
            return max(float(np.linalg.cond(np.asarray(WH[k]) @ Hkl(self.ch, k, k) @ np.asarray(fF[k]))) for k in range(self.K))
        except Exception:
            return 1.0

    def arr_out(self, v):
        self.last_returned = v
        if v is None:
            return ('none',)
        return ('arr', [None if m is None else np.array(m) for m in v])

    def do_solve(self, op):
        _, ns, p, seed, init = op[:5]
        form = op[5] if len(op) > 5 else None
        s = self.s
        K = self.K
        closed = self.kind == 'closed'
        expect_err = (closed and K != 3) or not parg_valid(p, K)
        if hasattr(s, 'initialize_with') and init is not None:
            s.initialize_with = init
            self.mode = init
        seed_solver(s, seed)
        a, b = self.reuse_arg('Ns', ns_py(ns)), self.reuse_arg('P', parg_py(p))
        if form == 'same':           # class R16: ONE integer array is both the stream counts and the powers
            a = b = self.reuse_arg('NsP', np.array(ns_list(ns, K), dtype=int))
        self.note(ns_tag(ns), parg_tag(p))
        self.inputs(('Ns', a), ('P', b))
        self.note('R8:form:' + form if form else None)
        try:
            call_ns_p(s.solve, a, b, form)
            raised = None
        except Exception as e:
            raised = e
        if raised is not None and not expect_err:
            # "solving completes" is violated (or the configuration is outside the solver's domain);
            # the object is left mid-computation: the history stops here
            self.aborted = (len(self.outs), raised)
            self.tokens.append(None)
            return ('err', err_kind(raised))
        dummy = [np.zeros((self.Nt[k], 1), dtype=complex) for k in range(K)]
        if raised is not None:
            self.tokens.append('solve;%d;%s;%s;%s;-;%s;0;%s' % (1 if closed else 0, ns_tok(ns), parg_tok(p),
                                                             enc_arr(dummy), enc_arr(dummy), '1'))
            return ('err', err_kind(raised))
        F = [np.array(m) for m in s._F]
        fF = [np.array(m) for m in s._full_F] if (self.kind == 'mmse' and s._full_F is not None) else None
        if s._W is not None:
            filt, isH = [np.array(m) for m in s._W], 0
        else:
            filt, isH = [np.array(m) for m in s._W_H], 1
        nsl = [int(x) for x in s._Ns]
        self.tokens.append('solve;%d;%s;%s;%s;%s;%s;%d;%s' % (
            1 if closed else 0, ns_tok(ns), parg_tok(p), enc_arr(F), enc_arr(fF), enc_arr(filt), isH,
            ','.join(str(x) for x in nsl)))
        return ('unit',)

    def run(self):
        self.kept = []      # per op: the object a getter returned, the arguments handed over (with snapshots)
        for op in self.case['ops']:
            out = self.do(op)
            self.outs.append(out)
            self.kept.append((self.last_returned, list(self.last_inputs)))
            if self.aborted is not None:
                break
        return self

    def line(self):
        toks = [t for t in self.tokens if t is not None]
        return 'hist %d %s %s' % (self.K, self.hd_token(), ' '.join(toks))


def parse_model_out(tok):
    if tok == 'unit':
        return ('unit',)
    if tok == 'none':
        return ('none',)
    if tok.startswith('err;'):
        return ('err', tok[4:])
    if tok.startswith('arr;'):
        return ('arr', dec_arr(tok[4:]))
    if tok.startswith('ns;'):
        v = tok[3:]
        return ('ns', None if v == 'none' else ([int(x) for x in v.split(',')] if v else []))
    if tok.startswith('pow;'):
        v = tok[4:]
        return ('pow', [core.s2f(x) for x in v.split(',')] if v else [])
    raise core.Infra('bad model output %r' % tok[:80])


def outs_agree(a, b):
    if a[0] != b[0]:
        return False
    if a[0] == 'arr':
        x, y = a[1], b[1]
        if any(m is None for m in x):
            return False
        cond = a[2] if len(a) > 2 else 1.0
        return arr_close(x, y, 1e-9 * max(1.0, cond / 1e3))
    if a[0] == 'none':
        return True
    return a[1:] == b[1:]


def out_repr(o):
    if o[0] == 'arr':
        return 'arr[' + ';'.join('None' if m is None else np.array2string(np.asarray(m), precision=6).replace('\n', '')
                                 for m in o[1])[:400] + ']'
    return repr(o)


# ---- history generators ---------------------------------------------------
def gen_dims(rng, K, square=None):
    if square is None:
        square = rng.chance(0.6)
    if square:
        n = rng.randint(2, 5)
        return [n] * K, [n] * K
    Nr = [rng.randint(2, 5) for _ in range(K)]
    Nt = [rng.randint(2, 5) for _ in range(K)]
    return Nr, Nt


SQUARES = [0.25, 1.0, 2.25, 4.0, 9.0, 16.0, 6.25]      # exact square roots
MANT = [1.0, 2.25, 4.0, 0.7, 3.3, 12.5, 2.5]
BAD_INIT = ['bogus', 'SVD', '', 'randomm', 'alt-min']


def gen_power_value(rng):
    """one linear power; class R6: 30 % of them far from 1 (1e-15 ... 1e6)"""
    r = rng.uniform()
    if r < 0.45:
        return rng.choice(SQUARES)
    if r < 0.70:
        return rng.choice(MANT)
    return rng.choice(MANT) * 10.0 ** rng.randint(-15, 6)


def typed(rng, p, prob=0.35):
    """attach an element-type / layout variant to a power argument (classes R1, R2)"""
    if p is None or p[0] == 'm' or not rng.chance(prob):
        return p
    if p[0] == 's':
        return ('s', p[1], rng.choice(scalar_types(p[1]))) if p[1] > 0 else ('s', p[1], rng.choice(['float', 'int', 'np:int16', '0d'] if float(p[1]).is_integer() else ['float', '0d']))
    if len(p[1]) == 0:
        return p
    return ('v', p[1], rng.choice(vec_types(p[1])))


def gen_parg(rng, K, bad=0.12, cur=None):
    """a power argument.  `cur` = the power in force: 12 % of the accepted arguments are a tiny relative change
    of it (class R6: a change of the power is a change, however small)"""
    r = rng.uniform()
    if r < bad:
        return typed(rng, rng.choice([('s', 0.0), ('s', -1.5), ('s', -2.0), ('v', [1.0] * (K + 1)), ('v', [1.0] * (K - 1)),
                                      ('v', [2.0] * (K - 1) + [0.0]), ('v', [-1.0] + [2.0] * (K - 1)), ('v', []),
                                      ('m', [2.0] * K, 'col'), ('m', [2.0] * K, 'row'), ('m', [2.0] * K, '3d')]))
    if r < bad + 0.12:
        return None
    if cur is not None and r < bad + 0.24:
        eps = rng.choice([1e-6, -1e-6, 1e-7, 3e-8, -2e-5, 5e-6])
        if len(set(cur)) == 1 and rng.chance(0.5):
            return ('s', cur[0] * (1.0 + eps))
        return ('v', [c * (1.0 + (eps if rng.chance(0.7) else 0.0)) for c in cur[:-1]] + [cur[-1] * (1.0 + eps)])
    if rng.chance(0.5):
        return typed(rng, ('s', gen_power_value(rng)))
    if rng.chance(0.3):      # all users at the same tiny / huge scale
        sc = 10.0 ** rng.randint(-15, 6)
        return typed(rng, ('v', [rng.choice(MANT) * sc for _ in range(K)]))
    return typed(rng, ('v', [gen_power_value(rng) for _ in range(K)]))


def gen_ns(rng, K, Nr, Nt, cur):
    r = rng.uniform()
    if r < 0.55 and cur is not None:
        return cur
    lim = [max(1, min(a, b) - 1) for a, b in zip(Nr, Nt)]
    if rng.chance(0.5):
        n = rng.randint(1, min(lim))
        return [n] * K
    return [rng.randint(1, x) for x in lim]


READS = ['rF', 'rFF', 'rW', 'rWH', 'rFWH', 'rFW', 'rNs', 'rP']


def gen_many_users(rng, K, solver='base'):
    """class R14: a history on a system with hundreds of users (2x2 links, one stream)"""
    ops = [['rand', 1, ('v', [rng.choice(SQUARES) for _ in range(K)]), rng.below(2 ** 31)],
           ['setfilt', {'which': 'W', 'seed': rng.below(2 ** 31), 'ns': [1] * K}], ['rFWH'], ['rFF'],
           ['query', 'calcQ', K - 1, 'np:int64', None], ['query', 'calcQ', 256, 'int', 'kw'],
           ['setP', ('s', 4.0)], ['rFF'], ['rFWH'],
           ['setP', ('v', [1.0] * (K - 1))], ['rP'],
           ['setprec', {'ns': [1] * K, 'F': rng.below(2 ** 31), 'fullF': None, 'P': None, 'amp_P': [4.0] * K, 'cty': 'list'}],
           ['rFWH'], ['rFW'], ['rNs']]
    if solver != 'base':
        ops += [['solve', 1, ('s', 2.0), rng.below(2 ** 31), 'random'], ['rFF'], ['rFWH'], ['rNs']]
    return {'K': K, 'Nr': [2] * K, 'Nt': [2] * K, 'chan_seed': rng.below(2 ** 31), 'solver': solver, 'iters': 1,
            'best': False, 'noise': None, 'chan_scale': 1.0, 'ops': ops}


def cf_ok(K, Nr, Nt, ns):
    """domain of the closed-form solution: 3 users, one antenna count N everywhere (the code inverts the cross
    channels), the same number of streams 1 <= Ns <= N/2 for every user (an Ns-dimensional interference-free
    subspace must be left at every receiver: N - Ns >= Ns)"""
    return K == 3 and len(set(Nr + Nt)) == 1 and len(set(ns)) == 1 and 1 <= ns[0] <= Nr[0] // 2


def gen_cf_dims(rng):
    """(N, Ns) for the closed form: N = 2..8, every Ns in 1..N/2 (half of the draws below N/2)"""
    n = rng.choice([2, 3, 4, 4, 5, 6, 6, 7, 8])
    top = n // 2
    ns = top if rng.chance(0.45) else rng.randint(1, top)
    return n, ns


def gen_history(rng, tier, solver=None, length=None):
    solver = solver or rng.choice(['base', 'base', 'minleak', 'altmin', 'maxsinr', 'mmse', 'closed'])
    K = rng.choice([2, 3, 3, 3, 4])
    if solver == 'base' and rng.chance(0.12):
        K = 1                                   # class R5: a single user (one-element power vectors)
    cf_system = solver not in ('base', 'closed') and rng.chance(0.15)
    if solver == 'closed':
        K = 3 if rng.chance(0.9) else rng.choice([2, 4])
        n, cf_ns = gen_cf_dims(rng)
        Nr, Nt = [n] * K, [n] * K
    elif cf_system:
        K = 3
        n, cf_ns = gen_cf_dims(rng)
        if n > 6:
            n, cf_ns = 6, min(cf_ns, 3)
        Nr, Nt = [n] * K, [n] * K
    else:
        Nr, Nt = gen_dims(rng, K)
    grid = rng.chance(0.4)        # matrices exact in every element type (needed for the R1 variants)
    case = {'K': K, 'Nr': Nr, 'Nt': Nt, 'chan_seed': rng.below(2 ** 31), 'solver': solver,
            'iters': rng.choice([0, 1, 1, 2, 3]), 'best': rng.chance(0.3),
            'noise': (rng.choice([None, 0.01, 0.1, 0.01, 0.1, 1.0]) if solver in ('mmse', 'maxsinr')
                      else rng.choice([None, None, 0.0])),
            'chan_scale': rng.choice([1.0, 1.0, 1.0, 1e-6, 1e-3, 1e3, 1e6]),
            'ops': []}
    if solver == 'closed' and rng.chance(0.6):
        case['ctor'] = rng.choice(['pos', 'allkw', 'default', 'npbool', 'int'])
        if case['ctor'] == 'default':
            case['best'] = True
    elif solver != 'closed' and rng.chance(0.2):
        case['ctor'] = 'allkw'
    if solver not in ('base', 'closed') and rng.chance(0.3):
        case['iters_ty'] = rng.choice(COUNT_TYPES)
    if grid and rng.chance(0.3) and solver == 'base':
        case['chan_ty'] = rng.choice(['c64', 'fortran', 'transposed', 'strided'])
    elif rng.chance(0.15):
        case['chan_ty'] = rng.choice(['fortran', 'transposed', 'strided', 'reversed'])
    cur = gen_ns(rng, K, Nr, Nt, None)
    if solver == 'closed' or cf_system:
        cur = [cf_ns] * K
    n = length or (rng.randint(4, 14) if tier == 'quick' else rng.randint(4, 30))
    ops = case['ops']
    curP = [1.0] * K          # the power in force (a given full_F must respect it)
    iterative = solver not in ('base', 'closed')
    mode = 'random'

    def ns_arg(ns):
        v = ns[0] if (len(set(ns)) == 1 and rng.chance(0.5)) else ns
        return vary_ns(rng, v) if rng.chance(0.35) else v

    def call_form(p):
        r = rng.uniform()
        if r < 0.55:
            return None
        return rng.choice(['kw', 'mixed', 'kwrev', 'default' if p is None else 'kw'])

    QUERIES = ['calcQ', 'calcQ', 'calcQrev', 'rip', 'sinr', 'sinrdB', 'cap', 'sinr_old', 'cost', 'repr', 'dims', 'copy']

    def mat_variant(d, mats_real_int_ok):
        """choose element type / layout / container variants for the matrices of a setter call"""
        if rng.chance(0.5):
            d['cty'] = rng.choice(['list', 'tuple', 'objarr'])
        if rng.chance(0.35):
            d['form'] = rng.choice(['pos', 'default', 'mixed'])
        if rng.chance(0.15):
            d['mty'] = 'hetero'
            d['hseed'] = rng.below(2 ** 20)
        elif rng.chance(0.6):
            opts = ['fortran', 'transposed', 'strided', 'reversed', 'readonly']
            if d.get('grid'):
                opts += ['c64', 'c64']
                if d.get('real'):
                    opts += ['real', 'f32']
                    if mats_real_int_ok:
                        opts += ['int', 'int16']
            d['mty'] = rng.choice(opts)

    for _ in range(n):
        r = rng.uniform()
        if r < 0.24:
            ops.append([rng.choice(READS)])
        elif r < 0.32:
            # the non-mutating API, between the mutators (classes R11, R9, R8)
            kty = rng.choice(['int', 'int'] + COUNT_TYPES)
            ops.append(['query', rng.choice(QUERIES), rng.below(K), kty, rng.choice([None, None, 'kw'])])
        elif r < 0.345:
            ops.append(['fork', rng.choice(['deepcopy', 'pickle', 'copy'])])
        elif r < 0.48:
            p = gen_parg(rng, K, cur=curP)
            if parg_valid(p, K):
                curP = parg_vec(p, K)
            ops.append(['setP', p])
        elif r < 0.57:
            ns = gen_ns(rng, K, Nr, Nt, cur)
            p = gen_parg(rng, K, cur=curP)
            if parg_valid(p, K):
                curP = parg_vec(p, K)
                cur = ns
            ops.append(['rand', ns_arg(ns), p, rng.below(2 ** 31), call_form(p)])
        elif r < 0.71:
            ns = gen_ns(rng, K, Nr, Nt, cur)
            mode_p = rng.choice(['F', 'F', 'F', 'fullF', 'both', 'neither'])
            P = None if rng.chance(0.5) else [gen_power_value(rng) for _ in range(K)]
            if mode_p != 'neither':
                cur = ns
                if P is not None:
                    curP = list(P)
            d = {'ns': ns, 'F': rng.below(2 ** 31) if mode_p in ('F', 'both') else None,
                 'fullF': rng.below(2 ** 31) if mode_p in ('fullF', 'both') else None,
                 'P': P, 'amp_P': list(curP)}
            if grid:
                d['grid'] = True
                d['real'] = rng.chance(0.4)
            if P is not None and rng.chance(0.4):
                d['pty'] = rng.choice(vec_types(P) + ['mixedlist'])
            # integer element types only for a one-hot precoder that is passed alone (full_F would scale it)
            mat_variant(d, False)
            ops.append(['setprec', d])
        elif r < 0.82:
            ns = cur if rng.chance(0.85) else gen_ns(rng, K, Nr, Nt, None)
            which = rng.choice(['W', 'W', 'WH', 'WH', 'both', 'none'])
            d = {'which': which, 'seed': rng.below(2 ** 31), 'ns': ns}
            if grid:
                d['grid'] = True
                d['real'] = rng.chance(0.4)
                d['integer'] = d['real'] and rng.chance(0.5)
            mat_variant(d, d.get('integer', False))
            ops.append(['setfilt', d])
        elif r < 0.87 and iterative:
            # the validated attribute of the iterative solvers, accepted and rejected values (class R4)
            if rng.chance(0.55):
                v = rng.choice(BAD_INIT + (['alt_min'] if solver == 'altmin' else []))
            else:
                opts = ['random', 'svd'] + (['alt_min'] if solver != 'altmin' else [])
                if cf_ok(K, Nr, Nt, cur):
                    opts.append('closed_form')
                v = rng.choice(opts)
                mode = v
            ops.append(['setinit', v])
        elif r < 0.97 and solver != 'base':
            if solver == 'closed':
                ns = [cf_ns if rng.chance(0.7) else rng.randint(1, Nr[0] // 2)] * K
            elif cf_system and rng.chance(0.7):
                ns = [cf_ns if rng.chance(0.7) else rng.randint(1, Nr[0] // 2)] * K
            else:
                ns = gen_ns(rng, K, Nr, Nt, cur)
                if solver == 'minleak' and rng.chance(0.5):
                    ns = [1] * K
            init = None
            if solver != 'closed':
                if rng.chance(0.3) and (mode != 'closed_form' or cf_ok(K, Nr, Nt, ns)):
                    init = None                     # keep the mode in force
                else:
                    init = rng.choice(['random', 'random', 'svd',
                                       'closed_form' if cf_ok(K, Nr, Nt, ns) else 'random',
                                       'alt_min' if solver != 'altmin' else 'random'])
                    mode = init
            p = gen_parg(rng, K, bad=0.1, cur=curP)
            if parg_valid(p, K) and not (solver == 'closed' and K != 3):
                curP = parg_vec(p, K)
                cur = ns
            ops.append(['solve', ns_arg(ns), p, rng.below(2 ** 31), init, call_form(p)])
        else:
            curP = [1.0] * K
            ops.append(['clear'])
    # always end by reading every derived quantity twice
    ops += [['rFF'], ['rFWH'], ['rFW'], ['rWH'], ['rW'], ['rNs'], ['rP'], ['rFWH']]
    # class R16: a quarter of the histories hand every array over in one refilled buffer per role; the object's own
    # arrays are handed back to its setters
    if rng.chance(0.25):
        case['reuse'] = True
    if rng.chance(0.2):
        for _ in range(rng.randint(1, 3)):
            ops.insert(rng.randint(1, len(ops) - 1), ['selfset', rng.choice(['F', 'fullF', 'W', 'WH', 'P', 'FP'])])
    return case


CORPUS_HISTORIES = [
    # finding (16a): P setter after full_F was read
    {'K': 2, 'Nr': [2, 2], 'Nt': [2, 2], 'chan_seed': 11, 'solver': 'base', 'ops': [
        ['rand', 1, ('s', 4.0), 5], ['rFF'], ['setP', ('s', 1.0)], ['rFF'], ['rP']]},
    # finding (16b): set_precoders after full_W_H was read
    {'K': 2, 'Nr': [2, 2], 'Nt': [2, 2], 'chan_seed': 12, 'solver': 'base', 'ops': [
        ['rand', 1, None, 6], ['setfilt', {'which': 'W', 'seed': 3, 'ns': [1, 1]}], ['rFWH'],
        ['setprec', {'ns': [1, 1], 'F': 77, 'fullF': None, 'P': None, 'amp_P': [1.0, 1.0]}], ['rFWH'], ['rFW']]},
    # randomizeF after full_W_H was read; P setter after full_W_H / full_W were read
    {'K': 3, 'Nr': [3, 3, 3], 'Nt': [3, 3, 3], 'chan_seed': 13, 'solver': 'base', 'ops': [
        ['rand', 2, ('s', 2.25), 8], ['setfilt', {'which': 'WH', 'seed': 4, 'ns': [2, 2, 2]}], ['rFW'],
        ['rand', 2, ('v', [1.0, 4.0, 9.0]), 9], ['rFWH'], ['rFW'], ['setP', ('v', [4.0, 4.0, 0.25])], ['rFWH'], ['rFW'],
        ['rFF']]},
    # getters before anything is installed; errors of the getters must not leave a half-built cache
    {'K': 2, 'Nr': [2, 2], 'Nt': [2, 2], 'chan_seed': 14, 'solver': 'base', 'ops': [
        ['rFF'], ['rFWH'], ['rFW'], ['rFW'], ['setfilt', {'which': 'W', 'seed': 5, 'ns': [1, 1]}], ['rFWH'], ['rFWH'],
        ['rFW'], ['rFW'], ['rand', 1, None, 10], ['rFWH'], ['rFW']]},
    # rejected arguments
    {'K': 2, 'Nr': [2, 3], 'Nt': [3, 2], 'chan_seed': 15, 'solver': 'base', 'ops': [
        ['setP', ('s', 0.0)], ['setP', ('v', [1.0, 2.0, 3.0])], ['setP', ('v', [1.0, -2.0])], ['rP'],
        ['setprec', {'ns': [1, 1], 'F': None, 'fullF': None, 'P': None, 'amp_P': [1.0, 1.0]}],
        ['setfilt', {'which': 'both', 'seed': 5, 'ns': [1, 1]}], ['setfilt', {'which': 'none', 'seed': 5, 'ns': [1, 1]}],
        ['rand', [1, 1], ('s', -1.0), 3], ['rF'], ['rNs']]},
]


def correspond_histories(ctx, cases):
    drv = core.Driver(DRIVER)
    runs = []
    for case in cases:
        try:
            h = Hist(case).run()
        except core.Infra:
            raise
        except Exception as e:
            # an exception escaping the library wrappers on an input the property covers is a failing input
            ctx.fail('history', 'library-exception:' + type(e).__name__, case, repr(e)[:300])
            continue
        if h.pair_fail is not None:
            ctx.corr('history.R8-equivalent-calls', case, h.pair_fail[0] + ': ' + h.pair_fail[1], 'agree',
                     key=('histR8', repr(case)))
        runs.append(h)
    lines = [h.line() for h in runs]
    replies = []
    for i in range(0, len(lines), 400):
        replies += drv.ask(lines[i:i + 400])
    for h, rep in zip(runs, replies):
        toks = rep.split(' ') if rep else []
        n_model = len([t for t in h.tokens if t is not None])
        if len(toks) != n_model:
            ctx.tie_broken('correspondence', 'history', 'model replied %d outputs for %d ops: %s' % (len(toks), n_model, rep[:200]),
                           h.case)
            continue
        ok = True
        mi = 0
        for i, (op, out) in enumerate(zip(h.case['ops'], h.outs)):
            if h.tokens[i] is None:
                break
            mo = parse_model_out(toks[mi])
            mi += 1
            agree = outs_agree(out, mo)
            ctx.branch('op:' + op[0])
            ctx.branch('out:' + (out[0] if out[0] != 'err' else 'err:' + out[1]))
            if not agree and ok:
                ok = False
                ctx.corr('history', {'case': h.case, 'op_index': i}, 'op %d %s -> %s' % (i, op[0], out_repr(out)),
                         'op %d %s -> %s' % (i, op[0], out_repr(mo)), key=('hist', repr(h.case)))
            # class R3: at the END of the history the object an earlier getter returned still holds the model's value
            # for that moment, and every argument is what it was when it was handed over
            ret, inps = h.kept[i]
            if ok and out[0] == 'arr' and ret is not None:
                now = ('arr', [None if m is None else np.array(m) for m in ret]) + tuple(out[2:])
                if not outs_agree(now, mo):
                    ok = False
                    ctx.corr('history.R3-returned-array-changed-later', {'case': h.case, 'op_index': i},
                             'op %d %s returned %s, which later became %s' % (i, op[0], out_repr(out)[:150], out_repr(now)[:150]),
                             'unchanged', key=('histR3', repr(h.case)))
            for lab, obj, snap in inps:
                if ok and not same_frozen(freeze(obj), snap):
                    ok = False
                    ctx.corr('history.R3-argument-modified', {'case': h.case, 'op_index': i},
                             'argument %s of op %d %s was modified' % (lab, i, op[0]), 'unchanged',
                             key=('histR3', repr(h.case)))
        for c in case_classes(h.case):
            ctx.branch('corr:' + c)
        ctx.branch('corr:R3')
        if ok:
            ctx.corr('history', h.case, 'agree', 'agree', nontrivial=len(h.case['ops']) >= 3, key=('hist', repr(h.case)))
        ctx.evaluations += len(h.outs)
    return runs


# ------------------------------------------------------------------ oracles (implementation only)
def power_tol(kind):
    return 1e-6 if kind == 'mmse' else 1e-9


def check_relations(s, ch, K, exact_power, kind, want_filters=True, strict_shapes=False):
    """first-principles relations on the values returned by the public getters of `s`
    (call on a deep copy: the getters populate caches).  Returns None or (relation, detail)."""
    F = s.F
    if F is None:
        return None
    F = [np.asarray(m, dtype=complex) for m in F]       # the oracle computes in double precision
    P = np.asarray(s.P, dtype=float).reshape(-1)
    Ns = s.Ns
    for k in range(K):
        if abs(fro(F[k]) - 1.0) > 1e-9:
            return 'unit-norm', 'user %d: ||F||=%r' % (k, fro(F[k]))
        if Ns is None or int(Ns[k]) != F[k].shape[1]:
            return 'stream-count', 'user %d: Ns=%r, F has %d columns' % (k, None if Ns is None else int(Ns[k]), F[k].shape[1])
    fF = [np.asarray(m, dtype=complex) for m in s.full_F]
    for k in range(K):
        pw = fro(fF[k]) ** 2
        if pw > P[k] * (1 + power_tol(kind)):
            return 'power', 'user %d: ||full_F||^2=%r > P=%r' % (k, pw, P[k])
        if exact_power and abs(pw - P[k]) > 1e-11 * P[k]:
            return 'power', 'user %d: ||full_F||^2=%r != P=%r' % (k, pw, P[k])
        if not mat_close(fF[k], np.asarray(F[k]) * fro(fF[k]), 1e-9):
            return 'direction', 'user %d: full_F is not a positive multiple of F' % k
    if not want_filters:
        return None
    WH = s.W_H
    if WH is None:
        return None
    W = s.W
    for k in range(K):
        if not mat_close(W[k], Hm(WH[k]), 1e-12):
            return 'W-vs-W_H', 'user %d' % k
        if np.asarray(W[k]).dtype.kind in 'iu' and np.asarray(WH[k]).dtype.kind not in 'iu':
            return 'W-vs-W_H', 'user %d: integer truncation' % k
    conform = all(np.shape(WH[k]) == (np.shape(F[k])[1], ch.Nr[k]) for k in range(K))
    if not conform:
        if strict_shapes:       # filters produced by solve(): one row of W_H per stream
            k = [np.shape(WH[k]) == (np.shape(F[k])[1], ch.Nr[k]) for k in range(K)].index(False)
            return 'filter-shape', 'user %d: W_H has shape %s, Ns=%d, Nr=%d' % (k, np.shape(WH[k]), np.shape(F[k])[1], ch.Nr[k])
        return None
    WH = [np.asarray(m, dtype=complex) for m in WH]
    conds = [np.linalg.cond(WH[k] @ Hkl(ch, k, k) @ fF[k]) for k in range(K)]
    if max(conds) > 1e6:
        return None
    try:
        fWH = s.full_W_H
        fW = s.full_W
    except Exception as e:
        return 'getter-raises', 'full_W_H/full_W raised %s: %s' % (type(e).__name__, str(e)[:100])
    for k in range(K):
        if fWH[k] is None or fW[k] is None:
            return 'identity', 'user %d: full_W_H[k] is None' % k
        if fWH[k].shape != WH[k].shape:
            return 'filter-shape', 'user %d: full_W_H %s vs W_H %s' % (k, fWH[k].shape, WH[k].shape)
        E = fWH[k] @ Hkl(ch, k, k) @ fF[k] - np.eye(F[k].shape[1])
        if float(np.abs(E).max()) > 1e-10 * conds[k] + 1e-9:
            return 'identity', 'user %d: |full_W_H H_kk full_F - I| = %.3e (cond %.2e)' % (k, float(np.abs(E).max()), conds[k])
        # the full filter is the IA filter followed by a post-processing matrix: its rows lie in the row space
        # of the CURRENT W_H
        cw = float(np.linalg.cond(WH[k]))
        if cw < 1e6:
            R = fWH[k] - fWH[k] @ np.linalg.pinv(WH[k]) @ WH[k]
            if float(np.abs(R).max()) > (1e-10 * cw * conds[k] + 1e-9) * float(np.abs(fWH[k]).max()):
                return 'filter-rowspace', 'user %d: full_W_H is not (post-processing matrix) x W_H: residual %.3e' % (
                    k, float(np.abs(R).max()))
        if not mat_close(fW[k], Hm(fWH[k]), 1e-12):
            return 'full_W-vs-full_W_H', 'user %d' % k
    return None


def solve_defined(kind, K, Nr, Nt, ns, init, noise=None):
    """configurations on which the solver is defined (what the property quantifies over):
    streams 1..min(Nt,Nr)-1; closed form: 3 users, equal even antenna counts, N/2 streams; max-SINR and MMSE
    invert interference-plus-noise covariances, which are singular without noise when there are few interferers"""
    if any(n < 1 or n > min(a, b) - 1 for n, a, b in zip(ns, Nr, Nt)):
        return False
    if kind in ('maxsinr', 'mmse') and not (noise is not None and noise > 0):
        return False
    if kind == 'closed' or init == 'closed_form':
        return cf_ok(K, Nr, Nt, ns)
    return True


FIELDS = ['_F', '_full_F', '_W', '_W_H', '_full_W_H', '_full_W', '_P', '_Ns']
MUTATORS = ('setP', 'rand', 'setprec', 'setfilt', 'solve', 'clear', 'setinit', 'selfset')


def freeze(v):
    """deep, independent copy of an argument / attribute for later comparison"""
    if v is None or isinstance(v, (int, float, str, bool)):
        return v
    if isinstance(v, np.ndarray) and v.dtype != object:
        return np.array(v, copy=True)
    if isinstance(v, (list, tuple, np.ndarray)):
        return [freeze(m) for m in v]
    return copy.deepcopy(v)


def same_frozen(a, b):
    if a is None or b is None:
        return a is None and b is None
    if isinstance(a, list) or isinstance(b, list):
        return isinstance(a, list) and isinstance(b, list) and len(a) == len(b) and \
            all(same_frozen(x, y) for x, y in zip(a, b))
    if isinstance(a, np.ndarray) or isinstance(b, np.ndarray):
        a, b = np.asarray(a), np.asarray(b)
        return a.shape == b.shape and bool(np.array_equal(a, b, equal_nan=True))
    return a == b


def observables(s):
    d = {f: freeze(getattr(s, f)) for f in FIELDS}
    for f in ('_initialize_with', 'max_iterations', 'relative_factor', '_use_best_init'):
        if hasattr(s, f):
            d[f] = getattr(s, f)
    return d


def configuration(s):
    """what a non-mutating call must leave alone: the primaries and the settings (lazily derived attributes may
    be populated by it)"""
    d = {f: freeze(getattr(s, f)) for f in ('_F', '_P', '_Ns')}
    w = s._W if s._W is not None else (None if s._W_H is None else [Hm(np.asarray(m)) for m in s._W_H])
    d['W'] = freeze(w)
    for f in ('_initialize_with', 'max_iterations', 'relative_factor', '_use_best_init', '_runned_iterations'):
        if hasattr(s, f):
            d[f] = getattr(s, f)
    return d


def first_difference(a, b):
    for f in a:
        if f not in b or not same_frozen(a[f], b[f]):
            return f
    return None


def leaves(v):
    """the numeric arrays inside an argument / attribute"""
    if isinstance(v, np.ndarray) and v.dtype != object:
        return [v]
    if isinstance(v, (list, tuple, np.ndarray)):
        return [x for m in v for x in leaves(m)]
    return []


def outs_equal(a, b, rtol=1e-12):
    if a[0] != b[0]:
        return False
    if a[0] == 'arr':
        return len(a[1]) == len(b[1]) and all(
            (x is None and y is None) or (x is not None and y is not None and mat_close(x, y, rtol))
            for x, y in zip(a[1], b[1]))
    if a[0] == 'none':
        return True
    return a[1:] == b[1:]


class Other:
    """a second solver working on the SAME channel object as the solver under test (class R7)"""

    def __init__(self, ch, K, Nr, Nt, seed):
        self.s = make_solver('minleak' if K >= 2 else 'base', ch)
        self.K, self.Nr, self.Nt, self.seed = K, Nr, Nt, seed
        self.log = []

    def act(self, stage):
        s = self.s
        if stage == 0:
            s._rs = np.random.RandomState(self.seed)
            s.randomizeF(1, 2.0)
            s.set_receive_filters(W=objarr(gen_unit(self.seed + 1, self.Nr, [1] * self.K)))
            self.log.append([np.array(m) for m in s.full_W_H] + [np.array(m) for m in s.full_F])
        else:
            s.P = 5.0
            self.log.append([np.array(m) for m in s.full_W_H] + [np.array(m) for m in s.full_F])


def tags_class(h, i):
    """R-class tags of the variant arguments of the last mutator at or before op i"""
    for j in range(i, -1, -1):
        if h.case['ops'][j][0] in MUTATORS:
            return ('[' + ','.join(sorted(h.tags[j])) + ']') if h.tags[j] else ''
    return ''


def o_history(case):
    """the relations of the property after every operation of a history (getters read on a deep copy), and the
    robustness classes: R3 arguments are not modified / returned arrays do not change later / internals do not alias
    the arguments; R4 a rejected call changes nothing and the object goes on like one that never saw it; R7 a second
    solver on the same channel object does not interfere, the channel is not modified, and after the history the
    object solves like a freshly built one"""
    h = Hist(case)
    # never sees the rejected calls, has its channel for itself, and is handed a fresh array for every argument
    # (class R16: the object under test gets refilled buffers when the case says so)
    twin = Hist(case, reuse=False)
    K = h.K
    other = Other(h.ch, K, h.Nr, h.Nt, case['chan_seed'] % 1000 + 7)
    other_ref = Other(case_channel(case), K, h.Nr, h.Nt, case['chan_seed'] % 1000 + 7)
    ch0 = h.ch
    chan0 = np.array(h.ch.big_H, copy=True)
    nops = len(case['ops'])
    stages = {nops // 3: 0, (2 * nops) // 3: 1}
    exact = True
    last_mut = 'init'
    skipped = None
    passive = None
    watched_in = []       # (op index, op name, label, object, snapshot)
    watched_out = []      # (op index, getter, object, snapshot)
    for i, op in enumerate(case['ops']):
        name = op[0]
        if i in stages:
            try:
                other.act(stages[i])
                other_ref.act(stages[i])
            except Exception as e:
                return 'shared-channel:other-solver-raises', '%s: %s' % (type(e).__name__, str(e)[:100])
        before = observables(h.s) if name in MUTATORS else None
        config0 = configuration(h.s) if name in ('query', 'fork') else None
        if name == 'solve' and op[4] is not None and '_initialize_with' in before:
            before['_initialize_with'] = op[4]      # the op first selects the (valid) initialisation mode
        out = h.do(op)
        h.outs.append(out)
        sfx = tags_class(h, i)
        if out[0] == 'arr' and any(m is None for m in out[1]):
            return 'half-built-array-returned:' + name, 'op %d: the getter returned an object array holding None' % i
        # ---- R4: a rejected call leaves the object exactly as it was
        rejected = name in MUTATORS and out[0] == 'err'
        if name == 'solve' and out[0] == 'err':
            ns = ns_list(op[1], K)
            init = op[4] if op[4] is not None else h.mode
            if parg_valid(op[2], K) and solve_defined(h.kind, K, h.Nr, h.Nt, ns, init, case.get('noise')):
                cf = ''
                if h.kind == 'closed' or init == 'closed_form':
                    cf = 'closed-form:Ns<N/2:' if 2 * ns[0] < h.Nr[0] else 'closed-form:Ns=N/2:'
                return ('solve-raises:%s:%s%s%s' % (h.kind, cf, 'Ns>=2' if max(ns) >= 2 else 'Ns=1', sfx),
                        'op %d: solve raised %s' % (i, out[1]))
            if h.aborted is not None:
                return None
        # ---- a call whose arguments are all in the documented domain is accepted, and the power it gives is the
        # power in force afterwards
        if name in ('setP', 'rand') and parg_valid(op[1] if name == 'setP' else op[2], K) and out[0] == 'err':
            return ('accepted-argument-rejected:%s%s' % (name, sfx), 'op %d: %s raised %s for valid arguments' % (i, name, out[1]))
        if name == 'setinit' and init_accepted(h.kind, op[1]) and out[0] == 'err':
            return 'accepted-argument-rejected:setinit', 'op %d: initialize_with = %r raised %s' % (i, op[1], out[1])
        if out[0] != 'err' and name in ('setP', 'rand', 'solve', 'setprec'):
            given = op[1] if name == 'setP' else (op[2] if name in ('rand', 'solve') else
                                                  (('v', op[1]['P']) if op[1].get('P') is not None else 'keep'))
            if given != 'keep':
                want = parg_vec(given, K)
                got = [float(x) for x in np.asarray(h.s.P, dtype=float).reshape(-1)]
                if got != want:
                    return ('power-not-stored:%s%s' % (name, sfx), 'op %d: P given %r, P afterwards %r' % (i, want[:4], got[:4]))
        if out[0] != 'err' and name in ('setprec', 'setfilt'):
            # class R15: the matrices given are stored as the values they are (an exact copy, whatever was stored
            # before and however close to it they are)
            for fld, want in h.given.items():
                if want is None:
                    continue
                got = getattr(h.s, fld)
                if got is None or len(got) != len(want) or not all(
                        np.shape(a) == np.shape(b) and np.array_equal(np.asarray(a), np.asarray(b)) for a, b in zip(got, want)):
                    near = op[1].get('near') or ('scale' if op[1].get('scale') else None)
                    return ('matrix-not-stored:%s:%s%s%s' % (name, fld, ':R15:' + near if near else '', sfx),
                            'op %d: %s does not hold exactly the matrices given to %s' % (i, fld, name))
        if rejected:
            # what the harness itself does around the call (mode selection, seeding) also happens on the twin
            if name == 'solve':
                if hasattr(twin.s, 'initialize_with') and op[4] is not None:
                    twin.s.initialize_with = op[4]
                    twin.mode = op[4]
                seed_solver(twin.s, op[3])
            elif name == 'rand':
                twin.s._rs = np.random.RandomState(op[3])
            f = first_difference(before, observables(h.s))
            if f is not None:
                return ('rejected-call-changed-object:%s:%s' % (name, f),
                        'op %d: %s raised %s but %s is no longer what it was' % (i, name, out[1], f))
            skipped = name
        elif name in ('query', 'fork'):
            # ---- R11 / R13: the non-mutating API and the derivation of a copy change no configuration attribute;
            # the twin never makes these calls, every later output must still agree with it
            f = first_difference(config0, configuration(h.s))
            if f is not None:
                return ('non-mutating-call-changed-object:%s:%s' % (op[1], f),
                        'op %d: %s(%s) changed %s' % (i, name, op[1], f))
            if h.pair_fail is not None:
                return h.pair_fail[0], 'op %d: %s' % (i, h.pair_fail[1])
            passive = name + ':' + op[1]
        else:
            # class R8: the twin uses the OTHER of two equivalent forms (W <-> W_H = W^H)
            op2 = op
            if name == 'setfilt' and op[1]['which'] in ('W', 'WH'):
                op2 = ['setfilt', dict(op[1], which='WH' if op[1]['which'] == 'W' else 'W')]
            out2 = twin.do(op2)
            twin.outs.append(out2)
            if name == 'solve' and h.parents and out[0] == 'unit' and out2[0] == 'unit':
                # after a copy / pickle round trip the arrays have another memory layout; the eigenvector kernels
                # of an under-determined system (null space larger than Ns) then legitimately pick another solution.
                # The numeric content of solve is not the subject here: the twin goes on with the same solution.
                for fld in FIELDS:
                    setattr(twin.s, fld, copy.deepcopy(getattr(h.s, fld)))
            if not outs_equal(out, out2):
                why = ('after-rejected:' + skipped) if skipped else (
                    ('after-passive:' + passive) if passive else ('shared-channel' if other.log else 'not-reproducible'))
                return ('differs-from-twin-object:%s:%s' % (why, name),
                        'op %d (%s): %s but the twin object gives %s' % (i, name, out_repr(out)[:150], out_repr(out2)[:150]))
        # ---- R3: arguments are left alone, internals do not share memory with them, returned arrays stay as they were
        for (j, nm, lab, obj, snap) in watched_in:
            if not same_frozen(freeze(obj), snap):
                return 'argument-modified:%s:%s' % (nm, lab), 'op %d (%s) changed the %s passed to op %d' % (i, name, lab, j)
        for lab, obj, snap in h.last_inputs:
            if not same_frozen(freeze(obj), snap):
                return 'argument-modified:%s:%s' % (name, lab), 'op %d changed its own argument %s' % (i, lab)
            if out[0] != 'err':
                mine = [x for f in FIELDS for x in leaves(getattr(h.s, f))]
                if any(np.shares_memory(a, b) for a in leaves(obj) for b in mine if a.size and b.size):
                    return ('argument-aliased:%s:%s' % (name, lab),
                            'op %d: the solver keeps (a view of) the caller\'s %s: a later change of the caller\'s array '
                            'changes the solver' % (i, lab))
            watched_in.append((i, name, lab, obj, snap))
        for (j, nm, obj, snap) in watched_out:
            if not same_frozen(freeze(obj), snap):
                return ('returned-array-changed:%s:by-%s' % (nm, name),
                        'the value returned by op %d (%s) changed when op %d (%s) was executed' % (j, nm, i, name))
        if name in READS and h.last_returned is not None and out[0] != 'err':
            watched_out.append((i, name, h.last_returned, freeze(h.last_returned)))
        watched_in, watched_out = watched_in[-10:], watched_out[-10:]
        # ---- the relations of the property
        if out[0] == 'err':
            pass
        elif name in ('setP', 'rand', 'clear'):
            exact = True
            last_mut = name
        elif name == 'setprec':
            exact = op[1].get('fullF') is None
            last_mut = name
        elif name == 'solve':
            exact = h.kind != 'mmse'
            last_mut = name
        elif name == 'setfilt':
            last_mut = name
        elif name == 'selfset':
            if op[1] in ('F', 'P', 'FP'):
                exact = True
            last_mut = name
        if rejected:
            last_mut = name + '-rejected'
        try:
            c = copy.deepcopy(h.s)
            r = check_relations(c, h.ch, K, exact, h.kind, strict_shapes=(last_mut == 'solve'))
        except Exception as e:
            if h.s.F is None:
                continue
            r = ('getter-raises', '%s: %s' % (type(e).__name__, str(e)[:100]))
        if r is not None:
            return '%s-after:%s%s' % (r[0], last_mut, sfx), 'op %d (%s): %s' % (i, name, r[1])
    # ---- R13: the objects the history was forked from are what they were at that moment
    for (obj, snap, how) in h.parents:
        f = first_difference(snap, observables(obj))
        if f is not None:
            return 'parent-changed-through-derived-object:%s:%s' % (how, f), \
                'attribute %s of the object a %s was taken from changed afterwards' % (f, how)
    # ---- R7: the other user of the channel object, the channel object, a freshly built solver
    if not np.array_equal(np.asarray(ch0.big_H), chan0):
        return 'shared-channel:channel-modified', 'big_H of the channel object changed during the history'
    for a, b in zip(other.log, other_ref.log):
        if not all(mat_close(x, y, 1e-12) for x, y in zip(a, b)):
            return ('shared-channel:other-solver-affected',
                    'a second solver on the same channel object returns other values than on a channel of its own')
    ca, cb = configuration(h.s), configuration(twin.s)
    for f in ('_F', '_P', '_Ns', 'W'):
        la, lb = leaves(ca[f]), leaves(cb[f])
        if len(la) != len(lb) or not all(mat_close(x, y, 1e-12) for x, y in zip(la, lb)):
            return 'differs-from-twin-object:final-state:%s' % f, 'attribute %s differs from the twin object at the end' % f
    if h.kind != 'base' and (h.kind not in ('maxsinr', 'mmse') or (case.get('noise') or 0) > 0):
        ns = [max(1, (h.Nr[0] // 2) - (case['chan_seed'] % 2))] * K if h.kind == 'closed' else [1] * K
        if h.kind != 'closed' or cf_ok(K, h.Nr, h.Nt, ns):
            init = None if h.kind == 'closed' else 'svd'
            fin = ['solve', ns, ('s', 2.0), 4242, init]
            fresh = Hist(case, reuse=False)
            o1, o2 = h.do(fin), fresh.do(fin)
            if o1[0] == 'err':
                return 'solve-raises:%s:after-history' % h.kind, 'the final solve raised %s' % o1[1]
            r = check_relations(copy.deepcopy(h.s), h.ch, K, h.kind != 'mmse', h.kind, strict_shapes=True)
            if r is not None:
                return '%s-after:final-solve' % r[0], r[1]
            for g in (('rNs', 'rP') if h.parents else ('rFF', 'rFWH', 'rNs', 'rP')):
                a, b = h.do([g]), fresh.do([g])
                if not outs_equal(a, b, 1e-9):
                    return ('long-lived-object-differs-from-fresh-object:%s' % h.kind,
                            '%s after the same solve: %s vs %s' % (g, out_repr(a)[:120], out_repr(b)[:120]))
    return None


def leak_alt(ch, K, F, P, ns):
    """total interference power outside the best (Nr-Ns)-dimensional subspace of every receiver"""
    tot = 0.0
    for k in range(K):
        J = np.hstack([Hkl(ch, k, l) @ F[l] * math.sqrt(P[l]) for l in range(K) if l != k])
        sv = np.linalg.svd(J, compute_uv=False)
        sv2 = np.concatenate([sv ** 2, np.zeros(max(0, J.shape[0] - sv.size))])
        tot += float(np.sum(np.sort(sv2)[:ns[k]]))
    return tot


def leak_min(ch, K, F, P, ns):
    """the same, per unit-norm receive filter with equal power per stream (weight 1/Ns_k)"""
    tot = 0.0
    for k in range(K):
        J = np.hstack([Hkl(ch, k, l) @ F[l] * math.sqrt(P[l]) for l in range(K) if l != k])
        sv = np.linalg.svd(J, compute_uv=False)
        sv2 = np.concatenate([sv ** 2, np.zeros(max(0, J.shape[0] - sv.size))])
        tot += float(np.sum(np.sort(sv2)[:ns[k]])) / ns[k]
    return tot


def feasible(F, ns):
    return all(mat_close(Hm(F[k]) @ F[k], np.eye(ns[k]) / ns[k], 1e-9) for k in range(len(F)))


def direct_leak(kind, s, ch, K, P):
    """leaked interference power of the pair the solver holds, from its definition:
    min-leakage: sum_{k != l} P_l ||W_k^H H_kl F_l||_F^2 ; alternating minimisation: the part of every
    interfering signal outside the interference subspace span(C_k)"""
    tot = 0.0
    for k in range(K):
        for l in range(K):
            if l == k:
                continue
            X = Hkl(ch, k, l) @ s._F[l] * math.sqrt(P[l])
            if kind == 'altmin':
                C = s._C[k]
                tot += fro(X - C @ (Hm(C) @ X)) ** 2
            else:
                tot += fro(Hm(s._W[k]) @ X) ** 2
    return tot


def pair_feasible(kind, s, K, ns, Nr):
    """both halves of the pair are points of the set the eigenvector updates minimise over"""
    if not feasible(s._F, ns):
        return False
    if kind == 'altmin':
        return all(mat_close(Hm(s._C[k]) @ s._C[k], np.eye(Nr[k] - ns[k]), 1e-9) for k in range(K))
    return s._W is not None and feasible(s._W, ns)


def o_monotone(case):
    """step the solver manually (equal powers, no noise): the leaked interference power of the pair the solver
    holds, computed from its definition, never increases over an iteration that starts from a feasible pair;
    after an iteration it equals the smallest leakage any filters can reach for the new precoders (SVD)"""
    K, Nr, Nt = case['K'], case['Nr'], case['Nt']
    ns = case['Ns']
    kind = case['solver']
    ch = case_channel(case)
    s = make_solver(kind, ch)
    s.initialize_with = case['init']
    seed_solver(s, case['seed'])
    P = [float(case['P'])] * K
    cls_sfx = ':Ns>=2' if max(ns) >= 2 else ':Ns=1'
    best = leak_alt if kind == 'altmin' else leak_min
    # the scale every comparison is relative to: the total interference power that reaches the receivers
    ref = sum(P[l] * fro(Hkl(ch, k, l)) ** 2 for k in range(K) for l in range(K) if l != k)
    try:
        s._Ns = np.array(ns, dtype=int)
        s._solve_init(np.array(ns, dtype=int), float(case['P']))
        costs = [direct_leak(kind, s, ch, K, P)]
        feas = [pair_feasible(kind, s, K, ns, Nr)]
        opt = [best(ch, K, s._F, P, ns)]
        own = [float(np.real(s.get_cost()))]
        for _ in range(case['iters']):
            s._step()
            costs.append(direct_leak(kind, s, ch, K, P))
            feas.append(pair_feasible(kind, s, K, ns, Nr))
            opt.append(best(ch, K, s._F, P, ns))
            own.append(float(np.real(s.get_cost())))
    except Exception as e:
        return 'step-raises:%s%s' % (kind, cls_sfx), '%s: %s' % (type(e).__name__, str(e)[:100])
    for i in range(1, len(costs)):
        if not feas[i - 1]:
            continue       # a random / foreign start is not a competitor of the eigenvector updates (see theorem)
        if costs[i] > costs[i - 1] * (1 + 1e-9) + 1e-12 * ref:
            return ('leakage-increases:%s%s' % (kind, cls_sfx),
                    'iteration %d: %.12g -> %.12g' % (i, costs[i - 1], costs[i]))
    for i in range(len(costs)):
        if abs(own[i] - costs[i]) > 1e-8 * costs[i] + 1e-12 * ref:
            return ('get_cost-is-not-the-leakage:%s%s' % (kind, cls_sfx),
                    'iteration %d: get_cost=%.12g leakage=%.12g' % (i, own[i], costs[i]))
    for i in range(1, len(costs)):
        if feas[i] and abs(opt[i] - costs[i]) > 1e-8 * costs[i] + 1e-12 * ref:
            return ('filters-not-leakage-optimal:%s%s' % (kind, cls_sfx),
                    'iteration %d: leakage=%.12g, reachable %.12g' % (i, costs[i], opt[i]))
    return None


def o_solve(case):
    """solve completes; unit norm, power, identity, shapes; closed form nulls all cross links"""
    K, Nr, Nt = case['K'], case['Nr'], case['Nt']
    ns = case['Ns']
    kind = case['solver']
    ch = case_channel(case)
    s = make_solver(kind, ch, best=case.get('best', False), ctor=case.get('ctor'))
    if kind != 'closed':
        s.max_iterations = vary_count(case['iters'], case.get('iters_ty'))
        s.initialize_with = case['init']
    seed_solver(s, case['seed'])
    tags = sorted(t for t in (ns_tag(case.get('ns_arg')), parg_tag(case['P']),
                              ('R8:ctor:' + case['ctor']) if case.get('ctor') in ('pos', 'allkw', 'default') else None,
                              ('R9:ctor:' + case['ctor']) if case.get('ctor') in ('npbool', 'int') else None,
                              ('R9:iters:' + case['iters_ty']) if case.get('iters_ty') else None,
                              ('R8:form:' + case['form']) if case.get('form') else None,
                              'R14:iters>=257' if case.get('iters', 0) >= 257 else None) if t)
    cls_sfx = ('Ns>=2' if max(ns) >= 2 else 'Ns=1') + (('[' + ','.join(tags) + ']') if tags else '')
    if kind == 'closed' or case.get('init') == 'closed_form':
        # the closed form (directly or as the initialisation): below N/2 streams the interference-free subspace is
        # larger than the filter
        cls_sfx = ('closed-form:Ns<N/2:' if 2 * ns[0] < Nr[0] else 'closed-form:Ns=N/2:') + cls_sfx
    if case.get('ns_arg') is not None:
        nsarg = ns_py(case['ns_arg'])
    else:
        nsarg = ns[0] if (case.get('ns_int') and len(set(ns)) == 1) else np.array(ns, dtype=int)
    parg = parg_py(case['P'])
    snaps = [(lab, obj, freeze(obj)) for lab, obj in (('Ns', nsarg), ('P', parg)) if isinstance(obj, (np.ndarray, list, tuple))]
    chan0 = np.array(ch.big_H, copy=True)
    try:
        call_ns_p(s.solve, nsarg, parg, case.get('form'))
    except Exception as e:
        return 'solve-raises:%s:%s' % (kind, cls_sfx), '%s: %s' % (type(e).__name__, str(e)[:120])
    if kind == 'closed' and case.get('ctor') in ('npbool', 'int', 'pos', 'allkw', 'default'):
        # class R8 / R9: however the flag was given, the solution is that of the plainly constructed solver
        ref = make_solver(kind, case_channel(case), best=bool(case.get('best', False)))
        seed_solver(ref, case['seed'])
        ref.solve(np.array(ns, dtype=int), parg_py(case['P']))
        if not all(mat_close(a, b, 1e-9) for a, b in zip(s.F, ref.F)):
            return ('constructor-form-changes-solution:closed:%s' % case['ctor'],
                    'use_best_init=%r given as %s gives other precoders than the plain bool' % (case.get('best'), case['ctor']))
    for lab, obj, snap in snaps:
        if not same_frozen(freeze(obj), snap):
            return 'argument-modified:solve:%s' % lab, 'solve changed its argument %s' % lab
    if not np.array_equal(np.asarray(ch.big_H), chan0):
        return 'shared-channel:channel-modified', 'solve changed the channel object'
    after = [int(x) for x in s.Ns]
    if after != ns and kind != 'closed':
        # _solve_finalize reduced streams (rank-deficient precoder): allowed, relations must hold for the new counts
        pass
    pv = parg_vec(case['P'], K)
    if [float(x) for x in np.asarray(s.P).reshape(-1)] != pv:
        return 'power-not-stored:%s' % kind, 'P=%r, expected %r' % (list(s.P), pv)
    try:
        r = check_relations(copy.deepcopy(s), ch, K, kind != 'mmse', kind, strict_shapes=True)
    except Exception as e:
        r = ('getter-raises', '%s: %s' % (type(e).__name__, str(e)[:100]))
    if r is not None:
        return '%s:%s:%s' % (r[0], kind, cls_sfx), r[1]
    # class R9: the index-taking queries give the same result for every integer type of the index
    kq = case['seed'] % K
    for ty in COUNT_TYPES:
        kk = vary_count(kq, ty)
        try:
            q = copy.deepcopy(s)
            if not mat_close(q.calc_Q(kk), copy.deepcopy(s).calc_Q(kq), 1e-12):
                return 'index-type-changes-result:calc_Q[%s]' % ty, 'calc_Q(%r) != calc_Q(%d)' % (kk, kq)
            if kind in ('minleak', 'maxsinr', 'closed') and s._W is not None and \
                    all(abs(fro(w) - 1.0) < 1e-9 for w in s._W):
                if not mat_close(q.calc_Q_rev(kk), copy.deepcopy(s).calc_Q_rev(kq), 1e-12):
                    return 'index-type-changes-result:calc_Q_rev[%s]' % ty, 'calc_Q_rev(%r) != calc_Q_rev(%d)' % (kk, kq)
            a = float(np.real(q.calc_remaining_interference_percentage(kk)))
            b = float(np.real(copy.deepcopy(s).calc_remaining_interference_percentage(kq)))
            if not ((math.isnan(a) and math.isnan(b)) or abs(a - b) <= 1e-9):
                return 'index-type-changes-result:remaining_interference[%s]' % ty, '%r vs %r' % (a, b)
        except Exception as e:
            return 'query-raises:%s[%s]' % (kind, ty), 'index %r: %s: %s' % (kk, type(e).__name__, str(e)[:100])
    W = s.W
    for k in range(K):
        if W[k].shape != (Nr[k], after[k]) or s.F[k].shape != (Nt[k], after[k]) \
                or s.W_H[k].shape != (after[k], Nr[k]) or s.full_W_H[k].shape != (after[k], Nr[k]):
            return 'filter-shape:%s:%s' % (kind, cls_sfx), 'user %d: W %s W_H %s full_W_H %s F %s Ns %d' % (
                k, W[k].shape, s.W_H[k].shape, s.full_W_H[k].shape, s.F[k].shape, after[k])
    if kind == 'closed':
        kap = max(float(np.linalg.cond(Hkl(ch, k, l))) for k in range(K) for l in range(K) if k != l) ** 2
        for k in range(K):
            for l in range(K):
                if k != l:
                    x = Hm(W[k]) @ Hkl(ch, k, l) @ s.F[l]
                    scale = np.linalg.norm(Hkl(ch, k, l), 2) * fro(W[k])
                    if float(np.abs(x).max()) > 1e-8 * scale * max(1.0, kap / 1e4):
                        return 'not-aligned:closed', 'W_%d^H H_%d%d F_%d = %.3e' % (k, k, l, l, float(np.abs(x).max()))
                    y = s.full_W_H[k] @ Hkl(ch, k, l) @ s.full_F[l]
                    pmax = math.sqrt(max(pv))
                    if float(np.abs(y).max()) > 1e-7 * float(np.abs(s.full_W_H[k]).max()) * scale * pmax * max(1.0, kap / 1e4):
                        return 'not-aligned:closed', 'full_W_H_%d H_%d%d full_F_%d = %.3e' % (k, k, l, l, float(np.abs(y).max()))
    return None


# ---- classes R15 / R16: deterministic scenario sets -----------------------------
R15_POWERS = [
    # tiny magnitudes: all "equal" to 0 and to each other for an absolute tolerance of 1e-8
    [('s', 4e-12), ('s', 4e-13), ('v3', [4e-13, 4e-14, 4e-15]), ('s', 1e-9), ('v3', [2e-15, 3e-15, 1e-15]), ('s', 1e-15)],
    # large values a relative 1e-6 apart
    [('s', 2.4e9), ('s', 2.4e9 + 2e4), ('v3', [2.4e9, 2.4e9 + 2e4, 2.4e9 - 2e4]), ('s', 2.4e9 * (1 + 1e-6))],
    # adjacent doubles, differences beyond the 12th decimal
    [('s', 0.3), ('s', 0.30000000000000004), ('s', 0.1 + 0.2 + 1e-13), ('v3', [0.3, 0.30000000000000004, 0.29999999999999993]),
     ('s', 1.0), ('s', 1.0000000000001), ('s', 1.0 + 2.0 ** -52)],
]


def r15_power(p, K):
    if p[0] == 'v3':
        return ('v', [p[1][k % 3] for k in range(K)])
    return p


def r15_histories(rng, quick):
    """every mutator that takes a power is called with values that are close to the value in force but different,
    every matrix setter with matrices close to the stored ones; every derived quantity is read in between"""
    out = []
    reads = [['rP'], ['rFF'], ['rFWH'], ['rFW']]
    kinds = ['base', 'minleak', 'closed'] if quick else ['base', 'minleak', 'closed', 'altmin', 'maxsinr', 'mmse']
    for j, seq in enumerate(R15_POWERS):
        for kind in kinds:
            K = 3
            n = 4 if kind == 'closed' else 3
            ns = 2 if kind == 'closed' else 1
            case = {'K': K, 'Nr': [n] * K, 'Nt': [n] * K, 'chan_seed': rng.below(2 ** 31), 'solver': kind, 'iters': 2,
                    'best': False, 'noise': 0.05 if kind in ('maxsinr', 'mmse') else None, 'chan_scale': 1.0, 'ops': []}
            ops = case['ops']
            sd = rng.below(2 ** 31)
            ops += [['rand', ns, r15_power(seq[0], K), sd], ['setfilt', {'which': 'W', 'seed': sd % 1000, 'ns': [ns] * K}]] + reads
            for i, p in enumerate(seq[1:]):
                how = (i + j) % 4
                pp = r15_power(p, K)
                if how == 0 or kind == 'base' and how == 3:
                    ops.append(['setP', pp])
                elif how == 1:
                    ops.append(['rand', ns, pp, sd])
                elif how == 2:
                    ops.append(['setprec', {'ns': [ns] * K, 'F': sd % 1000, 'fullF': None, 'P': parg_vec(pp, K),
                                            'amp_P': parg_vec(pp, K)}])
                else:
                    ops.append(['solve', ns, pp, sd, None if kind == 'closed' else 'random'])
                ops += reads
            ops += [['setP', ('s', 0.0)], ['rP'], ['rFF']]          # still rejected, and the tiny power stays in force
            out.append(case)
    # close matrices: precoders, scaled precoders and filters, each followed by a variant that is close to it
    for j, near in enumerate(NEAR_KINDS):
        K = 2 + j % 2
        n = 3
        sd = rng.below(2 ** 31) % 100000
        base_p = {'ns': [1] * K, 'F': sd, 'fullF': None, 'P': None, 'amp_P': [4.0] * K}
        base_w = {'which': 'W' if j % 2 else 'WH', 'seed': sd + 1, 'ns': [1] * K}
        mreads = [['rF'], ['rFF'], ['rW'], ['rWH'], ['rFWH'], ['rFW']]
        ops = [['setP', ('s', 4.0)], ['setprec', dict(base_p)], ['setfilt', dict(base_w)]] + mreads + [
            ['setprec', dict(base_p, near=near)]] + mreads + [['setfilt', dict(base_w, near=near)]] + mreads + [
            ['setprec', dict(base_p, F=None, fullF=sd)], ['rF'], ['rFF'], ['setprec', dict(base_p, F=None, fullF=sd, near=near)]] + mreads + [
            # filters of tiny magnitude: 1e-12 and 1e-13 times the same matrices are different filters
            ['setfilt', dict(base_w, scale=1e-12)]] + mreads + [['setfilt', dict(base_w, scale=1e-13)]] + mreads + [
            ['setfilt', dict(base_w, scale=1e-13, near=near)]] + mreads
        out.append({'K': K, 'Nr': [n] * K, 'Nt': [n] * K, 'chan_seed': rng.below(2 ** 31), 'solver': 'base', 'iters': 1,
                    'best': False, 'noise': None, 'chan_scale': 1.0, 'ops': ops})
    return out


def r16_histories(rng, quick):
    """every entry point that takes arrays is called 2-4 times with the same buffer objects refilled in place (and
    overwritten right after each call), with one object in two roles, and with the object's own arrays"""
    out = []
    reads = [['rF'], ['rFF'], ['rWH'], ['rFWH'], ['rFW'], ['rNs'], ['rP']]
    for kind in ['base', 'closed', 'altmin', 'minleak', 'maxsinr', 'mmse']:
        for rep in range(1 if quick else 3):
            K = 3
            n = 4
            ns = 2 if kind == 'closed' or rep == 1 else 1
            sd = rng.below(2 ** 31) % 100000
            pv = lambda: ('v', [rng.choice(SQUARES + MANT) for _ in range(K)])
            nsv = lambda: {'v': [ns] * K, 'ty': 'arr'}
            ops = []
            for i in range(3):
                ops += [['rand', nsv(), pv(), sd + i]] + reads[:2]
            for i in range(3):
                ops += [['setP', pv()]] + reads[1:2]
            for i in range(4):       # the same container object (and the same matrices in it) twice in a row
                ops += [['setprec', {'ns': [ns] * K, 'F': sd + 10 + i, 'fullF': None, 'P': pv()[1] if i % 2 else None,
                                     'amp_P': [1.0] * K, 'cty': ['objarr', 'objarr', 'list', 'list'][i]}], ['rF'], ['rFF']]
            for i in range(6):
                ops += [['setfilt', {'which': ['W', 'W', 'WH', 'WH', 'W', 'W'][i], 'seed': sd + 20 + i, 'ns': [ns] * K,
                                     'cty': ['objarr', 'objarr', 'objarr', 'objarr', 'list', 'list'][i]}]] + reads[2:5]
            ops += [['setprec', {'ns': [ns] * K, 'F': sd + 30, 'fullF': None, 'P': [1.0] * K, 'amp_P': [1.0] * K,
                                 'alias': 'F=fullF'}]] + reads
            ops += [['setprec', {'ns': [ns] * K, 'F': sd + 31, 'fullF': None, 'P': None, 'amp_P': [1.0] * K,
                                 'alias': 'users', 'cty': 'list'}]] + reads[:2]
            ops += [['setfilt', {'which': 'W', 'seed': sd + 32, 'ns': [ns] * K, 'alias': 'users'}]] + reads
            for w in ('F', 'W', 'P', 'fullF', 'WH', 'FP'):
                ops += [['selfset', w]] + reads
            ops += [['rand', [2] * K, ('v', [2.0] * K), sd + 40, 'same'], ['rNs'], ['rP'], ['rFF']]
            if kind != 'base':
                init = None if kind == 'closed' else ['random', 'svd', 'random'][rep % 3]
                for i in range(3):
                    ops += [['solve', nsv(), pv(), sd + 50 + i, init]] + reads
                ops += [['solve', [2] * K, ('v', [2.0] * K), sd + 60, init, 'same']] + reads
            out.append({'K': K, 'Nr': [n] * K, 'Nt': [n] * K, 'chan_seed': rng.below(2 ** 31), 'solver': kind,
                        'iters': 2, 'best': rep == 2, 'noise': 0.05 if kind in ('maxsinr', 'mmse') else None,
                        'chan_scale': 1.0, 'reuse': True, 'ops': ops})
    return out


def gen_refill_case(rng, kind=None, close=None):
    kind = kind or rng.choice(SOLVERS)
    K = 3
    if kind == 'closed':
        n, c = gen_cf_dims(rng)
        n, c = min(n, 6), min(c, 3)
    else:
        n = rng.choice([3, 4])
        c = rng.randint(1, n - 1) if kind != 'minleak' or rng.chance(0.5) else 1
    nfill = rng.randint(2, 4)
    return {'solver': kind, 'K': K, 'Nr': [n] * K, 'Nt': [n] * K, 'Ns': [c] * K, 'P': None,
            'Ps': [[gen_power_value(rng) for _ in range(K)] for _ in range(nfill)],
            'fills': [rng.below(2 ** 31) for _ in range(nfill)],
            'close_fill': rng.chance(0.5) if close is None else close,
            'init': None if kind == 'closed' else rng.choice(['random', 'svd'] + (['closed_form'] if 2 * c <= n else [])),
            'iters': rng.choice([1, 2, 4]), 'seed': rng.below(2 ** 31), 'best': rng.chance(0.5),
            'noise': rng.choice([1e-3, 0.05]) if kind in ('mmse', 'maxsinr') else None, 'chan_seed': 0}


def solution_of(s):
    return [('F', s.F), ('full_F', s.full_F), ('W_H', s.W_H), ('full_W_H', s.full_W_H)]


def o_refill(case):
    """class R16 for the channel: ONE preallocated matrix is refilled in place and handed to
    init_from_channel_matrix of the SAME channel object before every solve of the SAME solver (the stream-count and
    power buffers are refilled too, everything is overwritten right after the call).  The k-th solution must be the one a
    freshly built solver computes on a freshly built channel from a copy of the contents, it must satisfy the relations
    of the property for the CURRENT channel, and the arrays returned earlier must stay what they were.  With
    `close_fill` (class R15) every second refill differs from the previous contents by a relative 1e-6 only."""
    mu, _, _, _ = _mods()
    K, Nr, Nt, ns, kind = case['K'], case['Nr'], case['Nt'], case['Ns'], case['solver']
    buf = np.zeros((sum(Nr), sum(Nt)), dtype=complex)
    nrb, ntb = np.array(Nr, dtype=int), np.array(Nt, dtype=int)
    nsb, pb = np.array(ns, dtype=int), np.zeros(K)
    ch = mu.MultiUserChannelMatrix()
    s = None
    kept = []
    M = None
    for j, (fs, P) in enumerate(zip(case['fills'], case['Ps'])):
        G = channel_matrix(K, Nr, Nt, fs)
        close = bool(case.get('close_fill')) and j % 2 == 1
        M = (M + 1e-6 * G) if close else G
        sfx = '%s%s' % (kind, ':close-contents' if close else '')
        buf[...] = M
        nsb[...] = ns
        pb[...] = P
        ch.init_from_channel_matrix(buf, nrb, ntb, K)
        if case.get('noise') is not None:
            ch.noise_var = case['noise']
        if s is None:
            s = make_solver(kind, ch, best=case.get('best', False))
        ch2 = mu.MultiUserChannelMatrix()
        ch2.init_from_channel_matrix(np.array(M), np.array(Nr, dtype=int), np.array(Nt, dtype=int), K)
        if case.get('noise') is not None:
            ch2.noise_var = case['noise']
        s2 = make_solver(kind, ch2, best=case.get('best', False))
        for x in (s, s2):
            if kind != 'closed':
                x.max_iterations = case['iters']
                x.initialize_with = case['init']
            seed_solver(x, case['seed'] + j)
        try:
            s.solve(nsb, pb)
        except Exception as e:
            return 'R16:channel-refill:solve-raises:' + sfx, 'fill %d: %s: %s' % (j, type(e).__name__, str(e)[:100])
        buf[...] = buf * -3.0 + 7.0          # the caller goes on using its buffers
        nsb[...] = nsb + 1
        pb[...] = pb * 0.5 + 11.0
        s2.solve(np.array(ns, dtype=int), np.array(P, dtype=float))
        if [float(x) for x in np.asarray(s.P).reshape(-1)] != [float(x) for x in P]:
            return 'R16:channel-refill:power-not-stored:' + sfx, 'fill %d: P given %r, stored %r' % (j, P, list(s.P))
        if [int(x) for x in s.Ns] != [int(x) for x in s2.Ns]:
            return 'R16:channel-refill:differs-from-fresh:Ns:' + sfx, 'fill %d: Ns %r vs %r' % (j, list(s.Ns), list(s2.Ns))
        c1, c2 = copy.deepcopy(s), copy.deepcopy(s2)
        for (lab, a), (_, b) in zip(solution_of(c1), solution_of(c2)):
            if not arr_close([np.asarray(m) for m in a], [np.asarray(m) for m in b], 1e-9):
                return ('R16:channel-refill:differs-from-fresh:%s:%s' % (lab, sfx),
                        'fill %d: %s of the long-lived solver on the refilled channel differs from a fresh solver on a copy '
                        'of the contents' % (j, lab))
        # first principles, for the channel as it is NOW
        try:
            r = check_relations(copy.deepcopy(s), ch2, K, kind != 'mmse', kind, strict_shapes=True)
        except Exception as e:
            r = ('getter-raises', '%s: %s' % (type(e).__name__, str(e)[:100]))
        if r is not None:
            return 'R16:channel-refill:%s:%s' % (r[0], sfx), 'fill %d: %s' % (j, r[1])
        if kind == 'closed':
            kap = max(float(np.linalg.cond(Hkl(ch2, k, l))) for k in range(K) for l in range(K) if k != l) ** 2
            W = s.W
            for k in range(K):
                for l in range(K):
                    if k != l:
                        x = Hm(W[k]) @ Hkl(ch2, k, l) @ s.F[l]
                        scale = np.linalg.norm(Hkl(ch2, k, l), 2) * fro(W[k])
                        if float(np.abs(x).max()) > 1e-8 * scale * max(1.0, kap / 1e4):
                            return ('R16:channel-refill:not-aligned:' + sfx,
                                    'fill %d: W_%d^H H_%d%d F_%d = %.3e for the current channel' % (j, k, k, l, l, float(np.abs(x).max())))
        for (jj, lab, obj, snap) in kept:
            if not same_frozen(freeze(obj), snap):
                return ('R16:channel-refill:earlier-result-changed:%s:%s' % (lab, kind),
                        '%s returned after fill %d changed when the channel was refilled / solved again (fill %d)' % (lab, jj, j))
        kept += [(j, lab, obj, freeze(obj)) for lab, obj in solution_of(s)]
    return None


ORACLES = {'history': o_history, 'solve': o_solve, 'monotone': o_monotone, 'refill': o_refill}

R1_MAT = ('c64', 'real', 'f32', 'int', 'int16')


def power_values(p):
    if p is None:
        return []
    return [p[1]] if p[0] == 's' else list(p[1])


def case_classes(case):
    """the robustness classes R1..R7 a case exercises (computed from the input only)"""
    out = set()
    tags = []
    pws = []
    if case.get('chan_ty') is not None:
        out.add('R1' if case['chan_ty'] in R1_MAT else 'R2')
    if case.get('chan_scale', 1.0) != 1.0:
        out.add('R6')
    if case['K'] == 1 or case.get('iters') == 0 or case.get('noise') == 0.0:
        out.add('R5')
    if case.get('ctor') is not None:
        out.add('R9' if case['ctor'] in ('npbool', 'int') else 'R8')
    if case.get('iters_ty') is not None:
        out.add('R9')
    if case['K'] >= 257 or case.get('iters', 0) >= 257:
        out.add('R14')
    if 'ops' not in case:       # solve / monotone case
        if case.get('form'):
            out.add('R8')
        tags += [ns_tag(case.get('ns_arg')), parg_tag(case['P']) if isinstance(case.get('P'), (tuple, list)) else None]
        pws += power_values(case['P']) if isinstance(case.get('P'), (tuple, list)) else [case.get('P') or 1.0]
    else:
        names = [op[0] for op in case['ops']]
        if any(names.count(m) >= 2 for m in MUTATORS):
            out.add('R7')
        for op in case['ops']:
            if op[0] == 'setP':
                tags.append(parg_tag(op[1]))
                pws += power_values(op[1])
                if not parg_valid(op[1], case['K']):
                    out.add('R4')
                    if op[1][0] == 'm':
                        out.add('R2')
                    elif any(x == 0 for x in power_values(op[1])):
                        out.add('R5')
            elif op[0] == 'query':
                out.add('R11')
                if len(op) > 3 and op[3] not in (None, 'int'):
                    out.add('R9')
                if len(op) > 4 and op[4]:
                    out.add('R8')
                if op[1] in ('calcQ', 'rip', 'sinrdB', 'cap'):
                    out.add('R8')
            elif op[0] == 'fork':
                out.add('R13')
            elif op[0] in ('rand', 'solve'):
                if len(op) > (4 if op[0] == 'rand' else 5) and op[-1]:
                    out.add('R8')
                tags += [ns_tag(op[1]), parg_tag(op[2])]
                pws += power_values(op[2])
                if not parg_valid(op[2], case['K']):
                    out.add('R4')
            elif op[0] == 'setprec':
                d = op[1]
                if d.get('F') is None and d.get('fullF') is None:
                    out.add('R4')
                if d.get('form'):
                    out.add('R8')
                if d.get('mty') == 'hetero':
                    out.add('R10')
                elif d.get('mty') not in (None, 'c'):
                    out.add('R1' if d['mty'] in R1_MAT else 'R2')
                if d.get('cty') in ('list', 'tuple'):
                    out.add('R1')
                if d.get('P') is not None:
                    tags.append(parg_tag(('v', d['P'], d.get('pty'))))
                    pws += list(d['P'])
            elif op[0] == 'setfilt':
                d = op[1]
                if d['which'] in ('both', 'none'):
                    out.add('R4')
                else:
                    out.add('R8')       # the twin uses the equivalent other form
                if d.get('form'):
                    out.add('R8')
                if d.get('mty') == 'hetero':
                    out.add('R10')
                elif d.get('mty') not in (None, 'c'):
                    out.add('R1' if d['mty'] in R1_MAT else 'R2')
                if d.get('cty') in ('list', 'tuple'):
                    out.add('R1')
            elif op[0] == 'setinit' and not init_accepted(case['solver'], op[1]):
                out.add('R4')
    for t in tags:
        if t:
            out.add(t.split(':')[0])
    if any(x > 0 and not (1e-3 <= x <= 1e3) for x in pws):
        out.add('R6')
    # R15: two different accepted powers that numpy's default closeness test would identify, or close matrices
    pos = sorted(set(float(x) for x in pws if x > 0))
    if any(bool(np.isclose(a, b)) for a, b in zip(pos, pos[1:])):
        out.add('R15')
    for op in case.get('ops', []):
        if op[0] in ('setprec', 'setfilt') and (op[1].get('near') or op[1].get('scale')):
            out.add('R15')
        if (op[0] in ('setprec', 'setfilt') and op[1].get('alias')) or op[0] == 'selfset' or \
                (op[0] in ('rand', 'solve') and op[-1] == 'same'):
            out.add('R16')
    if case.get('reuse') or 'fills' in case:
        out.add('R16')
    if case.get('close_fill'):
        out.add('R15')
    return out


def corpus_cases():
    """minimised past failures (corpus/c10/*.json): always run first, whatever the seed"""
    import json
    import os
    d = os.path.join(core.VERIF, 'corpus', 'c10')
    out = []
    if os.path.isdir(d):
        for fn in sorted(os.listdir(d)):
            if fn.endswith('.json'):
                with open(os.path.join(d, fn)) as f:
                    c = json.load(f)
                out.append((c['call'], c['case']))
    return out


def run_oracle(ctx, call, case, key=None):
    ctx.count((call, key if key is not None else repr(case)))
    for c in case_classes(case):
        ctx.branch('oracle:' + c)
    if call == 'solve':
        ctx.branch('oracle:R9')
    if call in ('solve', 'monotone') and (case['solver'] == 'closed' or case.get('init') == 'closed_form'):
        ctx.branch('oracle:closed-form:Ns<N/2' if 2 * case['Ns'][0] < case['Nr'][0] else 'oracle:closed-form:Ns=N/2')
    if call == 'history':
        ctx.branch('oracle:R3')
        ctx.branch('oracle:R7')
        if case.get('reuse'):
            ctx.branch('oracle:R16:reused-buffers')
        if any((op[0] in ('setprec', 'setfilt') and op[1].get('alias')) or (op[0] in ('rand', 'solve') and op[-1] == 'same')
               for op in case['ops']):
            ctx.branch('oracle:R16:one-object-two-roles')
    if call == 'refill':
        ctx.branch('oracle:R16:channel-refill')
        if case.get('close_fill'):
            ctx.branch('oracle:R15:close-refill')
    try:
        r = ORACLES[call](case)
    except core.Infra:
        raise
    except Exception as e:
        r = ('exception:' + type(e).__name__, repr(e)[:300])
    if r is not None:
        ctx.fail(call, r[0], case, r[1])
        ctx.branch('oracle-fail:' + call)
    else:
        ctx.branch('oracle-ok:' + call)
    return r


def replay(ctx, rep):
    return ORACLES[rep['call']](rep['case']) is not None


# ---- oracle case generators -------------------------------------------------
def gen_solve_case(rng, kind=None):
    kind = kind or rng.choice(SOLVERS)
    if kind == 'closed':
        n, c = gen_cf_dims(rng)
        K, Nr, Nt, ns = 3, [n] * 3, [n] * 3, [c] * 3
        init = None
    elif rng.chance(0.25):
        # stratum: the 3-user square system on which the closed form exists (every Ns in 1..N/2), every init mode
        n, c = gen_cf_dims(rng)
        K, Nr, Nt, ns = 3, [n] * 3, [n] * 3, [c] * 3
        init = rng.choice(['closed_form', 'closed_form', 'svd', 'random'] + (['alt_min'] if kind != 'altmin' else []))
    else:
        K = rng.choice([2, 3, 3, 4])
        Nr, Nt = gen_dims(rng, K)
        lim = [min(a, b) - 1 for a, b in zip(Nr, Nt)]
        if rng.chance(0.5):
            ns = [rng.randint(1, min(lim))] * K
        else:
            ns = [rng.randint(1, x) for x in lim]
        opts = ['random', 'random', 'svd']
        if cf_ok(K, Nr, Nt, ns):
            opts += ['closed_form', 'closed_form']
        if kind != 'altmin':
            opts.append('alt_min')
        init = rng.choice(opts)
    P = None
    while P is None or not parg_valid(P, K):
        P = gen_parg(rng, K, bad=0.0)
        if rng.chance(0.1):
            P = None
            break
    case = {'solver': kind, 'K': K, 'Nr': Nr, 'Nt': Nt, 'Ns': ns, 'P': P, 'init': init,
            'iters': rng.choice([0, 1, 2, 5, 12]), 'seed': rng.below(2 ** 31), 'chan_seed': rng.below(2 ** 31),
            'best': rng.chance(0.5), 'ns_int': rng.chance(0.5),
            'chan_scale': rng.choice([1.0, 1.0, 1.0, 1e-6, 1e-3, 1e3, 1e6]),
            'noise': rng.choice([1e-3, 0.05, 1.0]) if kind in ('mmse', 'maxsinr') else rng.choice([None, None, 0.0])}
    if rng.chance(0.35):
        v = ns[0] if len(set(ns)) == 1 and rng.chance(0.5) else ns
        case['ns_arg'] = vary_ns(rng, v)
    if kind == 'closed' and rng.chance(0.5):
        case['ctor'] = rng.choice(['pos', 'allkw', 'default', 'npbool', 'int'])
        if case['ctor'] == 'default':
            case['best'] = True
    elif kind != 'closed' and rng.chance(0.15):
        case['ctor'] = 'allkw'
    if kind != 'closed' and rng.chance(0.3):
        case['iters_ty'] = rng.choice(COUNT_TYPES)
    if rng.chance(0.4):
        case['form'] = rng.choice(['kw', 'mixed', 'kwrev', 'default' if case['P'] is None else 'kw'])
    if kind in ('minleak', 'altmin') and rng.chance(0.03):
        case['iters'] = rng.choice([257, 300])        # class R14: a count above 256
    if rng.chance(0.2):
        case['chan_ty'] = rng.choice(['fortran', 'transposed', 'strided', 'reversed'])
    return case


def gen_monotone_case(rng, kind=None):
    kind = kind or rng.choice(['altmin', 'minleak'])
    K = rng.choice([2, 3, 3, 4])
    Nr, Nt = gen_dims(rng, K)
    lim = [min(a, b) - 1 for a, b in zip(Nr, Nt)]
    if rng.chance(0.5):
        ns = [rng.randint(1, min(lim))] * K
    else:
        ns = [rng.randint(1, x) for x in lim]
    opts = ['random', 'random', 'svd']
    if kind != 'altmin':
        opts.append('alt_min')
    if rng.chance(0.15):
        n, c = gen_cf_dims(rng)
        K, Nr, Nt, ns = 3, [n] * 3, [n] * 3, [c] * 3
        opts = ['closed_form']
    return {'solver': kind, 'K': K, 'Nr': Nr, 'Nt': Nt, 'Ns': ns,
            'P': rng.choice([0.5, 1.0, 4.0, 30.0]) * (1.0 if rng.chance(0.6) else 10.0 ** rng.randint(-15, 6)),
            'init': rng.choice(opts), 'iters': rng.choice([3, 6, 15]), 'seed': rng.below(2 ** 31),
            'chan_seed': rng.below(2 ** 31), 'chan_scale': rng.choice([1.0, 1.0, 1e-6, 1e-3, 1e3, 1e6]),
            'noise': rng.choice([None, None, 0.0])}


# ------------------------------------------------------------------ formula correspondence
class Tap:
    """record the arguments / results of the kernels the solvers call"""

    def __init__(self):
        self.log = []

    def __enter__(self):
        _, alg, base, misc = _mods()
        from scipy import optimize
        self.alg, self.base, self.opt = alg, base, optimize
        self.saved = [(alg, 'leig', alg.leig), (alg, 'peig', alg.peig), (base, 'leig', base.leig),
                      (alg, 'least_right_singular_vectors', alg.least_right_singular_vectors),
                      (np.linalg, 'solve', np.linalg.solve), (np.linalg, 'pinv', np.linalg.pinv),
                      (np.linalg, 'inv', np.linalg.inv), (np.linalg, 'eig', np.linalg.eig),
                      (optimize, 'newton', optimize.newton), (optimize, 'brentq', optimize.brentq)]
        for mod, name, f in self.saved:
            setattr(mod, name, self.wrap(name, f))
        return self

    def wrap(self, name, f):
        def g(*a, **kw):
            r = f(*a, **kw)
            self.log.append((name, [np.array(x, copy=True) if isinstance(x, np.ndarray) else x for x in a], r))
            return r
        return g

    def __exit__(self, *exc):
        for mod, name, f in self.saved:
            setattr(mod, name, f)
        return False

    def calls(self, name):
        return [c for c in self.log if c[0] == name]


def form_line(K, Nr, Nt, ns, H, F, W, C, P, noise, idx):
    allH = [H[k][l] for k in range(K) for l in range(K)]
    return 'form %d %s %s %s %s %s %s %s %s %s %d' % (
        K, ','.join(map(str, Nr)), ','.join(map(str, Nt)), ','.join(map(str, ns)), enc_arr(allH), enc_arr(F),
        enc_arr(W), enc_arr(C), ','.join(core.f2s(p) for p in P), '-' if noise is None else core.f2s(noise), idx)


def guarded(ctx, name, fn, *a):
    """an exception raised by the code under comparison is a broken correspondence, not a harness failure"""
    try:
        fn(*a)
    except core.Infra:
        raise
    except Exception as e:
        ctx.branch('disagree:' + name)
        if sum(1 for b in ctx.broken if b['name'] == name) < 5:
            ctx.tie_broken('correspondence', name, 'the implementation raised %s: %s' % (type(e).__name__, str(e)[:300]))


def correspond_formulas(ctx, n):
    guarded(ctx, 'formula.systems', correspond_formulas_systems, ctx, n)
    guarded(ctx, 'formula.closed', correspond_formulas_closed, ctx, n)
    guarded(ctx, 'formula.store', correspond_formulas_store, ctx, n)


def correspond_formulas_systems(ctx, n):
    """the model formulas (Model/C10.lean at binary64) against what the code computes"""
    _, alg, base, misc = _mods()
    drv = core.Driver(DRIVER)
    rng = ctx.rng
    for it in range(n):
        K = rng.choice([2, 3, 3, 4])
        Nr, Nt = gen_dims(rng, K)
        lim = [min(a, b) - 1 for a, b in zip(Nr, Nt)]
        ns = [rng.randint(1, x) for x in lim]
        sc = rng.choice([1.0, 1.0, 1e-6, 1e-3, 1e3, 1e6])
        noise = rng.choice([None, None, 0.01, 0.3])
        if noise is not None:
            noise = noise * sc * sc
        seed = rng.below(2 ** 31)
        ch = build_channel(K, Nr, Nt, seed, noise, sc)
        ctx.branch('formula:scale' if sc != 1.0 else 'formula:unit-scale')
        H = [[Hkl(ch, k, l) for l in range(K)] for k in range(K)]
        rs = np.random.RandomState(seed + 1)
        F = gen_unit(seed + 2, Nt, ns)
        W = gen_unit(seed + 3, Nr, ns)
        # orthonormal basis of an (Nr-Ns)-dimensional subspace, as peig would return
        C = [np.linalg.qr(cplx(rs, Nr[k], Nr[k]))[0][:, :Nr[k] - ns[k]] for k in range(K)]
        P = [gen_power_value(rng) for _ in range(K)]
        idx = rng.below(K)
        rep = drv.ask([form_line(K, Nr, Nt, ns, H, F, W, C, P, noise, idx)])[0].split('/')
        case = {'K': K, 'Nr': Nr, 'Nt': Nt, 'Ns': ns, 'seed': seed, 'noise': noise, 'idx': idx, 'P': P}
        m_fF = dec_arr(rep[0])
        # --- base class getters
        s = make_solver('minleak', ch)
        s.set_precoders(F=objarr(F), P=np.array(P))
        s.set_receive_filters(W=objarr(W))
        ok = arr_close([np.array(x) for x in s.full_F], m_fF)
        ctx.corr('formula.full_F', case, 'match' if ok else 'differs', 'match', key=('fF', it))
        ok = mat_close(s.calc_Q(idx), dec_dm(rep[1]))
        ctx.corr('formula.calc_Q', case, 'match' if ok else 'differs', 'match', key=('Q', it))
        try:
            qrev = s.calc_Q_rev(idx)
            ok = mat_close(qrev, dec_dm(rep[2]))
        except AssertionError:
            ok = False
        ctx.corr('formula.calc_Q_rev', case, 'match' if ok else 'differs', 'match', key=('Qrev', it))
        ok = rel_close(float(np.real(s.get_cost())), dec_c(rep[3]).real) and \
            abs(dec_c(rep[3]).imag) <= 1e-9 * abs(dec_c(rep[3]).real)
        ctx.corr('formula.minleak.get_cost', case, 'match' if ok else repr(s.get_cost()),
                 'match' if ok else repr(dec_c(rep[3])), key=('mlc', it))
        # --- alternating minimisation: cost, matrix handed to leig, zero forcing rows
        a = make_solver('altmin', ch)
        a.set_precoders(F=objarr(F), P=np.array(P))
        a._C = objarr(C)
        ok = rel_close(float(np.real(a.get_cost())), dec_c(rep[4]).real)
        ctx.corr('formula.altmin.get_cost', case, 'match' if ok else repr(a.get_cost()),
                 'match' if ok else repr(dec_c(rep[4])), key=('amc', it))
        with Tap() as tap:
            a._updateF()
        args = tap.calls('leig')
        ok = len(args) == K and mat_close(args[idx][1][0], dec_dm(rep[5])) and int(args[idx][1][1]) == ns[idx]
        ctx.corr('formula.altmin._updateF.leig-argument', case, 'match' if ok else 'differs', 'match', key=('amF', it))
        a.set_precoders(F=objarr(F), P=np.array(P))
        with Tap() as tap:
            a._updateW()
        invs = tap.calls('inv')
        ok = len(invs) == K
        if ok:
            G = invs[idx][2]
            r2 = drv.ask(['amwh %d %d %s %s %s' % (ns[idx], Nr[idx] - ns[idx], enc_dm(G),
                                                   enc_dm(H[idx][idx] @ F[idx]), enc_dm(C[idx]))])[0].split('/')
            ok = mat_close(a._W_H[idx], dec_dm(r2[0])) and mat_close(invs[idx][1][0], dec_dm(r2[1]))
            if np.linalg.cond(invs[idx][1][0]) < 1e8:
                res = float(np.abs(G @ invs[idx][1][0] - np.eye(Nr[idx])).max())
                if res > 1e-7:
                    ctx.tie_broken('tie', 'contract:inv', 'residual %.3e' % res, case)
        ctx.corr('formula.altmin._updateW', case, 'match' if ok else 'differs', 'match', key=('amW', it))
        # --- MMSE
        mm = make_solver('mmse', ch)
        mm.set_precoders(F=objarr(F), P=np.array(P))
        mm.set_receive_filters(W=objarr(W))
        mm._mu = np.zeros(K)
        with Tap() as tap:
            try:
                mm._calc_Uk(idx)
                singular = False
            except np.linalg.LinAlgError:
                singular = True      # no noise and fewer streams than receive antennas: outside the solver's domain
        sv = tap.calls('solve')
        if singular:
            ctx.branch('mmse:_calc_Uk-singular-without-noise')
        else:
            ok = len(sv) == 1 and mat_close(sv[0][1][0], dec_dm(rep[8])) and mat_close(sv[0][1][1], dec_dm(rep[9]))
            ctx.corr('formula.mmse._calc_Uk.solve-arguments', case, 'match' if ok else 'differs', 'match', key=('mmU', it))
        with Tap() as tap:
            try:
                Vi = mm._calc_Vi(idx)
            except Exception as e:
                Vi = None
                ctx.branch('mmse-calc_Vi-raised:' + type(e).__name__)
        if Vi is not None:
            S = dec_dm(rep[6])
            HU = dec_dm(rep[7])
            condS = np.linalg.cond(S)
            nt = tap.calls('newton')
            bq = tap.calls('brentq')        # the bracketing fallback when newton's result misses the constraint
            mu = float(bq[-1][2]) if bq else (float(nt[-1][2]) if nt else 0.0)
            if bq:
                ctx.branch('mmse:bracketed')
            if condS <= 5e4 and abs(mu) <= 1e20:     # the two `pragma: no cover` branches are out of the model
                r3 = drv.ask(['mmse %s %s %s %s' % (enc_dm(S), enc_dm(HU), core.f2s(P[idx]), core.f2s(mu))])[0].split('/')
                c0 = dec_c(r3[0]).real
                took_newton = bool(nt)
                ok = mat_close(Vi, dec_dm(r3[1]), 1e-7) and (took_newton == (not c0 <= 0) or abs(c0) < 1e-9)
                ctx.corr('formula.mmse._calc_Vi', case, 'match' if ok else 'differs', 'match', key=('mmV', it))
                ctx.branch('mmse:newton' if took_newton else 'mmse:mu=0')
                pw = fro(Vi) ** 2
                if pw > P[idx] * (1 + 1e-6):
                    ctx.tie_broken('tie', 'contract:newton', '||V||^2=%r > P=%r (mu=%r)' % (pw, P[idx], mu), case)
            else:
                ctx.branch('mmse:out-of-model')
        # --- svd initialisation: how many singular vectors are split off / kept
        sv_solver = make_solver('minleak', ch)
        sv_solver._Ns = np.array(ns, dtype=int)
        with Tap() as tap:
            try:
                sv_solver._initialize_F_with_svd_and_find_W(np.array(ns, dtype=int), np.array(P))
                raised = None
            except Exception as e:
                raised = type(e).__name__
        lr = tap.calls('least_right_singular_vectors')
        mrep = drv.ask(['svdkept %d %d %d' % (Nr[k], Nt[k], ns[k]) for k in range(K)])
        impl = [(int(lr[k][1][1]), int(sv_solver._F[k].shape[1])) if (raised is None and len(lr) == K) else raised
                for k in range(K)]
        model = [tuple(int(x) for x in r.split('/')) for r in mrep]
        ctx.corr('formula.svd-init.kept-columns', case, repr(impl), repr(model), key=('svd', it))
        ctx.branch('formula:system')


def correspond_formulas_closed(ctx, n):
    _, alg, base, misc = _mods()
    drv = core.Driver(DRIVER)
    rng = ctx.rng
    # ---- closed form chain
    for it in range(max(3, n // 3)):
        nn, cns = gen_cf_dims(rng)
        if it < 2:          # both required strata are always reached
            nn, cns = ((4, 2), (5, 1))[it]
        seed = rng.below(2 ** 31)
        ch = build_channel(3, [nn] * 3, [nn] * 3, seed)
        c = make_solver('closed', ch)
        c._Ns = np.array([cns] * 3)
        case = {'N': nn, 'Ns': cns, 'seed': seed}
        ctx.branch('formula:closed:Ns<N/2' if 2 * cns < nn else 'formula:closed:Ns=N/2')
        with Tap() as tap:
            E = c._calc_E()
        sv = tap.calls('solve')
        with Tap() as tap:
            c._updateF()
        pv = tap.calls('pinv')
        ev = tap.calls('eig')
        F0 = ev[0][2][1][:, 0:cns]
        g = Hkl
        rep = drv.ask(['cf %s %s %s %s %s %s %s %s' % (
            enc_dm(sv[0][2]), enc_dm(sv[1][2]), enc_dm(sv[2][2]), enc_dm(pv[0][2]), enc_dm(pv[1][2]),
            enc_dm(g(ch, 2, 0)), enc_dm(g(ch, 1, 0)), enc_dm(F0))])[0].split('/')
        ok = mat_close(E, dec_dm(rep[0])) and all(mat_close(c._F[i], dec_dm(rep[3 + i])) for i in range(3))
        ctx.corr('formula.closed._calc_E/_updateF', case, 'match' if ok else 'differs', 'match', key=('cf', it))
        # kernel contracts the alignment theorem assumes
        scale = max(1.0, float(np.abs(E).max()))
        lam = ev[0][2][0][0:cns]
        res = float(np.abs(E @ F0 - F0 * lam).max()) / scale
        if res > 1e-8 * max(1.0, np.linalg.cond(ev[0][2][1])):
            ctx.tie_broken('tie', 'contract:eig', 'E F0 - F0 L residual %.3e' % res, case)
        for (i, (a, b)) in enumerate(((2, 1), (1, 2))):
            r = float(np.abs(g(ch, a, b) @ pv[i][2] - np.eye(nn)).max())
            if r > 1e-8 * np.linalg.cond(g(ch, a, b)):
                ctx.tie_broken('tie', 'contract:pinv', 'H G - I residual %.3e' % r, case)
        with Tap() as tap:
            c._updateW()
        le = tap.calls('leig')
        pairs = ((0, 1), (1, 0), (2, 0))
        ok = len(le) == 3
        for i, (k, l) in enumerate(pairs):
            if not ok:
                break
            rep = drv.ask(['cfw %s %s' % (enc_dm(g(ch, k, l)), enc_dm(c._F[l]))])[0]
            # the matrix handed to leig, the number of eigenvectors asked for (Ns: one filter column per stream)
            # and the shape of the stored filter
            ok = ok and mat_close(le[i][1][0], dec_dm(rep)) and int(le[i][1][1]) == cns \
                and np.shape(c._W[k]) == (nn, cns)
            V = le[i][2][0]
            r = float(np.abs(le[i][1][0] @ V).max()) / max(1.0, float(np.abs(le[i][1][0]).max()))
            if r > 1e-8:
                ctx.tie_broken('tie', 'contract:leig-null', 'A A^H V residual %.3e' % r, case)
        ctx.corr('formula.closed._updateW.leig-argument', case, 'match' if ok else 'differs', 'match', key=('cfw', it))
        ctx.branch('formula:closed')


def correspond_formulas_store(ctx, n):
    _, alg, base, misc = _mods()
    drv = core.Driver(DRIVER)
    rng = ctx.rng
    # ---- what the min-leakage solver stores for a leig result, and the assertion of calc_Q_rev
    for it in range(max(3, n // 3)):
        K = 3
        nn = rng.choice([3, 4, 5])
        nsv = rng.choice([1, 2, 2, 3])
        nsv = min(nsv, nn - 1)
        seed = rng.below(2 ** 31)
        ch = build_channel(K, [nn] * K, [nn] * K, seed)
        m = make_solver('minleak', ch)
        F = gen_unit(seed + 5, [nn] * K, [nsv] * K)
        m.set_precoders(F=objarr(F), P=np.array([1.0] * K))
        case = {'N': nn, 'Ns': nsv, 'seed': seed}
        with Tap() as tap:
            U = m._calc_Uk_all_k()
        le = tap.calls('leig')
        rep = drv.ask(['store 1 %s' % enc_dm(le[0][2][0])])[0].split('/')
        ok = mat_close(U[0], dec_dm(rep[0]))
        m._W = U
        try:
            m.calc_Q_rev(0)
            passed = 'assert-ok'
        except AssertionError:
            passed = 'AssertionError'
        ok = ok and passed == rep[2]
        ctx.corr('formula.minleak.store', case, 'match' if ok else 'stored-norm=%r %s' % (fro(U[0]), passed),
                 'match' if ok else 'stored-norm=%r %s' % (core.s2f(rep[1]), rep[2]), key=('store', it))
        # Ky Fan certificate of leig (contract of the monotonicity theorem)
        Q = le[0][1][0]
        V = le[0][2][0]
        D = np.real(le[0][2][1])
        n0 = Q.shape[0]
        scale = max(1.0, float(np.abs(Q).max()))
        r1 = float(np.abs(Q @ V - V * D).max()) / scale
        r2 = float(np.abs(Hm(V) @ V - np.eye(V.shape[1])).max())
        R = Q - (V * D) @ Hm(V) - D.max() * (np.eye(n0) - V @ Hm(V))
        r3 = float(np.linalg.eigvalsh((R + Hm(R)) / 2).min()) / scale
        if r1 > 1e-8 or r2 > 1e-8 or r3 < -1e-8:
            ctx.tie_broken('tie', 'contract:leig-certificate', 'eig residual %.2e, orthonormality %.2e, min eig of remainder %.2e'
                           % (r1, r2, r3), case)
        ctx.branch('formula:store')


# which comparison between the regenerated effect tables and the model fails (run only when the build broke)
EFFECTS_DIAG = """import PyPhysim.Proofs.C10Gen
open PyPhysim.CacheEffects PyPhysim.C10 PyPhysim.Generated.C10Effects
def okOr (b : Bool) (s : String) : String := if b then "ok" else s
#eval IO.println s!"DIAG rows-differ-from-model {okOr (rows.all (rowMatches stepMethods)) (toString ((rows.filter fun r => !rowMatches stepMethods r).map fun r => (r.cls, r.name, r.clears, r.assigns, r.mayWrite, r.fills)))}"
#eval IO.println s!"DIAG entry-points-present {okOr (entryPointsPresent rows) "an expected entry point has no row"}"
#eval IO.println s!"DIAG attributes-known {okOr (initMatches initAttrs && mentionsOnlyInit initAttrs rows) (toString (initAttrs.map fun e => (e.1, e.2.map fun x => x.1)))}"
#eval IO.println s!"DIAG fill-reads-match-model {okOr (fillsMatch fillReads) (toString fillReads)}"
#eval IO.println s!"DIAG sufficiency(class,entry,derived-attribute,written-attribute) {okOr (sufficientBut solveExempt (depsOf fillReads) rows) (toString ((violations (depsOf fillReads) rows).filter fun v => !(v.2.1 == "solve" && v.1 != "ClosedFormIASolver" && v.2.2.1 == "_full_F")))}"
"""


# ------------------------------------------------------------------ check
def check(ctx):
    np.seterr(all='ignore')
    quick = ctx.tier == 'quick'
    ctx.rule = ('histories: K in 2..4, antennas 2..5 (square and mixed), streams 1..min(Nt,Nr)-1, scalar/vector/None/'
                'rejected powers, all five solvers + base class, every init mode, 4..30 ops incl. getter reads; '
                'formula systems and solve/monotone cases drawn the same way; non-trivial = distinct history with '
                '>= 3 ops / distinct (formula, system) / distinct oracle case')
    proved = core.prove(ctx, MODULE, generated=['C10Effects'], drivers=[DRIVER], scratch=ctx.scratch)
    if not proved and not any(b['kind'] == 'tie' for b in ctx.broken):
        from harness.gen import _effects
        _effects.diagnose(core, ctx, 'C10', EFFECTS_DIAG)
    ctx.required_branches = ['op:setP', 'op:rand', 'op:setprec', 'op:setfilt', 'op:solve', 'op:clear', 'op:rFWH',
                             'op:rFW', 'op:rFF', 'op:setinit', 'out:err:ValueError', 'out:err:RuntimeError',
                             'out:err:TypeError', 'op:query', 'op:fork'] + [
                             'corr:R%d' % i for i in (1, 2, 3, 4, 5, 6, 7, 8, 9, 10, 11, 13, 14, 15, 16)] + [
                             'oracle:R%d' % i for i in (1, 2, 3, 4, 5, 6, 7, 8, 9, 10, 11, 13, 14, 15, 16)] + [
                             'op:selfset', 'oracle-ok:refill', 'oracle:R16:channel-refill', 'oracle:R15:close-refill',
                             'oracle:R16:reused-buffers', 'oracle:R16:one-object-two-roles','formula:scale', 'formula:closed:Ns<N/2',
                             'formula:closed:Ns=N/2', 'oracle:closed-form:Ns<N/2', 'oracle:closed-form:Ns=N/2',
                             'formula:system', 'formula:closed', 'formula:store', 'oracle-ok:solve',
                             'oracle-ok:monotone', 'oracle-ok:history']
    nh = 300 if quick else 5000
    nf = 15 if quick else 300
    nsolve = 100 if quick else 4000
    nmono = 50 if quick else 2000
    # class R14: hundreds of users (one case per quick run, a few in thorough)
    many = [gen_many_users(ctx.rng, 257, 'base')]
    if not quick:
        many += [gen_many_users(ctx.rng, 258, 'base'), gen_many_users(ctx.rng, 300, 'base'),
                 gen_many_users(ctx.rng, 257, 'minleak')]
    # classes R15 / R16: small deterministic scenario sets (own random stream: the other cases of a seed are unchanged)
    robust = r15_histories(ctx.rng.fork('r15'), quick) + r16_histories(ctx.rng.fork('r16'), quick)
    cases = list(CORPUS_HISTORIES) + many + robust + [gen_history(ctx.rng, ctx.tier) for _ in range(nh)]
    try:
        correspond_histories(ctx, cases)
        correspond_formulas(ctx, nf)
    except core.Infra as e:
        if not ctx.broken:
            raise
        ctx.notes.append('correspondence skipped: %s' % e)
        ctx.required_branches = [b for b in ctx.required_branches if b.startswith('oracle')]
    # property oracles on the implementation
    for call, case in corpus_cases():
        run_oracle(ctx, call, case)
        ctx.branch('corpus')
    for case in CORPUS_HISTORIES + many[:1 if quick else 2] + robust:
        run_oracle(ctx, 'history', case)
    rr = ctx.rng.fork('refill')
    for kind in SOLVERS:
        for close in (True, False):
            run_oracle(ctx, 'refill', gen_refill_case(rr, kind, close))
    for _ in range(0 if quick else 200):
        run_oracle(ctx, 'refill', gen_refill_case(rr))
    first = len(CORPUS_HISTORIES) + len(many) + len(robust)
    for case in cases[first:first + (nh if quick else nh // 4)]:
        run_oracle(ctx, 'history', case)
    for kind in SOLVERS:
        for _ in range(nsolve // len(SOLVERS)):
            run_oracle(ctx, 'solve', gen_solve_case(ctx.rng, kind))
    for kind in ('altmin', 'minleak'):
        for _ in range(nmono // 2):
            run_oracle(ctx, 'monotone', gen_monotone_case(ctx.rng, kind))
    ctx.sample({'call': 'history', 'case': CORPUS_HISTORIES[0]})
    ctx.sample({'call': 'history', 'case': CORPUS_HISTORIES[1]})
    ctx.sample({'call': 'solve', 'case': gen_solve_case(core.Rng(1, 'sample'), 'closed')})
    ctx.sample({'call': 'monotone', 'case': gen_monotone_case(core.Rng(1, 'sample'), 'minleak')})


def search(ctx):
    rng = ctx.rng.fork('search')
    for case in r15_histories(rng.fork('r15'), False) + r16_histories(rng.fork('r16'), False):
        run_oracle(ctx, 'history', case)
        if ctx.failures:
            return
    for _ in range(600):
        run_oracle(ctx, 'history', gen_history(rng, 'thorough'))
        if ctx.failures:
            return
    for _ in range(300):
        run_oracle(ctx, 'solve', gen_solve_case(rng))
        run_oracle(ctx, 'monotone', gen_monotone_case(rng))
        run_oracle(ctx, 'refill', gen_refill_case(rng))
        if ctx.failures:
            return
