"""C06 — robustness classes R15 (distinct values that are merely close) and R16 (argument identity and
buffer reuse): generators, one more exact correspondence stream and first-principles oracles for c06.py.

R15.  C06's code compares / looks up / de-duplicates by value in: `Result.update` (MISC: the new value
replaces the old one; RATIO: zero test of the total), `Result.__eq__` (exact attribute comparison),
`SimulationParameters.get_pack_indexes` (`list.index`), `combine_simulation_parameters` (`np.union1d`, `!=`
of the fixed parameters).  Values used: magnitudes 1e-9 … 1e-15 (all "equal" to 0 and to each other under
`np.isclose`), values differing by a relative 1e-6 … 1e-9 (2.4e9 vs 2.4e9+2e4), adjacent binary64 values
(0.3 vs 0.30000000000000004), values differing in the 13th decimal.  Where no arithmetic is involved
(MISC values, value lists, look-ups, union grids, equality) the comparison is exact; sums are compared
relative to the sum of the magnitudes (no absolute floor).

R16.  Every entry point of the property that takes an array / list / object: `Result.update(value, total)`
(0-d array buffers, the same buffer for value and total, array-valued MISC observations),
`Result.merge(other)` (one operand object updated between merges, `a.merge(a)`), `merge_all_results(other)` /
`append_all_results(other)` (one operand result set refilled between calls, `s.merge_all_results(s)`),
`combine_simulation_results(s1, s2)` (one preallocated value array per parameter refilled in place, the
same array object for two parameters / for both operands, the same parameter object / result set in both
roles).  A history is run exactly as a caller would (phase 1: only the calls under test, snapshots taken
with copy.deepcopy / numpy); the fresh-object and first-principles references are computed afterwards
(phase 2), so that no reference computation can refresh a cache of the library in between.
"""
import copy
import itertools
import warnings
from fractions import Fraction

import numpy as np


def B():
    from harness.props import c06
    return c06


# ------------------------------------------------------------------ close-but-distinct values (binary64, exact tokens)
def _nx(x, k=1):
    for _ in range(k):
        x = float(np.nextafter(x, np.inf))
    return x


CLOSE_POOLS = {
    # tiny magnitudes: noise powers / path losses / gains; all within atol=1e-8 of 0 and of each other
    'tiny': [4e-12, 4e-13, 1e-9, 2e-9, 1e-15, 3e-15, 1e-12],
    # large values with relative gaps 1e-6 .. 1e-9
    'big': [2.4e9, 2.4e9 + 2e4, 2.4e9 + 1.0, 2.4e9 * (1 + 1e-9), 2.40001e9, 5.0e9, 5.0e9 + 4e3],
    # neighbouring doubles
    'ulp': [0.3, 0.30000000000000004, _nx(0.3, 2), _nx(0.3, 3), 1.0, _nx(1.0), 100.0, _nx(100.0, 2)],
    # differing beyond the 12th decimal
    'dec13': [1.0000000000001, 1.0000000000002, 0.1234567890123, 0.1234567890124, 7.0000000000001, 7.0],
    # zero and almost zero (a zero test with a threshold would identify them)
    'zeroish': [0.0, 1e-12, -1e-12, 1e-9, -1e-9, 1e-15],
}
# pools whose sums, quotients by a power of two and squares are exact in binary64 (used in the correspondence
# with the rational model for SUM / RATIO): multiples of 2^-40 (1e-12) and 2^24 + k*2^4 (relative gap 1e-6)
EXACT_POOLS = {
    'tiny': [Fraction(k, 1 << 40) for k in (1, 2, 3, 4, 5, 8)],
    'big': [Fraction((1 << 24) + k * 16) for k in (0, 1, 2, 3, 5, 8)],
}


def ftok(x):
    """exact token of a binary64 value"""
    return B().tok(Fraction(float(x)))


def fl(token):
    q = Fraction(token)
    return q.numerator / q.denominator


def is_close(a, b):
    """what `np.isclose` with default tolerances (or an absolute threshold 1e-8) would call equal"""
    return a != b and (abs(a - b) <= 1e-8 + 1e-5 * abs(b) or abs(b - a) <= 1e-8 + 1e-5 * abs(a))


def _attrs(r):
    """every attribute `==` is documented to compare (num_updates is ignored)"""
    st = B().res_state(r)
    return st[:7] + st[8:]


def _rel_close(got, want, scale):
    """|got - want| <= 1e-12 * scale (scale = sum of the magnitudes involved): relative, no floor"""
    return abs(Fraction(float(got)) - want) <= Fraction(1, 10 ** 12) * scale


def _float_stats(r, ty, vals, tots, acc, what):
    """first-principles statistics for arbitrary binary64 observations (SUM / RATIO / MISC)"""
    b = B()
    n = len(vals)
    if r.num_updates != n:
        return '%s: num_updates %d for %d observations' % (what, r.num_updates, n)
    if acc:
        if [Fraction(float(v)) for v in r._value_list] != vals:
            return '%s: value_list %r differs from the observations' % (what, r._value_list[:6])
        if ty == b.TY['ratio'] and [Fraction(float(t)) for t in r._total_list] != tots:
            return '%s: total_list %r differs from the totals' % (what, r._total_list[:6])
    if ty == b.TY['misc']:
        if n and Fraction(float(r._value)) != vals[-1]:
            return '%s: MISC value %r, last observation %r' % (what, r._value, float(vals[-1]))
        if n and Fraction(float(r.get_result())) != vals[-1]:
            return '%s: MISC get_result %r, last observation %r' % (what, r.get_result(), float(vals[-1]))
        return None
    sa = sum(abs(v) for v in vals)
    if not _rel_close(r._value, sum(vals), sa):
        return '%s: value %r expected %r' % (what, r._value, float(sum(vals)))
    if ty == b.TY['ratio']:
        if not _rel_close(r._total, sum(tots), sum(abs(t) for t in tots)):
            return '%s: total %r expected %r' % (what, r._total, float(sum(tots)))
        q = [v / t for v, t in zip(vals, tots)]
    else:
        q = vals
    if not _rel_close(r._result_sum, sum(q), sum(abs(x) for x in q)):
        return '%s: result_sum %r expected %r' % (what, r._result_sum, float(sum(q)))
    if not _rel_close(r._result_squared_sum, sum(x * x for x in q), sum(x * x for x in q)):
        return '%s: result_squared_sum %r expected %r' % (what, r._result_squared_sum, float(sum(x * x for x in q)))
    return None


# ------------------------------------------------------------------ R15: observations
def o_close_obs(case):
    """close-but-distinct observations: every update takes effect for exactly its value (MISC: the stored value
    IS the new one after every call), the statistics are those of exactly these values, merging chunks keeps
    them, and `==` tells objects apart that differ in one close value"""
    b = B()
    ty, acc, kind = case['ty'], case['acc'], case['kind']
    pre = 'R15:%s:%s' % (b.TYN[ty], kind)
    vals = [Fraction(v) for v in case['vals']]
    tots = [Fraction(t) for t in case['totals']] if ty == b.TY['ratio'] else []
    fv = [fl(v) for v in case['vals']]
    ft = [fl(t) for t in case['totals']] if ty == b.TY['ratio'] else [None] * len(fv)
    try:
        # --- phase 1: the calls
        r = b.make_result(ty, acc, 0)
        seen = []
        for i, (v, t) in enumerate(zip(fv, ft)):
            r.update(v, t)
            seen.append((r.num_updates, r._value, list(r._value_list), r.get_result()))
        cuts = case['cuts']
        bounds = [0] + list(cuts) + [len(fv)]
        chunks = []
        for lo, hi in zip(bounds, bounds[1:]):
            c = b.make_result(ty, acc, 0)
            for v, t in zip(fv[lo:hi], ft[lo:hi]):
                c.update(v, t)
            chunks.append(c)
        merged = b.make_result(ty, acc, 0)
        for c in chunks:
            merged.merge(c)
        twin = b.make_result(ty, acc, 0)
        for v, t in zip(fv, ft):
            twin.update(v, t)
        j = case['swap']
        other = b.make_result(ty, acc, 0)
        for i, (v, t) in enumerate(zip(fv, ft)):
            other.update(fl(case['swap_to']) if i == j else v, t)
        eqs = (r == twin, r != twin, r == other, r != other, other == r)
    except Exception as e:
        return pre + ':exception:%s' % type(e).__name__, repr(e)[:300]
    # --- phase 2: first principles
    for i, (n, value, vlist, got) in enumerate(seen):
        if n != i + 1:
            return pre + ':update-skipped', 'num_updates %d after %d updates (value %r)' % (n, i + 1, fv[i])
        if ty == b.TY['misc']:
            if Fraction(float(value)) != vals[i] or Fraction(float(got)) != vals[i]:
                return pre + ':setter-ignored', 'after update(%r) the MISC value is %r (previous observation %r)' % (
                    fv[i], value, fv[i - 1] if i else None)
        if acc and [Fraction(float(x)) for x in vlist] != vals[:i + 1]:
            return pre + ':value-list', 'after update #%d the value list is %r' % (i, vlist)
    d = _float_stats(r, ty, vals, tots, acc, 'single object')
    if d:
        return pre + ':accumulate-wrong', d
    if ty == b.TY['misc'] and bounds[-1] == bounds[-2]:
        pass                                        # empty last chunk: known finding of the MISC merge
    else:
        if ty == b.TY['misc'] and not acc:
            d = None if (not vals or Fraction(float(merged._value)) == vals[-1]) else \
                'merged: MISC value %r, last observation %r' % (merged._value, fv[-1])
        else:
            d = _float_stats(merged, ty, vals, tots, acc, 'merged chunks') if ty != b.TY['misc'] else (
                None if ([Fraction(float(x)) for x in merged._value_list] == vals
                         and (not vals or Fraction(float(merged._value)) == vals[-1])) else
                'merged: MISC value %r / list %r' % (merged._value, merged._value_list[:6]))
        if d:
            return pre + ':merged-differs', d
    if eqs[0] is not True or eqs[1] is not False:
        return pre + ':eq-twin', 'two objects fed the same observations compare %r / != %r' % (eqs[0], eqs[1])
    want = _attrs(r) == _attrs(other)
    if bool(eqs[2]) != want or bool(eqs[3]) == want or bool(eqs[4]) != want:
        return pre + ':eq-close-values', ('objects whose observation #%d is %r / %r: == gives %r, != gives %r, '
                                          'attributes %s' % (j, fv[j], fl(case['swap_to']), eqs[2], eqs[3],
                                                             'equal' if want else 'differ'))
    return None


def gen_close_obs_case(rng, ty=None, kind=None):
    b = B()
    ty = rng.choice([0, 1, 2, 2]) if ty is None else ty
    kind = rng.choice(sorted(CLOSE_POOLS)) if kind is None else kind
    pool = CLOSE_POOLS[kind]
    n = rng.randint(2, 7)
    vals = [rng.choice(pool) for _ in range(n)]
    if ty == b.TY['ratio']:
        tp = [t for t in CLOSE_POOLS[rng.choice(['tiny', 'big', 'ulp', 'dec13'])] if t != 0]
        tots = [rng.choice(tp) for _ in range(n)]
    else:
        tots = []
    j = rng.below(n) if ty != b.TY['misc'] else n - 1
    alt = [x for x in pool if x != vals[j]]
    cuts = sorted(rng.randint(1, n - 1) for _ in range(rng.randint(0, 2)))
    return {'ty': ty, 'acc': rng.chance(0.5), 'kind': kind, 'vals': [ftok(v) for v in vals],
            'totals': [ftok(t) for t in tots], 'cuts': cuts, 'swap': j, 'swap_to': ftok(rng.choice(alt))}


def fixed_close_obs_cases():
    """quick tier: every pool, every type, the adjacent pairs of the pool in both orders"""
    out = []
    for kind in sorted(CLOSE_POOLS):
        pool = CLOSE_POOLS[kind]
        for ty in (0, 1, 2):
            for acc in (False, True):
                for a, c in zip(pool, pool[1:] + pool[:1]):
                    vals = [a, c, a, c, c]
                    tots = [x if x != 0 else 1e-12 for x in (c, a, a, c, a)] if ty == 1 else []
                    tots = [abs(t) for t in tots]
                    out.append({'ty': ty, 'acc': acc, 'kind': kind, 'vals': [ftok(v) for v in vals],
                                'totals': [ftok(t) for t in tots], 'cuts': [2], 'swap': 4, 'swap_to': ftok(a)})
    return out


# ------------------------------------------------------------------ R15: exact correspondence with the model
def gen_close_script(rng, long=False):
    """Result level, observation values close but distinct.  MISC does no arithmetic, so ANY binary64 values are
    exact there (neighbouring doubles, 13th decimal); SUM / RATIO use the pools whose sums and squares are
    exact.  `eq` after every few updates: the model compares exact rationals."""
    b = B()
    im = b.Impl()
    ops = []

    def do(op):
        ops.append(op)
        im.step(op)

    ty = rng.choice([0, 1, 2, 2])
    acc = rng.chance(0.5)
    if ty == 2:
        kind = rng.choice(sorted(CLOSE_POOLS))
        pool = [Fraction(float(x)) for x in CLOSE_POOLS[kind]]
    else:
        kind = rng.choice(sorted(EXACT_POOLS))
        pool = EXACT_POOLS[kind]
    k = rng.randint(2, 4)
    for _ in range(k):
        do('nr,x,%d,%d,-' % (ty, 1 if acc else 0))
    # the objects receive the same observations except at a few places, where they get a close neighbour
    n = rng.randint(2, 10 if long else 6)
    for i in range(n):
        v = rng.choice(pool)
        t = '-' if ty != 1 else b.tok(Fraction(1 << rng.randint(0, 3)) * (Fraction(1, 1 << 40) if kind == 'tiny' else 1))
        for a in range(k):
            va = v
            if a > 0 and rng.chance(0.25):
                va = rng.choice([x for x in pool if x != v])
            do('u,r%d,%s,%s' % (a, b.tok(va), t))
        if rng.chance(0.5):
            x, y = rng.below(k), rng.below(k)
            do('eq,r%d,r%d' % (x, y))
            do('g,r%d' % x)
    if rng.chance(0.5):
        do('m,r0,r%d' % (k - 1))
    for a in range(k):
        do('g,r%d' % a)
        for c in range(a + 1, k):
            do('eq,r%d,r%d' % (a, c))
    im.close_kind = kind
    im.scale = (0, 0)
    return ops, im


# ------------------------------------------------------------------ R15: parameter look-up / union / fixed values
def close_pairs():
    """pairs (kind, a, b) of distinct values that np.isclose identifies"""
    out = []
    for kind in ('tiny', 'big', 'ulp', 'dec13'):
        pool = CLOSE_POOLS[kind]
        for a, c in itertools.combinations(pool, 2):
            if is_close(a, c) and a > 0 and c > 0:
                out.append((kind, a, c))
    return out


def disjoint_close_combine_cases(limit=None):
    """operand 1 was simulated ONLY for a, operand 2 ONLY for a close b (and the symmetric case, and one shared
    value): the union has one cell per exact value, holding that operand's observations only — an exact
    look-up that fails must not fall back to the nearest / a close value"""
    out = []
    for kind, a, c in close_pairs():
        for ty in (0, 3):
            for swap in (False, True):
                x, y = (c, a) if swap else (a, c)
                g1, g2 = [ftok(x)], [ftok(y)]
                cells = [{'a': {ftok(x): [['3', '-'], ['1', '-']] if ty == 0 else [['0', '-'], ['0', '-']]}},
                         {'a': {ftok(y): [['5', '-']] if ty == 0 else [['1', '-']]}}]
                out.append({'specs': [['a', ty, False, 2]], 'pnames': ['p'], 'grids': [[g1], [g2]],
                            'dtypes': ['f', 'f'], 'cells': cells, 'fixed': [['f', 3]], 'kinds': [kind],
                            'name_kind': 'plain', 'orders': [[0], [0]], 'queries': False})
        # three values, the middle one shared
        z = CLOSE_POOLS[kind][-1]
        if z not in (a, c):
            g1, g2 = [ftok(a), ftok(z)], [ftok(z), ftok(c)]
            cells = [{'a': {g1[0]: [['3', '-']], g1[1]: [['7', '-'], ['1', '-']]}},
                     {'a': {g2[0]: [['2', '-']], g2[1]: [['5', '-']]}}]
            out.append({'specs': [['a', 0, False, 1]], 'pnames': ['p'], 'grids': [[g1], [g2]], 'dtypes': ['f', 'l'],
                        'cells': cells, 'fixed': [['f', 3]], 'kinds': [kind], 'name_kind': 'plain',
                        'orders': [[0], [0]], 'queries': False})
    return out if limit is None else out[:limit]


def fixed_close_rejected_cases():
    """the FIXED parameters of the operands must have the same value: 4e-12 and 4e-13 are different values"""
    out = []
    for kind, a, c in close_pairs():
        out.append({'kind': 'combine', 'why': 'fixed-value-close', 'fixed1': [['f', a]], 'fixed2': [['f', c]],
                    'pnames1': ['p'], 'pnames2': ['p'], 'grid1': [['1', '2']], 'grid2': [['2', '3']],
                    'res1': 'a', 'res2': 'a', 'close_kind': kind})
    return out


def o_lookup(case):
    """get_pack_indexes on ONE parameter object whose value array is refilled in place between the rounds (R16)
    with close-but-different values (R15): the index of exactly the asked value at call time; a close value
    that is not in the grid is absent (ValueError)"""
    b = B()
    res, par = b._impl()
    pre = 'R15:lookup:%s' % case['kind']
    rounds = [[fl(t) for t in g] for g in case['rounds']]
    absent = [[fl(t) for t in g] for g in case['absent']]
    two = bool(case.get('second'))
    got = []
    try:
        buf = np.zeros(len(rounds[0]))
        p = par.SimulationParameters()
        p.add('p', buf)
        p.add('f', 3)
        p.set_unpack_parameter('p')
        if two:
            p.add('q', [10, 20, 30])
            p.set_unpack_parameter('q')
        for vals, ab in zip(rounds, absent):
            buf[...] = vals
            row = []
            for v in vals:
                row.append(('ok', [int(i) for i in p.get_pack_indexes({'p': v, 'f': 3})]))
            for w in ab:
                try:
                    row.append(('ok', [int(i) for i in p.get_pack_indexes({'p': w, 'f': 3})]))
                except ValueError:
                    row.append(('ValueError', None))
            kids = [(fl(ftok(k.parameters['p'])), k.parameters.get('q')) for k in p.get_unpacked_params_list()]
            got.append((row, kids, p.get_num_unpacked_variations()))
        buf[...] = -1.0
    except Exception as e:
        return pre + ':exception:%s' % type(e).__name__, repr(e)[:300]
    nq = 3 if two else 1
    for k, (vals, ab) in enumerate(zip(rounds, absent)):
        row, kids, nvar = got[k]
        tag = ':refilled' if k else ''
        for i, v in enumerate(vals):
            want = [vals.index(v) * nq + j for j in range(nq)]
            if row[i] != ('ok', want):
                return pre + ':wrong-index' + tag, 'round %d: grid %r, get_pack_indexes(p=%r) = %r, expected %r' % (
                    k, vals, v, row[i], want)
        for i, w in enumerate(ab):
            if row[len(vals) + i][0] != 'ValueError':
                return pre + ':absent-value-found' + tag, 'round %d: grid %r does not hold %r but get_pack_indexes ' \
                    'returned %r' % (k, vals, w, row[len(vals) + i][1])
        want_kids = [(v, q) for v in vals for q in ([10, 20, 30] if two else [None])]
        if kids != want_kids or nvar != len(want_kids):
            return pre + ':unpacked-list' + tag, 'round %d: grid %r, unpacked variations %r' % (k, vals, kids[:6])
    return None


def lookup_cases():
    out = []
    for kind in ('tiny', 'big', 'ulp', 'dec13'):
        pool = CLOSE_POOLS[kind]
        for second in (False, True):
            r0 = pool[0:3]
            r1 = [pool[3], pool[1], pool[4]]            # slot 0 and 2 get a close neighbour, slot 1 stays
            r2 = [pool[0], pool[4], pool[1]]            # the unchanged value moves to another slot
            out.append({'kind': kind, 'second': second, 'rounds': [[ftok(v) for v in r] for r in (r0, r1, r2)],
                        'absent': [[ftok(v) for v in pool if v not in r] for r in (r0, r1, r2)]})
    return out


# ------------------------------------------------------------------ R16: Result.update with buffers
def o_update_buffer(case):
    """ONE preallocated 0-d array per argument, refilled in place before every update and overwritten right after
    it (mode 'same': the same array object is value AND total): the object after the k-th call is the object a
    new Result reaches with the first k observations given as Python numbers; nothing follows the buffer"""
    b = B()
    ty, acc, cn, mode = case['ty'], case['acc'], case['cn'], case['mode']
    pre = 'R16:update:%s:%s' % (b.TYN[ty], mode)
    obs = [tuple(o) for o in case['obs']]
    snaps = []
    try:
        dt = np.int64 if all(Fraction(v).denominator == 1 and (t == '-' or Fraction(t).denominator == 1)
                             for v, t in obs) and case.get('int') else np.float64
        vbuf = np.array(0, dtype=dt)
        tbuf = vbuf if mode == 'same' else np.array(0, dtype=dt)
        r = b.make_result(ty, acc, cn)
        for k, (v, t) in enumerate(obs):
            vbuf[...] = b.pynum(Fraction(v))
            if t != '-':
                tbuf[...] = b.pynum(Fraction(t))
            if t == '-':
                r.update(vbuf)
            elif k % 2:
                r.update(value=vbuf, total=tbuf)
            else:
                r.update(vbuf, tbuf)
            snaps.append(copy.deepcopy(r))
            if mode != 'keep':
                vbuf[...] = 1 if ty == b.TY['choice'] else 77      # the caller reuses the buffers at once
                tbuf[...] = 1 if ty == b.TY['choice'] else 77
    except Exception as e:
        return pre + ':exception:%s' % type(e).__name__, repr(e)[:300]
    for k in range(len(obs)):
        d = b.check_stats(snaps[k], ty, cn, obs[:k + 1], acc)
        if d:
            return pre + ':call-differs', 'after call #%d: %s' % (k, d)
    d = b.check_stats(r, ty, cn, obs, acc)
    if d:
        return pre + ':follows-buffer', 'after the buffers were overwritten: %s' % d
    fresh = b.feed(b.make_result(ty, acc, cn), obs)
    if b.deep_state(fresh) != b.deep_state(r) or not (fresh == r):
        return pre + ':differs-from-fresh', '%r vs a new object fed Python numbers %r' % (b.res_state(r),
                                                                                           b.res_state(fresh))
    for x in list(r._value_list) + list(r._total_list) + [r._value if ty != b.TY['choice'] else 0, r._total]:
        if isinstance(x, np.ndarray):
            return pre + ':keeps-array', 'the Result stores an ndarray argument (%r)' % (x,)
    return None


def gen_update_buffer_case(rng, ty=None, mode=None):
    b = B()
    ty = rng.choice([0, 1, 2, 3]) if ty is None else ty
    cn = rng.randint(2, 5)
    mode = rng.choice(['separate', 'keep'] + (['same'] if ty == b.TY['ratio'] else [])) if mode is None else mode
    obs = b.gen_obs_list(rng, ty, cn, rng.randint(2, 4), b.pick_scale(rng))
    if mode == 'same':
        # one buffer is both value and total: the total of a RATIO result is a count / a positive weight, so the
        # common value is made positive (a negative total could make the accumulated total 0: get_result() then
        # divides by zero, which is the library's documented behaviour for an empty total, not a finding)
        def pos(v):
            f = abs(Fraction(v))
            return str(f) if f != 0 else '3'
        obs = [[pos(v), pos(v)] for v, _ in obs]
    if ty == b.TY['choice']:
        obs = [[v, '-'] for v, _ in obs]
    return {'ty': ty, 'acc': rng.chance(0.6), 'cn': cn, 'mode': mode, 'obs': obs, 'int': rng.chance(0.5) or ty == 3}


def o_misc_array(case):
    """array-valued MISC observations handed over in ONE buffer refilled in place: the stored value (and every
    accumulated value) is the contents at call time"""
    b = B()
    pre = 'R16:misc'
    rows = [np.array(r, dtype=float) for r in case['rows']]
    try:
        r = b.make_result(b.TY['misc'], case['acc'], 0)
        buf = np.zeros(len(rows[0]))
        after = []
        for row in rows:
            buf[...] = row
            r.update(buf)
            after.append(np.array(r._value, dtype=float, copy=True))
        buf[...] = -5.0
        final = np.array(r._value, dtype=float, copy=True)
        lst = [np.array(x, dtype=float, copy=True) for x in r._value_list]
    except Exception as e:
        return pre + ':exception:%s' % type(e).__name__, repr(e)[:300]
    for k, row in enumerate(rows):
        if not np.array_equal(after[k], row):
            return pre + ':array-value-wrong', 'after update #%d the value is %r, observation %r' % (k, after[k], row)
    if not np.array_equal(final, rows[-1]) or (case['acc'] and (
            len(lst) != len(rows) or not all(np.array_equal(x, y) for x, y in zip(lst, rows)))):
        return pre + ':array-value-kept-by-reference', (
            'observations %r given in one buffer; after the buffer was overwritten the value is %r, the '
            'accumulated values %r' % ([x.tolist() for x in rows], final.tolist(), [x.tolist() for x in lst]))
    return None


# ------------------------------------------------------------------ R16: Result.merge, one operand object
def o_merge_reuse(case):
    """a history over receivers and ONE operand object that is updated between the merges, merged into several
    receivers, and objects merged with themselves: every object, after every step and at the end, holds the
    statistics of the observation sequence it stood for AT THE TIME of each call"""
    b = B()
    ty, acc, cn = case['ty'], case['acc'], case['cn']
    pre = 'R16:merge:%s' % b.TYN[ty]
    nobj = case['nobj']
    seqs = [[] for _ in range(nobj)]
    hist = []
    try:
        objs = [b.make_result(ty, acc, cn) for _ in range(nobj)]
        for st in case['steps']:
            if st[0] == 'u':
                ob = (st[2], st[3])
                b.feed(objs[st[1]], [ob])
                seqs[st[1]] = seqs[st[1]] + [ob]
            else:
                x, y = st[1], st[2]
                objs[x].merge(objs[y])
                if ty == b.TY['misc']:
                    # value = the operand's; list (accumulation) = both lists; tracked as (list, last)
                    seqs[x] = seqs[x] + seqs[y]
                else:
                    seqs[x] = seqs[x] + seqs[y]
            hist.append(([copy.deepcopy(o) for o in objs], [list(s) for s in seqs], st))
    except Exception as e:
        return pre + ':exception:%s' % type(e).__name__, repr(e)[:300]
    # phase 2
    for k, (snap, sq, st) in enumerate(hist):
        for j in range(nobj):
            if ty == b.TY['misc'] and not sq[j]:
                continue
            d = b.check_stats(snap[j], ty, cn, sq[j], acc) if ty != b.TY['misc'] else _misc_hist(snap[j], sq[j], acc)
            if d:
                role = 'self-merge' if (st[0] == 'm' and st[1] == st[2]) else ('receiver' if st[1] == j else 'other')
                return '%s:%s-differs' % (pre, role), 'object %d after step #%d %r: %s' % (j, k, st, d)
    for j in range(nobj):
        if b.deep_state(objs[j]) != b.deep_state(hist[-1][0][j]):
            return pre + ':changed-afterwards', 'object %d changed without a call' % j
    for i, j in itertools.combinations(range(nobj), 2):
        if b.shares_objects(objs[i], objs[j]):
            return pre + ':objects-shared', 'objects %d and %d share a list / array object after the history' % (i, j)
    return None


def _misc_hist(r, seq, acc):
    if Fraction(float(r._value)) != Fraction(seq[-1][0]):
        return 'MISC value %r, expected %s' % (r._value, seq[-1][0])
    if acc and [Fraction(float(v)) for v in r._value_list] != [Fraction(o[0]) for o in seq]:
        return 'MISC value list %r' % (r._value_list[:8],)
    return None


def gen_merge_reuse_case(rng, ty=None):
    b = B()
    ty = rng.choice([0, 1, 2, 3]) if ty is None else ty
    cn = rng.randint(1, 4)
    acc = rng.chance(0.5)
    nobj = rng.randint(2, 4)
    sc = b.pick_scale(rng)
    op = nobj - 1                                     # the operand object
    steps = []
    filled = [False] * nobj

    def upd(j, k):
        for v, t in b.gen_obs_list(rng, ty, cn, k, sc):
            steps.append(['u', j, v, t])
            filled[j] = True

    upd(op, rng.randint(1, 3))
    for _ in range(rng.randint(2, 4)):
        a = rng.below(nobj - 1)
        if rng.chance(0.3):
            upd(a, 1)
        steps.append(['m', a, op])
        filled[a] = True
        if rng.chance(0.8):
            upd(op, rng.randint(1, 2))               # the operand goes on accumulating
        if rng.chance(0.25) and filled[a] and not (ty == b.TY['misc'] and acc):
            steps.append(['m', a, a])                 # the same object in both roles
    steps.append(['m', 0, op])
    return {'ty': ty, 'acc': acc, 'cn': cn, 'nobj': nobj, 'steps': steps, 'scale': list(sc)}


# ------------------------------------------------------------------ R16: one operand result set, refilled
def o_sets_reuse(case):
    """merge_all_results / append_all_results with ONE operand SimulationResults object that the caller refills
    between the calls ('replace': add_result of new Result objects; 'inplace': its Result objects go on
    accumulating), merged into a long-lived receiver, into a new empty receiver at every round (which must be
    a copy of the contents at that time) and, once, a receiver merged with itself"""
    b = B()
    res, _ = b._impl()
    specs = [tuple(x) for x in case['specs']]
    how = case['how']
    pre = 'R16:result-set:%s' % how
    rounds = case['rounds']                 # list of {name: obs list}
    names = [s[0] for s in specs]
    try:
        other = res.SimulationResults()
        recv = res.SimulationResults()
        tot = res.SimulationResults()
        fresh, fresh_snap, fresh_seq = [], [], []
        recv_snaps, recv_seqs = [], []
        cur = {nm: [] for nm in names}          # what `other` stands for
        acc_seq = {nm: [] for nm in names}      # what `recv` stands for
        app_seq = {nm: [] for nm in names}      # what `tot` lists
        for k, rd in enumerate(rounds):
            for nm, ty, acc, cn in specs:
                ob = [tuple(o) for o in rd[nm]]
                if how == 'replace' or k == 0:
                    other.add_result(b.feed(b.make_result(ty, acc, cn, nm), ob))
                    cur[nm] = list(ob)
                else:
                    b.feed(other[nm][-1], ob)
                    cur[nm] = cur[nm] + ob
            f = res.SimulationResults()
            f.merge_all_results(other)
            fresh.append(f)
            fresh_snap.append(copy.deepcopy(f))
            fresh_seq.append({nm: list(cur[nm]) for nm in names})
            recv.merge_all_results(other)
            for nm in names:
                acc_seq[nm] = (acc_seq[nm] + cur[nm])
            if case.get('self_round') == k:
                recv.merge_all_results(recv)
                for nm in names:
                    acc_seq[nm] = acc_seq[nm] + acc_seq[nm]
            recv_snaps.append(copy.deepcopy(recv))
            recv_seqs.append({nm: list(acc_seq[nm]) for nm in names})
            if how == 'replace':
                tot.append_all_results(other)
                for nm in names:
                    app_seq[nm].append(list(cur[nm]))
    except Exception as e:
        return pre + ':exception:%s' % type(e).__name__, repr(e)[:300]

    def chk(sim, seqs, what, last_only=True):
        for nm, ty, acc, cn in specs:
            lst = sim._results.get(nm, [])
            if len(lst) != 1:
                return '%s: %d results for %s' % (what, len(lst), nm)
            if ty == b.TY['misc']:
                d = _misc_hist(lst[-1], seqs[nm], acc) if seqs[nm] else None
            else:
                d = b.check_stats(lst[-1], ty, cn, seqs[nm], acc)
            if d:
                return '%s, %s: %s' % (what, nm, d)
        return None

    for k in range(len(rounds)):
        d = chk(recv_snaps[k], recv_seqs[k], 'long-lived receiver after round %d' % k)
        if d:
            return pre + ':receiver-differs', d
        d = chk(fresh_snap[k], fresh_seq[k], 'empty receiver of round %d' % k)
        if d:
            return pre + ':into-empty-differs', d
        d = chk(fresh[k], fresh_seq[k], 'empty receiver of round %d, after the operand was refilled' % k)
        if d:
            return pre + ':follows-operand', d
    if how == 'replace':
        for nm, ty, acc, cn in specs:
            lst = tot._results.get(nm, [])
            if len(lst) != len(rounds):
                return pre + ':append-length', '%s: %d results after %d append_all_results' % (nm, len(lst), len(rounds))
            for r, ob in zip(lst, app_seq[nm]):
                d = b.check_stats(r, ty, cn, ob, acc) if ty != b.TY['misc'] else (_misc_hist(r, ob, acc) if ob else None)
                if d:
                    return pre + ':append-element', '%s: %s' % (nm, d)
    return None


def gen_sets_reuse_case(rng, how=None):
    b = B()
    nn = rng.randint(1, 3)
    specs = [[nm, rng.choice([0, 1, 2, 3]), rng.chance(0.3), rng.randint(1, 4)] for nm in ['a', 'b', 'c'][:nn]]
    how = rng.choice(['replace', 'inplace']) if how is None else how
    nr = rng.randint(2, 4)
    sc = b.pick_scale(rng)
    rounds = [{nm: b.gen_obs_list(rng, ty, cn, rng.randint(1, 3), sc) for nm, ty, acc, cn in specs}
              for _ in range(nr)]
    selfr = rng.below(nr) if rng.chance(0.4) and not any(ty == 2 and acc for _, ty, acc, _ in specs) else None
    return {'specs': specs, 'how': how, 'rounds': rounds, 'self_round': selfr, 'scale': list(sc)}


# ------------------------------------------------------------------ R16: combine with caller-owned buffers
def o_combine_buffers(case):
    """combine_simulation_results in a history of 2-4 calls where the caller keeps ONE value array per unpacked
    parameter and operand (handed over with add(): the parameter object refers to it), refills it in place
    before every call and refills the SAME two result sets (add_result / append_result); share = 'array': both
    operands use the same array objects; 'params': the same parameter object; 'sim': the same result set in
    both roles; 'twoparams': one array object is the value of two parameters.  The k-th union is the
    first-principles union of the contents at call k, equals the union of new objects built from copies, and is
    not changed by the later refills"""
    b = B()
    res, par = b._impl()
    share, kind = case['share'], case['kind']
    pre = 'R16:combine:%s:%s' % (share, kind)
    specs = [tuple(x) for x in case['specs']]
    pn = list(case['pnames'])                     # sorted names
    rounds = case['rounds']
    L = [len(g) for g in rounds[0]['g1']]
    try:
        bufs1 = [np.zeros(n) for n in L]
        if share == 'twoparams':
            bufs1 = [bufs1[0]] * len(pn)
        bufs2 = bufs1 if share in ('array', 'params', 'sim') else [np.zeros(n) for n in L]
        if share == 'twoparams':
            bufs2 = [bufs2[0]] * len(pn) if bufs2 is not bufs1 else bufs1
            if bufs2 is not bufs1:
                bufs2 = [np.zeros(L[0])] * len(pn)

        def mkp(bufs):
            p = par.SimulationParameters()
            for nm, bf in zip(pn, bufs):
                p.add(nm, bf)
            p.add('f', 3)
            for nm in pn:
                p.set_unpack_parameter(nm)
            return p

        p1 = mkp(bufs1)
        p2 = p1 if share in ('params', 'sim') else mkp(bufs2)
        s1 = res.SimulationResults()
        s1.set_parameters(p1)
        s2 = s1 if share == 'sim' else res.SimulationResults()
        s2.set_parameters(p2)

        def fill(s, grid, cells):
            for rn, ty, acc, cn in specs:
                for i, combo in enumerate(itertools.product(*grid)):
                    r = b.feed(b.make_result(ty, acc, cn, rn), [tuple(o) for o in cells[rn][b.combo_key(combo)]])
                    if i == 0:
                        s.add_result(r)              # replaces what the result set held for this name
                    else:
                        s.append_result(r)

        unions, snaps = [], []
        for rd in rounds:
            for bf, g in zip(bufs1, rd['g1']):
                bf[...] = [fl(t) for t in g]
            if bufs2 is not bufs1:
                for bf, g in zip(bufs2, rd['g2']):
                    bf[...] = [fl(t) for t in g]
            fill(s1, rd['g1'], rd['c1'])
            if s2 is not s1:
                fill(s2, rd['g2'] if bufs2 is not bufs1 else rd['g1'], rd['c2'])
            u = res.combine_simulation_results(s1, s2)
            unions.append(u)
            snaps.append(copy.deepcopy(u))
        for bf in bufs1 + (bufs2 if bufs2 is not bufs1 else []):
            bf[...] = -3.0                             # the caller reuses its buffers
    except Exception as e:
        return pre + ':exception:%s' % type(e).__name__, repr(e)[:300]
    # ---- phase 2
    for k, rd in enumerate(rounds):
        tag = ':refilled' if k else ''
        g1 = [[Fraction(t) for t in g] for g in rd['g1']]
        g2 = g1 if bufs2 is bufs1 else [[Fraction(t) for t in g] for g in rd['g2']]
        c1 = rd['c1']
        c2 = rd['c1'] if share == 'sim' else rd['c2']
        ugrid = [sorted(set(a) | set(c)) for a, c in zip(g1, g2)]
        u = snaps[k]
        for nm, vals in zip(pn, ugrid):
            got = [Fraction(float(x)) for x in np.asarray(u.params[nm]).tolist()]
            if got != vals:
                return pre + ':union-grid' + tag, 'call %d, %s: %r expected %r' % (k, nm, got[:6],
                                                                                [float(v) for v in vals])
        combos = list(itertools.product(*ugrid))
        for rn, ty, acc, cn in specs:
            lst = u._results.get(rn, [])
            if len(lst) != len(combos):
                return pre + ':shape' + tag, 'call %d, %s: %d results for %d combinations' % (k, rn, len(lst),
                                                                                             len(combos))
            for r, combo in zip(lst, combos):
                key = b.combo_key(combo)
                ob = []
                for g, c in ((g1, c1), (g2, c2)):
                    if all(v in vals for v, vals in zip(combo, g)):
                        ob += [tuple(o) for o in c[rn][key]]
                d = b.check_stats(r, ty, cn, ob, False)
                if d:
                    return pre + ':combination-differs' + tag, 'call %d, %s at %s: %s' % (k, rn, key, d)
        if b.sim_deep_state(unions[k]) != b.sim_deep_state(u):
            return pre + ':earlier-union-changed', 'the union returned by call %d changed when the caller refilled ' \
                'its buffers / result sets afterwards' % k
        # new objects from copies of the contents at call k
        def fresh_sim(grid, cells):
            d = {nm: np.array([fl(b.tok(v)) for v in g]) for nm, g in zip(pn, grid)}
            d['f'] = 3
            p = par.SimulationParameters.create(d)
            for nm in pn:
                p.set_unpack_parameter(nm)
            s = res.SimulationResults()
            s.set_parameters(p)
            for rn, ty, acc, cn in specs:
                for combo in itertools.product(*grid):
                    s.append_result(b.feed(b.make_result(ty, acc, cn, rn),
                                           [tuple(o) for o in cells[rn][b.combo_key(combo)]]))
            return s
        try:
            uf = res.combine_simulation_results(fresh_sim(g1, c1), fresh_sim(g2, c2))
        except Exception as e:
            return pre + ':exception:%s' % type(e).__name__, 'new objects: ' + repr(e)[:300]
        if b.sim_deep_state(uf) != b.sim_deep_state(u):
            return pre + ':differs-from-fresh' + tag, 'call %d differs from the union of new objects built from ' \
                'copies of the same contents' % k
    return None


def gen_combine_buffers_case(rng, share=None, kind=None):
    b = B()
    share = rng.choice(['none', 'none', 'array', 'params', 'sim', 'twoparams']) if share is None else share
    kind = rng.choice(['int', 'tiny', 'big', 'ulp', 'dec13']) if kind is None else kind
    pool = [Fraction(v) for v in range(1, 8)] if kind == 'int' else [Fraction(float(x)) for x in CLOSE_POOLS[kind]
                                                                     if x > 0]
    npar = 2 if share == 'twoparams' else rng.choice([1, 1, 2])
    pn = ['p', 'q'][:npar]
    L = [rng.randint(1, 3) for _ in range(npar)]
    if share == 'twoparams':
        L = [L[0]] * npar
    nn = rng.choice([1, 2])
    specs = [[nm, rng.choice([0, 1, 2, 3]), False, rng.randint(1, 3)] for nm in ['a', 'b'][:nn]]
    sc = b.pick_scale(rng)

    def grid():
        g = []
        for n in L:
            vals = list(pool)
            rng.shuffle(vals)
            g.append([b.tok(v) for v in vals[:n]])
        if share == 'twoparams':
            g = [g[0]] * npar
        return g

    def cells(g):
        out = {}
        for rn, ty, acc, cn in specs:
            out[rn] = {}
            for combo in itertools.product(*g):
                out[rn][b.combo_key(combo)] = b.gen_obs_list(rng, ty, cn, rng.randint(1, 3), sc)
        return out

    rounds = []
    for k in range(rng.randint(2, 4)):
        g1 = grid()
        g2 = grid() if share in ('none', 'twoparams') else g1
        if k and rng.chance(0.5):
            # only ONE slot of the buffer changes, to a close neighbour where the pool has one
            g1 = [list(x) for x in rounds[-1]['g1']]
            j = rng.below(npar)
            alt = [b.tok(v) for v in pool if b.tok(v) not in g1[j]]
            if alt:
                g1[j][rng.below(len(g1[j]))] = rng.choice(alt)
            if share == 'twoparams':
                g1 = [g1[j]] * npar
            if share not in ('none', 'twoparams'):
                g2 = g1
        rounds.append({'g1': g1, 'g2': g2, 'c1': cells(g1), 'c2': cells(g2)})
    return {'share': share, 'kind': kind, 'specs': specs, 'pnames': pn, 'rounds': rounds, 'scale': list(sc)}


# ------------------------------------------------------------------ registration / driver
ORACLES = {
    'R15/observations': o_close_obs,
    'R15/get_pack_indexes': o_lookup,
    'R16/Result.update': o_update_buffer,
    'R16/Result.update/misc-array': o_misc_array,
    'R16/Result.merge': o_merge_reuse,
    'R16/result-sets': o_sets_reuse,
    'R16/combine_simulation_results': o_combine_buffers,
}

REQUIRED = ['R15:observations:sum', 'R15:observations:ratio', 'R15:observations:misc', 'R15:kind=tiny', 'R15:kind=big',
            'R15:kind=ulp', 'R15:kind=dec13', 'R15:kind=zeroish', 'R15:combine-disjoint-close',
            'R15:fixed-close-rejected', 'R15:lookup', 'script:R15:close-observations', 'script:R15:misc-ulp',
            'R16:update-buffer:sum', 'R16:update-buffer:ratio', 'R16:update-buffer:misc', 'R16:update-buffer:choice',
            'R16:update-same-buffer-two-roles', 'R16:misc-array', 'R16:merge-operand-reused', 'R16:self-merge',
            'R16:result-set:replace', 'R16:result-set:inplace', 'R16:result-set:self-merge',
            'R16:combine:none', 'R16:combine:array', 'R16:combine:params', 'R16:combine:sim',
            'R16:combine:twoparams', 'R16:combine:close-values']


def correspondence(ctx, drv, quick):
    b = B()
    b.corr_scripts(ctx, drv, 'Result.script', gen_close_script, 300 if quick else 6000, long=not quick)


def note_script(ctx, im):
    kd = getattr(im, 'close_kind', None)
    if kd:
        ctx.branch('script:R15:close-observations')
        if kd in ('ulp', 'dec13'):
            ctx.branch('script:R15:misc-ulp')


def oracles(ctx, quick):
    b = B()
    rng = ctx.rng
    run = b.run_oracle
    # ---- R15
    for i, case in enumerate(fixed_close_obs_cases()):
        run(ctx, 'R15/observations', case, key=('r15-fixed', i))
        ctx.branch('R15:observations:' + b.TYN[case['ty']])
        ctx.branch('R15:kind=' + case['kind'])
    for _ in range(300 if quick else 6000):
        case = gen_close_obs_case(rng)
        run(ctx, 'R15/observations', case)
        ctx.branch('R15:observations:' + b.TYN[case['ty']])
        ctx.branch('R15:kind=' + case['kind'])
    cases = disjoint_close_combine_cases()
    if quick:
        k = rng.below(3)
        cases = cases[k::3]
    for i, case in enumerate(cases):
        run(ctx, 'combine_simulation_results', case, key=('r15-disjoint', i, repr(case['grids'])))
        ctx.branch('R15:combine-disjoint-close')
    for i, case in enumerate(fixed_close_rejected_cases()):
        run(ctx, 'rejected-call', case, key=('r15-fixed-close', i))
        ctx.branch('R15:fixed-close-rejected')
    for i, case in enumerate(lookup_cases()):
        run(ctx, 'R15/get_pack_indexes', case, key=('r15-lookup', i))
        ctx.branch('R15:lookup')
    # ---- R16
    n = 1 if quick else 12
    for ty in (0, 1, 2, 3):
        for mode in ('separate', 'keep') + (('same',) if ty == 1 else ()):
            for _ in range(6 * n):
                case = gen_update_buffer_case(rng, ty, mode)
                run(ctx, 'R16/Result.update', case)
                ctx.branch('R16:update-buffer:' + b.TYN[ty])
                if mode == 'same':
                    ctx.branch('R16:update-same-buffer-two-roles')
    for acc in (False, True):
        run(ctx, 'R16/Result.update/misc-array', {'acc': acc, 'rows': [[1.0, 2.0, 3.0], [4.0, 5.0, 6.0], [7.0, 8.0, 9.0]]},
            key=('misc-array', acc))
        ctx.branch('R16:misc-array')
    for ty in (0, 1, 2, 3):
        for _ in range(15 * n):
            case = gen_merge_reuse_case(rng, ty)
            run(ctx, 'R16/Result.merge', case)
            ctx.branch('R16:merge-operand-reused')
            if any(s[0] == 'm' and s[1] == s[2] for s in case['steps']):
                ctx.branch('R16:self-merge')
    for how in ('replace', 'inplace'):
        for _ in range(30 * n):
            case = gen_sets_reuse_case(rng, how)
            run(ctx, 'R16/result-sets', case)
            ctx.branch('R16:result-set:' + how)
            if case['self_round'] is not None:
                ctx.branch('R16:result-set:self-merge')
    for share in ('none', 'array', 'params', 'sim', 'twoparams'):
        for kind in ('int', 'tiny', 'big', 'ulp', 'dec13'):
            for _ in range(3 * n):
                case = gen_combine_buffers_case(rng, share, kind)
                run(ctx, 'R16/combine_simulation_results', case)
                ctx.branch('R16:combine:' + share)
                if kind != 'int':
                    ctx.branch('R16:combine:close-values')


def search(ctx):
    b = B()
    for _ in range(1500):
        b.run_oracle(ctx, 'R15/observations', gen_close_obs_case(ctx.rng))
    for _ in range(600):
        b.run_oracle(ctx, 'R16/Result.update', gen_update_buffer_case(ctx.rng))
        b.run_oracle(ctx, 'R16/Result.merge', gen_merge_reuse_case(ctx.rng))
        b.run_oracle(ctx, 'R16/result-sets', gen_sets_reuse_case(ctx.rng))
    for _ in range(300):
        b.run_oracle(ctx, 'R16/combine_simulation_results', gen_combine_buffers_case(ctx.rng))
