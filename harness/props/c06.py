"""C06 — combining simulation results is independent of grouping (DESIGN.md §5 C06).

Tie to source, two independent ways:
(a) regeneration — `harness/gen/c06.py` re-emits `Generated/C06Result.lean` from
the current AST of results.py (Result.update with its per-type functions and
dispatch, _assert_can_merge + merge, get_result / get_result_mean /
get_result_var), `harness/gen/c06sim.py` re-emits `Generated/C06Sim.lean`
(SimulationResults.add_result / append_result / add_new_result /
merge_all_results) and the bridge theorems generated_*_match(es)_model prove the
re-emitted functions equal to the hand models `Model/C06.lean` / `Model/C06Heap.lean`;
(b) hand models `Model/C06.lean` (Result.update / merge / observers)
and `Model/C06Heap.lean` (SimulationResults on an explicit heap of shared
objects, parameter grids, combine_simulation_results), tied by an **exact**
differential run: seeded scripts are executed on the real classes and on the
compiled model; exceptions, observer outputs and the complete object graph
(attributes of every reachable Result, which list objects are shared) are
compared after canonical renaming.  Observations are integers / dyadic
rationals and totals are powers of two, so binary64 arithmetic is exact.

Property oracles (first principles, on the real code only): sufficient
statistics recomputed with `Fraction` from the raw observation lists;
snapshots of merged-in operands compared after the whole script.
"""
import copy
import itertools
import warnings
from fractions import Fraction

import numpy as np

from harness import core

MODULE = 'PyPhysim.Properties.C06'
DRIVER = 'drv_c06'

CLAIM = {
    'technique': 'Lean 4 proof (monoid homomorphism, merge-tree induction, heap frame + separation invariant); '
                 'Result arithmetic regenerated from the source + bridge theorems',
    'text': 'Kernel-checked theorems about an executable model of Result.update/merge/observers, '
            'SimulationResults.merge_all_results/append_all_results and combine_simulation_results (source after '
            'the fix: commits of findings/C06.json): for EVERY observation sequence, EVERY split into contiguous chunks and EVERY '
            'merge tree, the merged object equals attribute by attribute the object that accumulated the whole '
            'sequence (SUM, RATIO, CHOICE, accumulation on/off), hence same value, total, count, mean, variance, '
            '==; MISC: last observation wins iff the last chunk is non-empty (negative witness for the empty chunk); '
            'the attributes are the first-principles sums (variance = population variance); merge_all_results is '
            'that law per name, merging into an empty object is a deep copy, and on an explicit heap of shared '
            'objects a frame theorem + separation invariant show that no object of a merged-in operand is written, '
            'for every later history of merges/updates (negative witness for the pre-fix aliasing); '
            'combine_simulation_results: union grid, row-major index, per-combination cell = accumulation of both '
            'operands\' observations, operands untouched.  The arithmetic core of Result (update with its four '
            'per-type functions, the type dispatch, num_updates += 1 last / nothing stored before a raise; '
            '_assert_can_merge + merge: all assertions first, list extension under accumulate_values_bool, MISC '
            'replaces / other types add; get_result, get_result_mean, get_result_var) is RE-EMITTED from the current '
            'AST of results.py on every run (Generated/C06Result.lean: which attribute ends up with which value, '
            'which exception is raised on which condition in which state) and proved equal to the hand model for '
            'every record and observation (generated_update_matches_model, generated_update_is_model, '
            'generated_getters_match_model; generated_merge_matches_model for every pair of records in which _value '
            'is either a number or a CHOICE array, an invariant of the constructor / update / merge: '
            'one_value_invariant), so the theorems above are theorems about the regenerated functions.  The control '
            'structure of SimulationResults.add_result / append_result / add_new_result / merge_all_results (empty self '
            'adopts deep copies name by name; otherwise every _assert_can_merge incl. num_skipped_reps before '
            'anything changes, then the merges of the last results, then the num_skipped_reps tail) is re-emitted as '
            'well (Generated/C06Sim.lean) and proved equal to the heap model (generated_add_append_match_model for '
            'every machine; generated_merge_all_matches_model for every machine whose operand dictionary has no key '
            'twice).  In addition the '
            'whole hand model is tied to the source by an exact differential run of seeded scripts comparing every '
            'attribute of every reachable object and the sharing structure.',
    'note': 'Regenerated (translator harness/gen/c06.py, symbolic execution of a small statement language once per '
            'result type; private helpers, nested functions, properties inlined; anything outside the fragment = tie '
            'broken): Result.update, _assert_can_merge, merge, get_result, get_result_mean, get_result_var. Trusted '
            'there: the translator and its stated conventions (numbers are exact rationals; _value is a number or, '
            'for CHOICE, an int array; a[int(x)] += 1 = numpy index normalisation + increment, IndexError outside; '
            'int array / 0 reported as ZeroDivisionError unless the array is empty; array += array only under a '
            'checked equal length; other is not self; x.item() under a test that holds exactly for numpy scalars / 0-d arrays is '
            'the identity on exact values - both paths of the test must do the same - and no unconverted parameter may '
            'reach arithmetic or storage: generated_type_codes_and_conversion). Container level '
            '(harness/gen/c06sim.py, compositional rules into the primitives of Model/C06HeapOps.lean: names / size / '
            'getList / last / first / deref / setEntryNewList / listAppend, loops over a snapshot list of names as '
            'recursive functions): add_result, append_result, add_new_result, merge_all_results; trusted there: the '
            'rules, the primitives, and that R._assert_can_merge / R.merge / Result() / Result.create / copy.deepcopy '
            'of a list of results are the hand model\'s mergeGuard / mergeR / mkRes / createRes / copyElems (the first '
            'two tied by the Result-level regeneration, the others by correspondence). Still hand-modelled and tied '
            'by correspondence only: Result.__init__ / create / __eq__, get_confidence_interval (scipy), '
            'append_all_results (its loops run over live list objects that the body may extend: the hand model uses a '
            'snapshot + self-feeding test; a sound translation needs a fuelled live-iteration semantics and a frame '
            'lemma that a list that is not self-feeding is not written), the heap / aliasing model itself (what an '
            'address is, which objects are shared), combine_simulation_results and the parameter objects: there a '
            'behaviour the generators do not reach is not tied; the thorough '
            'tier additionally enumerates all merge trees with <= 4 leaves over sequences of length <= 4. '
            'Robustness classes: R1 element types (observations/totals/CHOICE indexes as Python numbers, numpy '
            'int8..int64/uint8/uint16/float16/float32/float64 scalars, 0-d arrays; parameter value containers of '
            'dtype int8/uint8/int16/int32/int64/float32/float64, lists, tuples) and R2 layout (strided, reversed, '
            '(N,1), empty, single-element containers): the model is a function of the exact rational VALUE only, so '
            'independence of dtype/layout is by construction in the theorems and is tied by correspondence + oracle '
            '(the same script/case run with every representation must equal the model / first-principles result). '
            'R3 immutability and R7 shared/long-lived objects: frame theorems merge_all_frame, '
            'merge_never_mutates_operand (every later history), combine_never_mutates_operands, result_merge_frame; '
            'list/array objects INSIDE a Result and the parameter containers are values in the model, so their '
            'non-aliasing (operands, parameter objects, caller containers, union vs operand parameters in both '
            'directions, one chunk in three accumulators, one result set merged into two objects) is oracle + '
            'correspondence only. R4 rejected calls: theorems update_raises_iff_invalid / '
            'rejected_update_is_invisible / merge_rejects_incompatible / merge_rejected_unchanged / '
            'merge_all_rejected_unchanged (validation pass) / combine_rejected_unchanged + oracle (both objects '
            'deep-compared, history continued against a twin). R5 boundaries (value 0, total 0, choice_num 1, empty '
            'result sets, empty value lists, single combination): inside the quantifiers of the theorems; required '
            'branches in the harness. R6 scale (values/totals x 2^-40 .. 2^40, i.e. 1e-12 .. 1e12): theorems are over '
            'Q (scale free); harness comparisons exact or relative to the data scale (no absolute floor). '
            'Insertion order of result names / parameter dictionaries is not part of the value: theorems '
            'combine_pairs_results_by_name, merge_all_pairs_results_by_name, reorder_keeps_lookups, '
            'param_order_is_sorted; scripts (op ro, independent name orders per object) and oracles (same-typed '
            'results in different orders) tie it. A library exception on a covered input is always reported as a '
            'failing input (script / float-stream / tree replays), never as an infrastructure error. '
            'R8 argument forms / equivalent entry points: theorems create_is_constructor_then_update, '
            'add_new_result_is_create_then_add (model ops cr / an); positional, keyword, default and explicit-None '
            'forms of Result(), Result.create, update, add_new_result, and the constructor / setter / replacement '
            'paths of SimulationParameters are rotated in the scripts and compared in the entry-points and combine '
            'oracles; get_result_values_list = element-wise get_result. R9 counts/indices: choice_num and CHOICE '
            'indexes as Python int, numpy int8..int64/intp, bool, 0-d array, indices >= 256 and negative ones '
            '(model: exact values; oracle + correspondence). R10 heterogeneous collections: parameter value lists '
            'with elements of different Python/numpy types and operands of different containers/dtypes (model: exact '
            'values; oracle + correspondence); list-of-arrays arguments do not exist in this API. R11 non-mutating '
            'API: observers are pure functions in the model by construction; query batteries (repr, ==, observers, '
            'confidence intervals, values lists, parameter queries, copies, pickling) between the mutators in '
            'scripts (ops q / qs) and oracles. R12 insertion order: see above (theorems + ops ro). R13 derived '
            'objects: theorems copy_is_independent, copy_of_result_set, combine_never_mutates_operands (model ops '
            'cp / cps: deep copy and pickle round trip); oracle: copies / pickle round trips of the union, unpacked '
            'children of its parameters, the union as an operand of another combine, parents changed afterwards; '
            'JSON / to_dict round trips belong to C17. R14 counts: 300 chunks, 258 result names, 299-combination '
            'grids, 300 choices (oracles), a 260-combination script (correspondence) in every run. '
            'R15 distinct values that are merely close (magnitudes 1e-9..1e-15, relative gaps 1e-6..1e-9, '
            'neighbouring doubles, 13th decimal): the model is a function of the exact value - theorems '
            'setter_takes_effect_for_every_new_value (MISC), eq_is_exact / close_observations_compare_unequal, '
            'lookup_exact, close_values_stay_distinct, union_grid_spec; tie: a script stream whose objects receive '
            'close-but-different observations (any doubles for MISC; exact-sum pools for SUM / RATIO) with == between '
            'them, oracles R15/observations (every update takes effect, statistics relative to the sum of the '
            'magnitudes, == tells objects apart), combine with DISJOINT close grids (a failed exact look-up must not '
            'fall back to a neighbour), close fixed parameters rejected, R15/get_pack_indexes. '
            'R16 argument identity / buffer reuse: theorems merge_depends_on_contents_only, '
            'operand_refilled_between_merges, self_merge_doubles (addresses on the heap model; arrays inside '
            'parameters are values in the model, so that part is oracle only); oracles run the history first and '
            'compute the references afterwards: Result.update with 0-d array buffers refilled in place / the same '
            'buffer as value and total, one operand Result updated between merges and merged into several '
            'receivers, a.merge(a), one operand result set refilled between merge_all_results / '
            'append_all_results calls (replace and in-place), s.merge_all_results(s), combine_simulation_results '
            'with caller-owned value arrays refilled in place over 2-4 calls (same array for both operands / two '
            'parameters, same parameter object, same result set in both roles; earlier unions must not change). '
            'Known finding (R16): an array-valued MISC observation is stored by reference. '
            'Partial: the outer loop of append_all_results (AppendAllConcatStatement) is proved only per name; the '
            'num_skipped_reps tail of merge_all_results is covered by the frame/rejection theorems and one decided '
            'instance; that a passed validation implies the merge loop cannot raise is proved under the hypotheses '
            'of merge_all_pointwise only. MISC values are numbers in the model. Not modelled: unknown type codes, '
            'parameter values that are not 1-D (rows of a 2-D array: known finding), JSON/pickle paths (C17). The '
            'non-terminating append_all_results(self) is modelled (Fuel) but never executed on the code. Observer '
            'outputs (get_result/mean/var divide in binary64) are compared with rtol 1e-9, everything else exactly. '
            'Known findings: merging a never-updated MISC result resets the value; 2-D parameter values are '
            'flattened by combine.',
}

TY = {'sum': 0, 'ratio': 1, 'misc': 2, 'choice': 3}
TYN = {v: k for k, v in TY.items()}
NSR = 'num_skipped_reps'


def _impl():
    from pyphysim.simulations import results, parameters
    return results, parameters


# ------------------------------------------------------------------ numbers
def fr(x):
    """exact rational value of a Python / numpy number"""
    if isinstance(x, (bool, np.bool_)):
        return Fraction(int(x))
    if isinstance(x, (int, np.integer)):
        return Fraction(int(x))
    if isinstance(x, (float, np.floating)):
        return Fraction(float(x))
    if isinstance(x, Fraction):
        return x
    if isinstance(x, np.ndarray) and x.ndim == 0:
        return fr(x.item())
    raise TypeError('not a number: %r' % (x,))


def rsx(x):
    """like rs(fr(x)), but never raises: non-finite / non-numeric attributes are shown as they are"""
    try:
        return rs(fr(x))
    except (TypeError, ValueError, OverflowError):
        return 'not-a-finite-number:%r' % (x,)


def rs(q):
    return '%d/%d' % (q.numerator, q.denominator)


def tok(q):
    """a rational as a protocol token"""
    q = Fraction(q)
    return str(q.numerator) if q.denominator == 1 else '%d/%d' % (q.numerator, q.denominator)


def pynum(q, as_float=False):
    """the Python number handed to the real code for rational q (exactly representable)"""
    q = Fraction(q)
    if q.denominator == 1 and not as_float:
        return int(q.numerator)
    return q.numerator / q.denominator


# ------------------------------------------------------------------ element types (R1) and scales (R6)
NP_TYPES = [('b', np.int8), ('B', np.uint8), ('h', np.int16), ('H', np.uint16), ('w', np.int32), ('q', np.int64),
            ('P', np.intp), ('x', np.float16), ('e', np.float32), ('d', np.float64)]
NP_BY_LETTER = dict(NP_TYPES)


def np_letters(q):
    """the numpy scalar types (plus 'z' = 0-d array) that hold the rational q exactly"""
    q = Fraction(q)
    out = []
    for letter, T in NP_TYPES:
        if issubclass(T, np.integer):
            info = np.iinfo(T)
            if q.denominator == 1 and info.min <= q <= info.max:
                out.append(letter)
        else:
            with np.errstate(all='ignore'):
                x = T(q.numerator / q.denominator)
            if np.isfinite(x) and Fraction(float(x)) == q:
                out.append(letter)
    out.append('z')
    return out


def choose_tag(q, k, ints_only=False):
    """ints_only: integer types only (a CHOICE index given as a float is rejected by design)"""
    ls = np_letters(q)
    if ints_only:
        ls = [c for c in ls if c in 'bBhHwqPz'] or ['p']
        if Fraction(q) in (0, 1):
            ls = ls + ['o']                      # a bool index counts choice 0 / 1
    return ls[k % len(ls)]


def np_cast(q, letter):
    """the rational q as a Python number ('p'), a numpy scalar of the given type, or a 0-d array ('z')"""
    q = Fraction(q)
    if letter == 'p':
        return pynum(q)
    if letter == 'z':
        return np.array(pynum(q))
    if letter == 'o':
        assert q in (0, 1)
        return bool(q)
    T = NP_BY_LETTER[letter]
    x = T(int(q)) if issubclass(T, np.integer) else T(q.numerator / q.denominator)
    assert Fraction(int(x) if issubclass(T, np.integer) else float(x)) == q, (q, letter)
    return x


def tag_update(rng, op, im):
    """with some probability pass the value/total of an update op as numpy scalars (5th field)"""
    t = op.split(',')
    if t[0] == 'u' and len(t) == 4 and rng.chance(0.4):
        k = rng.below(64)
        try:
            ints = int(im.ref(t[1])._update_type_code) == TY['choice'] and Fraction(t[2]).denominator == 1
        except (KeyError, IndexError):
            return op
        return op + ',' + choose_tag(t[2], k, ints) + ('p' if t[3] == '-' else choose_tag(t[3], k // 7))
    return op


SCALES = [(0, 0), (0, 0), (0, 0), (-40, 0), (40, 0), (0, 40), (40, 40), (-40, -40), (20, -20), (-20, 34)]


def pick_scale(rng):
    """binary exponents (value, total): 2^40 ~ 1e12, 2^-40 ~ 1e-12 (powers of two keep binary64 exact)"""
    return rng.choice(SCALES)


def scaled(q, e):
    return q * (Fraction(2) ** e)


# ------------------------------------------------------------------ parameter names
def enc_name(nm):
    """protocol token of a parameter name: hex of its UTF-8 bytes (order isomorphic to the code point order)"""
    return nm.encode('utf-8').hex()


def dec_name(tokn):
    return bytes.fromhex(tokn).decode('utf-8')


NAME_POOLS = [
    ('plain', ['p', 'q', 'r']),
    ('digits', ['user2', 'user10', 'user1']),           # numeric suffixes of different lengths
    ('digits', ['ant4', 'ant16', 'ant160']),
    ('digits', ['x9', 'x10', 'x100']),
    ('case', ['a', 'B', 'c']),                          # sorted() is case sensitive: 'B' < 'a'
    ('case', ['snr', 'SNR', 'Snr']),                    # equal up to case
    ('prefix', ['snr', 'snr2', 'snr10']),               # prefixes of each other
    ('leading', ['_p', '1p', 'p']),                     # leading underscore / digit
    ('unicode', ['\u00e9', 'z', '\u00fc']),             # beyond ASCII: code point order
    ('unicode', ['\u03b1', 'a2', 'a10']),
]


def pick_names(rng, n):
    kind, pool = rng.choice(NAME_POOLS)
    names = list(pool)
    rng.shuffle(names)
    return kind, names[:n]


# ------------------------------------------------------------------ state of a real Result
def res_state(r):
    res, _ = _impl()
    ty = r._update_type_code
    if ty == res.Result.CHOICETYPE:
        value, counts = 0, [int(c) for c in np.asarray(r._value).tolist()]
    else:
        value, counts = r._value, []
    return (r.name, int(ty), rsx(value), tuple(counts), rsx(r._total), rsx(r._result_sum),
            rsx(r._result_squared_sum), int(r.num_updates), bool(r._accumulate_values_bool),
            tuple(rsx(v) for v in r._value_list), tuple(rsx(v) for v in r._total_list))


def params_state(p):
    """canonical: names hex encoded, in Python's sorted() order of the names"""
    fixed, unp = [], []
    for k in sorted(p.parameters.keys()):
        v = p.parameters[k]
        if k in p._unpacked_parameters_set:
            unp.append((enc_name(k), tuple(rs(fr(x)) for x in np.asarray(v).ravel().tolist())))
        else:
            fixed.append((enc_name(k), int(v)))
    return (tuple(fixed), tuple(unp))


def show_get(r):
    with warnings.catch_warnings():
        warnings.simplefilter('ignore')
        with np.errstate(all='ignore'):
            v = r.get_result()
    if isinstance(v, str):
        return 'nothing'
    if isinstance(v, np.ndarray):
        if not np.all(np.isfinite(v)):
            return 'error:ZeroDivisionError'
        return 'arr:' + ':'.join(rs(fr(x)) for x in v.tolist())
    return 'num:' + rs(fr(v))


# ------------------------------------------------------------------ non-mutating API (R11)
def query_result(r):
    """every public query of a Result; none of them may change anything (exceptions are fine)"""
    import pickle
    for f in (lambda: repr(r), lambda: str(r), lambda: r == r, lambda: r != copy.deepcopy(r), lambda: r.get_result(),
              lambda: r.get_result_mean(), lambda: r.get_result_var(), lambda: r.get_confidence_interval(),
              lambda: r.get_confidence_interval(P=90.0), lambda: r.type_name, lambda: r.type_code,
              lambda: r.accumulate_values_bool, lambda: list(r.get_result_accumulated_values()),
              lambda: list(r.get_result_accumulated_totals()), lambda: pickle.dumps(r), lambda: r == 5,
              lambda: r.to_dict()):
        try:
            with warnings.catch_warnings():
                warnings.simplefilter('ignore')
                with np.errstate(all='ignore'):
                    f()
        except Exception:
            pass


def query_params(p):
    for f in (lambda: repr(p), lambda: len(p), lambda: list(p), lambda: p == p, lambda: p != copy.deepcopy(p),
              lambda: p.unpacked_parameters, lambda: p.fixed_parameters, lambda: p.get_num_unpacked_variations(),
              lambda: p.get_unpacked_params_list(), lambda: p.unpack_index,
              lambda: [p.get_pack_indexes(c.parameters) for c in p.get_unpacked_params_list()[:3]],
              lambda: p.get_pack_indexes({})):
        try:
            f()
        except Exception:
            pass


def query_sim(s):
    import pickle
    for f in (lambda: repr(s), lambda: len(s), lambda: [len(l) for l in s], lambda: s == s,
              lambda: s != copy.deepcopy(s), lambda: s.get_result_names(), lambda: s.params,
              lambda: [s.get_result_values_list(nm) for nm in s.get_result_names()],
              lambda: [s.get_result_values_confidence_intervals(nm, P=95.0) for nm in s.get_result_names()],
              lambda: [s[nm] for nm in s.get_result_names()], lambda: pickle.dumps(s),
              lambda: s.get_filename_with_replaced_params('x_{f}')):
        try:
            with warnings.catch_warnings():
                warnings.simplefilter('ignore')
                with np.errstate(all='ignore'):
                    f()
        except Exception:
            pass
    query_params(s.params)
    for lst in s._results.values():
        for r in lst[:2]:
            query_result(r)


def round_trip(obj, how):
    """an independent equal object: deep copy (how even) or pickle round trip (how odd)"""
    import pickle
    return copy.deepcopy(obj) if how % 2 == 0 else pickle.loads(pickle.dumps(obj))


def build_params(par, fixed_items, unp_items, path):
    """R8: the same parameters configured through the constructor path (create), the setter path (add), or by
    later replacement (wrong values first, unpack flags toggled)"""
    if path == 0:
        d = dict(fixed_items)
        d.update(dict(unp_items))
        p = par.SimulationParameters.create(d)
        for a, _ in unp_items:
            p.set_unpack_parameter(a)
    elif path == 1:
        p = par.SimulationParameters()
        for a, v in unp_items:
            p.add(a, v)
        for a, v in fixed_items:
            p.add(name=a, value=v)
        for a, _ in unp_items:
            p.set_unpack_parameter(name=a, unpack_bool=True)
    else:
        d = {a: [9, 8, 7] for a, _ in unp_items}
        d.update({a: -1 for a, _ in fixed_items})
        p = par.SimulationParameters.create(d)
        for a, _ in unp_items:
            p.set_unpack_parameter(a)
            p.set_unpack_parameter(a, False)
        for a, v in fixed_items:
            p[a] = v
        for a, v in unp_items:
            p.add(a, v)
            p.set_unpack_parameter(a, True)
            p.set_unpack_parameter(a)
    return p


# ------------------------------------------------------------------ the real code under a script
class Impl:
    """executes protocol ops on the real classes"""

    last = None            # the most recent instance (to recover the script when a generator fails)

    def __init__(self):
        self.rv, self.sims, self.errs, self.outs = [], [], [], []
        self.n = 0
        self.hung = False
        self.log = []
        Impl.last = self

    def ref(self, ref):
        if ref[0] == 'r':
            return self.rv[int(ref[1:])]
        s, nm, k = ref[1:].split('.')
        lst = self.sims[int(s)]._results[nm]
        return lst[-1] if k == 'L' else lst[int(k)]

    def step(self, op):
        res, par = _impl()
        R, S = res.Result, res.SimulationResults
        t = op.split(',')
        i = self.n
        self.n += 1
        self.log.append(op)
        try:
            k = t[0]
            if k == 'ro':
                # the same result set with its results added in another order (harness-side re-creation of
                # the dictionary; not a library call, so it is outside the exception capture below)
                sim = self.sims[int(t[1])]
                order = [x for x in t[2].split(':') if x != '']
                assert sorted(order) == sorted(sim._results.keys())
                sim._results = {nm: sim._results[nm] for nm in order}
            elif k == 'nr':
                cn = None if t[4] == '-' else int(t[4])
                if cn is not None and len(t) > 5 and t[5] != 'p':
                    cn = NP_BY_LETTER[t[5]](cn)              # R9: the count as a numpy integer
                    self.np_counts = getattr(self, 'np_counts', 0) + 1
                form = i % 3                                 # R8: positional / keyword / mixed
                if form == 0:
                    r = R(t[1], int(t[2]), t[3] == '1', cn)
                elif form == 1:
                    r = R(name=t[1], update_type_code=int(t[2]), accumulate_values=(t[3] == '1'), choice_num=cn)
                elif t[3] == '0' and cn is None:
                    r = R(t[1], int(t[2]))                   # defaults left alone
                else:
                    r = R(t[1], int(t[2]), accumulate_values=(t[3] == '1'), choice_num=cn)
                self.rv.append(r)
            elif k == 'cr':
                v, tt = pynum(Fraction(t[4])), pynum(Fraction(t[5]))
                form = i % 3
                if form == 0:
                    r = R.create(t[1], int(t[2]), v, tt, t[3] == '1')
                elif form == 1:
                    r = R.create(name=t[1], update_type=int(t[2]), value=v, total=tt, accumulate_values=(t[3] == '1'))
                elif tt == 0 and t[3] == '0':
                    r = R.create(t[1], int(t[2]), v)         # total and accumulate_values left at their defaults
                else:
                    r = R.create(t[1], int(t[2]), v, total=tt, accumulate_values=(t[3] == '1'))
                self.rv.append(r)
            elif k == 'an':
                v, tt = pynum(Fraction(t[4])), pynum(Fraction(t[5]))
                sim = self.sims[int(t[1])]
                if i % 3 == 0:
                    sim.add_new_result(t[2], int(t[3]), v, tt)
                elif i % 3 == 1:
                    sim.add_new_result(name=t[2], update_type=int(t[3]), value=v, total=tt)
                elif tt == 0:
                    sim.add_new_result(t[2], int(t[3]), v)
                else:
                    sim.add_new_result(t[2], int(t[3]), value=v, total=tt)
            elif k == 'cp':
                self.rv.append(round_trip(self.ref(t[1]), i))
            elif k == 'cps':
                self.sims.append(round_trip(self.sims[int(t[1])], i))
            elif k == 'q':
                query_result(self.ref(t[1]))
            elif k == 'qs':
                query_sim(self.sims[int(t[1])])
            elif k == 'u':
                tag = t[4] if len(t) > 4 else 'pp'
                if tag != 'pp':
                    self.np_updates = getattr(self, 'np_updates', 0) + 1
                tt = None if t[3] == '-' else np_cast(t[3], tag[1])
                v = np_cast(t[2], tag[0])
                form = i % 4                                 # R8: positional / keyword / default / explicit None
                if form == 1:
                    self.ref(t[1]).update(value=v, total=tt)
                elif form == 2 and tt is None:
                    self.ref(t[1]).update(v)
                elif form == 3:
                    self.ref(t[1]).update(v, total=tt)
                else:
                    self.ref(t[1]).update(v, tt)
            elif k == 'm':
                self.ref(t[1]).merge(self.ref(t[2]))
            elif k == 'ns':
                self.sims.append(S())
            elif k == 'sp':
                d, unp = {}, []
                if t[2] != '-':
                    for e in t[2].split('&'):
                        a, b = e.split('=')
                        d[dec_name(a)] = int(b)
                if t[3] != '-':
                    dts = t[4] if len(t) > 4 else ''
                    for j, e in enumerate(t[3].split('&')):
                        a, b = e.split('=')
                        a = dec_name(a)
                        d[a] = make_array([x for x in b.split(':') if x != ''], dts[j] if j < len(dts) else None)
                        unp.append(a)
                p = build_params(par, [(a, v) for a, v in d.items() if a not in unp], [(a, d[a]) for a in unp], i % 3)
                self.sims[int(t[1])].set_parameters(p)
            elif k == 'ad':
                self.sims[int(t[1])].add_result(self.ref(t[2]))
            elif k == 'ap':
                self.sims[int(t[1])].append_result(self.ref(t[2]))
            elif k == 'aa':
                s, o = self.sims[int(t[1])], self.sims[int(t[2])]
                # guard against the non-terminating loop (a list extended while iterated)
                for lst in o._results.values():
                    if any(s._results.get(r.name) is lst for r in lst):
                        self.hung = True
                        raise _Fuel()
                s.append_all_results(o)
            elif k == 'ma':
                self.sims[int(t[1])].merge_all_results(self.sims[int(t[2])])
            elif k == 'cb':
                u = res.combine_simulation_results(self.sims[int(t[1])], self.sims[int(t[2])])
                self.sims.append(u)
            elif k == 'up':
                names = self.sims[int(t[1])].params.unpacked_parameters
                self.outs.append('%d:names:%s' % (i, '&'.join(enc_name(nm) for nm in names)))
            elif k == 'g':
                self.outs.append('%d:%s' % (i, show_get(self.ref(t[1]))))
            elif k == 'mn':
                self.outs.append('%d:%s' % (i, rs(fr(self.ref(t[1]).get_result_mean()))))
            elif k == 'vr':
                self.outs.append('%d:%s' % (i, rs(fr(self.ref(t[1]).get_result_var()))))
            elif k == 'eq':
                self.outs.append('%d:%s' % (i, 'True' if self.ref(t[1]) == self.ref(t[2]) else 'False'))
            else:
                raise core.Infra('unknown op ' + op)
        except core.Infra:
            raise
        except _Fuel:
            self.errs.append('%d:Fuel' % i)
        except BaseException as e:   # SyntaxError is not an Exception subclass issue, but be safe
            if isinstance(e, (KeyboardInterrupt, SystemExit, MemoryError)):
                raise
            if t[0] in ('g', 'mn', 'vr', 'eq'):
                self.outs.append('%d:error:%s' % (i, type(e).__name__))
            else:
                self.errs.append('%d:%s' % (i, type(e).__name__))

    def canon(self):
        rid, lid, states = {}, {}, []

        def R(o):
            if id(o) not in rid:
                rid[id(o)] = len(rid)
                states.append(res_state(o))
            return rid[id(o)]

        rvs = tuple(R(o) for o in self.rv)
        sims = []
        for s in self.sims:
            ent = []
            for nm, lst in s._results.items():
                if id(lst) not in lid:
                    lid[id(lst)] = len(lid)
                ent.append((nm, lid[id(lst)], tuple(R(o) for o in lst)))
            sims.append((tuple(ent), params_state(s.params)))
        return {'errs': tuple(self.errs), 'outs': tuple(self.outs), 'rv': rvs, 'sims': tuple(sims),
                'res': tuple(states)}


class _Fuel(Exception):
    pass


# ------------------------------------------------------------------ the model's reply
def parse_model(reply):
    if reply == 'bad-op':
        return {'bad-op': True}
    sec = {}
    for part in reply.split('|'):
        k, _, v = part.partition('=')
        sec[k] = v
    res = []
    if sec['R'] != '':
        for r in sec['R'].split('#'):
            f = r.split(',')
            res.append((f[0], int(f[1]), f[2], tuple(int(x) for x in f[3].split(':') if x != ''), f[4], f[5], f[6],
                        int(f[7]), f[8] == '1', tuple(x for x in f[9].split(':') if x != ''),
                        tuple(x for x in f[10].split(':') if x != '')))
    lists = []
    if sec['L'] != '':
        # every list object is printed as 'l' + its ':'-separated elements
        lists = [tuple(int(x) for x in l[1:].split(':') if x != '') for l in sec['L'].split('#')]
    sims = []
    if sec['S'] != '':
        for s in sec['S'].split('#'):
            d, _, p = s.partition('@')
            ent = []
            if d != '':
                for e in d.split(','):
                    nm, _, l = e.partition('>')
                    ent.append((nm, int(l)))
            fx, _, un = p.partition('~')
            fixed = tuple((e.split('=')[0], int(e.split('=')[1])) for e in fx.split('&') if e != '')
            unp = tuple((e.split('=')[0], tuple(rs(Fraction(x)) for x in e.split('=')[1].split(':') if x != ''))
                        for e in un.split('&') if e != '')
            sims.append((ent, (fixed, unp)))
    rv = [int(x) for x in sec['V'].split(',') if x != '']
    # canonical renaming by first visit: r-variables, then sims in order
    rid, lid, states = {}, {}, []

    def R(a):
        if a not in rid:
            rid[a] = len(rid)
            states.append(res[a])
        return rid[a]

    rvs = tuple(R(a) for a in rv)
    csims = []
    for ent, p in sims:
        ce = []
        for nm, l in ent:
            if l not in lid:
                lid[l] = len(lid)
            ce.append((nm, lid[l], tuple(R(a) for a in lists[l])))
        csims.append((tuple(ce), p))
    return {'errs': tuple(x for x in sec['E'].split(';') if x != ''),
            'outs': tuple(x for x in sec['O'].split(';') if x != ''),
            'rv': rvs, 'sims': tuple(csims), 'res': tuple(states)}


def out_close(x, y):
    """observer outputs: the code divides in binary64, the model in Q -> tolerance 1e-9 (values only;
    kinds, shapes, exceptions and positions are compared exactly)"""
    if x == y:
        return True
    i, _, u = x.partition(':')
    j, _, v = y.partition(':')
    if i != j:
        return False
    ku, _, pu = u.rpartition('num:') if u.startswith('num:') else ('', '', u)
    if u.startswith('arr:') != v.startswith('arr:') or u.startswith('num:') != v.startswith('num:'):
        return False
    if u.startswith('error') or v.startswith('error') or u in ('nothing', 'True', 'False') \
            or v in ('nothing', 'True', 'False'):
        return False
    for pre in ('num:', 'arr:'):
        if u.startswith(pre):
            u, v = u[len(pre):], v[len(pre):]
    us, vs = u.split(':'), v.split(':')
    if len(us) != len(vs):
        return False
    try:
        return all(core.close(float(Fraction(p)), float(Fraction(q))) for p, q in zip(us, vs))
    except (ValueError, ZeroDivisionError):
        return False


def first_diff(a, b):
    if a.get('bad-op') or b.get('bad-op'):
        return 'bad-op'
    if len(a['outs']) == len(b['outs']) and all(out_close(x, y) for x, y in zip(a['outs'], b['outs'])):
        b = dict(b, outs=a['outs'])
    for k in ('errs', 'outs', 'rv', 'sims', 'res'):
        if a[k] != b[k]:
            x, y = a[k], b[k]
            if isinstance(x, tuple) and isinstance(y, tuple) and len(x) == len(y):
                for j, (u, v) in enumerate(zip(x, y)):
                    if u != v:
                        return '%s[%d]: impl=%r model=%r' % (k, j, u, v)
            return '%s: impl=%r model=%r' % (k, x, y)
    return None


# ------------------------------------------------------------------ generators (script built while running the code)
def gen_obs(rng, ty, cn, malformed=0.0, scale=None):
    """(value token, total token) of one update call"""
    if ty == TY['choice']:
        if rng.chance(malformed):
            return rng.choice([(tok(cn + rng.below(3)), '-'), (tok(-cn - 1 - rng.below(2)), '-'), ('1/2', '-')])
        if cn > 0 and rng.chance(0.1):
            return tok(-1 - rng.below(cn)), '-'          # negative index: numpy wraps
        if cn == 0:
            return '0', '-'
        return tok(rng.below(cn)), '-'
    ev, et = scale or (0, 0)
    if rng.chance(0.25):
        v = Fraction(rng.randint(-64, 640), 1 << rng.randint(1, 4))
    elif rng.chance(0.1):
        v = Fraction(0)                                   # boundary: value 0
    else:
        v = Fraction(rng.randint(-20, 200))
    v = scaled(v, ev)
    if ty == TY['ratio']:
        if rng.chance(malformed):
            return tok(v), rng.choice(['-', '0'])
        t = Fraction(1 << rng.randint(0, 6))
        if rng.chance(0.1):
            t = -t
        if rng.chance(0.1):
            t = t / 4
        return tok(v), tok(scaled(t, et))
    if ty == TY['sum'] and rng.chance(0.2):
        return tok(v), tok(rng.randint(0, 5))           # ignored for SUM
    return tok(v), '-'


def gen_result_script(rng, long=False):
    """Result level: a few objects, updates, merges in arbitrary order, observers"""
    im = Impl()
    ops = []

    sc = pick_scale(rng)

    def do(op):
        op = tag_update(rng, op, im)
        ops.append(op)
        im.step(op)

    ty = rng.choice([0, 1, 2, 3])
    acc = rng.chance(0.5)
    cn = rng.randint(1, 5)
    k = rng.randint(2, 5)
    specs = []
    for j in range(k):
        t_j, a_j, c_j, nm = ty, acc, cn, 'x'
        if rng.chance(0.06):
            t_j = rng.choice([0, 1, 2, 3])
        if rng.chance(0.08):
            a_j = not acc
        if rng.chance(0.06):
            c_j = rng.choice([0, 1, cn + 1])
        if rng.chance(0.04):
            nm = 'y'
        cnt = '-' if (t_j != 3 and rng.chance(0.7)) else str(c_j)
        if t_j == 3 and rng.chance(0.03):
            cnt = '-'                                   # RuntimeError: choice_num missing
        if rng.chance(0.25):
            # R8: Result.create(name, type, value, total, accumulate_values) instead of constructor + update
            v, tt = gen_obs(rng, t_j, c_j, scale=sc)
            if t_j == 3:
                tt = str(c_j) if rng.chance(0.9) else rng.choice(['0', '1/2'])
            elif tt == '-':
                tt = '0'
            do('cr,%s,%d,%d,%s,%s' % (nm, t_j, 1 if a_j else 0, v, tt))
        elif cnt != '-' and rng.chance(0.4):
            do('nr,%s,%d,%d,%s,%s' % (nm, t_j, 1 if a_j else 0, cnt, rng.choice('bhwqP')))   # R9 numpy count
        else:
            do('nr,%s,%d,%d,%s' % (nm, t_j, 1 if a_j else 0, cnt))
        if len(im.rv) > len(specs):
            specs.append((t_j, c_j))
    nsteps = rng.randint(4, 60 if long else 25)
    for _ in range(nsteps):
        if not im.rv:
            break
        a = rng.below(len(im.rv))
        x = rng.uniform()
        if x < 0.65:
            v, t = gen_obs(rng, specs[a][0], specs[a][1], malformed=0.05, scale=sc)
            do('u,r%d,%s,%s' % (a, v, t))
        elif x < 0.86:
            b = rng.below(len(im.rv))
            if b == a and rng.chance(0.8):
                b = (a + 1) % len(im.rv)
            do('m,r%d,r%d' % (a, b))
        elif x < 0.91:
            do('q,r%d' % a)                       # R11: queries between the mutators
        elif x < 0.94 and len(im.rv) < 9:
            do('cp,r%d' % a)                      # R13: a copy / pickle round trip lives on as its own object
            if len(im.rv) > len(specs):
                specs.append(specs[a])
        else:
            do(rng.choice(['g', 'mn', 'vr']) + ',r%d' % a)
    for a in range(len(im.rv)):
        do('g,r%d' % a)
        do('mn,r%d' % a)
        do('vr,r%d' % a)
    for _ in range(2):
        if im.rv:
            do('eq,r%d,r%d' % (rng.below(len(im.rv)), rng.below(len(im.rv))))
    im.scale = sc
    return ops, im


def gen_sim_script(rng, long=False):
    """SimulationResults level: add / append / merge_all / append_all with sharing"""
    im = Impl()
    ops = []

    sc = pick_scale(rng)

    def do(op):
        op = tag_update(rng, op, im)
        ops.append(op)
        im.step(op)

    names = ['a', 'b', NSR] if rng.chance(0.6) else ['a', 'b', 'c']
    spec = {}
    for nm in names:
        spec[nm] = (TY['sum'] if nm == NSR else rng.choice([0, 1, 2, 3]), rng.chance(0.3), rng.randint(1, 4))
    nsims = rng.randint(2, 5)
    for _ in range(nsims):
        do('ns')

    def new_result(nm):
        ty, acc, cn = spec[nm]
        if rng.chance(0.04):
            ty = rng.choice([0, 1, 2, 3])
        do('nr,%s,%d,%d,%s' % (nm, ty, 1 if acc else 0, str(cn) if ty == 3 else '-'))
        a = len(im.rv) - 1
        for _ in range(rng.randint(0, 4)):
            v, t = gen_obs(rng, ty, cn, scale=sc)
            do('u,r%d,%s,%s' % (a, v, t))
        return a

    # populate: most sims get every name once (the runner's shape); some stay empty; some get fewer names
    for s in range(nsims):
        x = rng.uniform()
        if x < 0.2:
            continue
        order = list(names)
        rng.shuffle(order)                       # every result set is filled in its own name order
        for nm in order:
            if nm == NSR and rng.chance(0.5):
                continue
            if x > 0.9 and rng.chance(0.3):
                continue
            a = new_result(nm)
            do(('ad,%d,r%d' if rng.chance(0.7) else 'ap,%d,r%d') % (s, a))
            if rng.chance(0.15):
                a = new_result(nm)
                do('ap,%d,r%d' % (s, a))
    nsteps = rng.randint(3, 24 if long else 10)
    for _ in range(nsteps):
        x = rng.uniform()
        s, o = rng.below(nsims), rng.below(nsims)
        if rng.chance(0.08) and len(im.sims[o]._results) >= 2:
            keys = list(im.sims[o]._results.keys())
            rng.shuffle(keys)
            do('ro,%d,%s' % (o, ':'.join(keys)))
        if x < 0.55:
            if s == o and rng.chance(0.9):
                o = (s + 1) % nsims
            do('ma,%d,%d' % (s, o))
        elif x < 0.7:
            if s == o:
                o = (s + 1) % nsims
            do('aa,%d,%d' % (s, o))
            if im.hung:
                break
        elif x < 0.9:
            # update some reachable object through a path (e.g. the runner's num_skipped_reps[-1].update(1))
            cand = [(si, nm) for si, sm in enumerate(im.sims) for nm in sm._results.keys()]
            if cand:
                si, nm = rng.choice(cand)
                r = im.sims[si]._results[nm][-1]
                ty = int(r._update_type_code)
                cn = len(r._value) if ty == 3 else 0
                v, t = gen_obs(rng, ty, cn, scale=sc)
                do('u,s%d.%s.%s,%s,%s' % (si, nm, rng.choice(['L', '0']), v, t))
        elif x < 0.95:
            nm = rng.choice(names)
            a = new_result(nm)
            do(('ap,%d,r%d' if rng.chance(0.7) else 'ad,%d,r%d') % (s, a))
        elif x < 0.975:
            nm = rng.choice(names)
            ty, acc, cn = spec[nm]
            v, tt = gen_obs(rng, ty, cn, scale=sc)
            do('an,%d,%s,%d,%s,%s' % (s, nm, ty, v, str(cn) if ty == 3 else ('0' if tt == '-' else tt)))
        else:
            do('qs,%d' % s)
            if len(im.sims) < 8 and rng.chance(0.5):
                do('cps,%d' % s)
                nsims = len(im.sims)
    for si, sm in enumerate(im.sims):
        for nm in list(sm._results.keys())[:3]:
            do('g,s%d.%s.L' % (si, nm))
            do('mn,s%d.%s.L' % (si, nm))
    im.scale = sc
    return ops, im


ARRAY_KINDS = {'i': np.int64, 'f': np.float64, 'b': np.int8, 'B': np.uint8, 'h': np.int16, 'w': np.int32,
               'e': np.float32}


def array_letters(qs):
    """the container kinds (R1/R2) able to hold these exact values: dtypes, Python list / tuple,
    's' non-contiguous (strided) view, 'r' reversed view of a reversed copy, 'c' (N,1) column"""
    out = []
    for letter, T in ARRAY_KINDS.items():
        ok = True
        for q in qs:
            if issubclass(T, np.integer):
                info = np.iinfo(T)
                ok = ok and q.denominator == 1 and info.min <= q <= info.max
            else:
                x = T(q.numerator / q.denominator)
                ok = ok and bool(np.isfinite(x)) and Fraction(float(x)) == q
        if ok:
            out.append(letter)
    return out + ['l', 't', 's', 'r', 'c', 'm']


def make_array(tokens, dtype=None):
    """the value container of an unpacked parameter from exact value tokens (see array_letters);
    default: int64 when every value is integral, else binary64"""
    qs = [Fraction(x) for x in tokens]
    if dtype is None:
        dtype = 'i' if all(q.denominator == 1 for q in qs) else 'f'
    if dtype in ('l', 't'):
        vals = [pynum(q) for q in qs]
        return vals if dtype == 'l' else tuple(vals)
    if dtype == 'm':
        # R10: a list whose elements differ in type (Python int/float, numpy scalars of several widths)
        out = []
        for j, q in enumerate(qs):
            ls = ['p'] + [c for c in np_letters(q) if c != 'z']
            out.append(np_cast(q, ls[(j * 5 + 1) % len(ls)]))
        return out
    if dtype in ('s', 'r', 'c'):
        base = make_array(tokens, None)
        if dtype == 's':                      # every second element of a longer buffer: not contiguous
            buf = np.zeros(2 * len(base) + 1, dtype=base.dtype)
            buf[::2][:len(base)] = base
            out = buf[::2][:len(base)]
            assert len(base) < 2 or not out.flags['C_CONTIGUOUS']
            return out
        if dtype == 'r':
            return base[::-1].copy()[::-1]    # negative stride
        return base.reshape(-1, 1)            # (N,1): each "value" is a one-element row
    T = ARRAY_KINDS[dtype]
    if issubclass(T, np.integer):
        out = np.array([int(q) for q in qs], dtype=T)
    else:
        out = np.array([q.numerator / q.denominator for q in qs], dtype=T)
    assert [fr(x) for x in out.tolist()] == qs, 'value not representable in the container'
    return out


def value_pool(rng):
    """(kind, distinct candidate values of one unpacked parameter as exact Fractions, forced dtype or None).
    Both operands draw from the same pool, so values overlap; the float pools hold values that are
    distinct but close (within np.isclose defaults, down to one ulp)"""
    kind = rng.choice(['int', 'int', 'tiny', 'big', 'ulp', 'mixed', 'dyadic', 'tiny', 'big'])
    if kind == 'int':
        return kind, [Fraction(v) for v in range(1, 7)], 'i'
    if kind == 'dyadic':
        return kind, [Fraction(v, 8) for v in (1, 2, 3, 8, 9, 20)], 'f'
    if kind == 'mixed':                      # 2 (int array) and 2.0 (float array) are the same value
        return kind, [Fraction(1), Fraction(2), Fraction(5, 2), Fraction(3), Fraction(7, 2), Fraction(4)], None
    if kind == 'tiny':                       # linear noise powers: everything within atol=1e-8
        scale = rng.choice([1e-9, 1e-12, 3e-10])
        vals = [scale * m for m in (1.0, 2.0, 4.0, 3.0, 1.5, 8.0)]
    elif kind == 'big':                      # carrier frequencies: relative gaps 1e-6 .. 1e-12
        base = rng.choice([2.4e9, 5.0e9, 1.0e9])
        vals = [base, base * (1 + 1e-6), base * (1 + 1e-9), base * (1 + 1e-12), base + 1.0, base * (1 - 1e-7)]
        if abs(base - 2.4e9) < 1:
            vals[1] = 2.40001e9
    else:                                    # neighbouring doubles
        x = rng.uniform(0.1, 100.0) * rng.choice([1.0, 1e-9, 1e9])
        vals = [x]
        for _ in range(5):
            vals.append(float(np.nextafter(vals[-1], np.inf)))
    out = []
    for v in vals:
        q = Fraction(float(v))
        if q not in out:
            out.append(q)
    return kind, out, 'f'


def pick_values(rng, pool, forced, dup=0.06):
    k = rng.randint(1, min(3, len(pool)))
    vals = []
    while len(vals) < k:
        v = rng.choice(pool)
        if v not in vals or rng.chance(dup):      # rare duplicate value (first match wins in the code)
            vals.append(v)
    if rng.chance(0.03):
        vals = []                                 # boundary: no value at all
    dt = forced
    if dt is None:
        dt = 'i' if all(v.denominator == 1 for v in vals) and rng.chance(0.6) else 'f'
    if rng.chance(0.45):                          # R1/R2: another dtype / container / layout for the same values
        cands = array_letters(vals)
        if forced == 'f':                         # keep float pools float (the int twin is another value class)
            cands = [c for c in cands if c in ('f', 'e', 's', 'r', 'l', 't', 'c', 'm')]
            if any(v.denominator == 1 for v in vals):
                cands = [c for c in cands if c in ('f', 'e')]
        dt = rng.choice(cands)
    return vals, dt


def gen_combine_script(rng, long=False):
    im = Impl()
    ops = []

    sc = pick_scale(rng)

    def do(op):
        op = tag_update(rng, op, im)
        ops.append(op)
        im.step(op)

    nunp = rng.choice([0, 1, 1, 2, 2]) if not long else rng.choice([0, 1, 2, 2, 3])
    nkind, pn = pick_names(rng, nunp)             # real names, in dictionary (insertion) order
    im.name_kind = nkind if nunp >= 2 else None
    names = ['a', 'b', 'c'][:rng.choice([1, 2, 2, 3])]
    spec = {nm: (rng.choice([0, 1, 2, 3]), rng.chance(0.25), rng.randint(1, 4)) for nm in names}
    if rng.chance(0.6):
        # same type / flags / number of choices for every name: a cross-name merge would not even raise
        one = spec[names[0]]
        spec = {nm: one for nm in names}
    fixed = '%s=%d' % (enc_name('f'), rng.randint(1, 3))
    pools = [value_pool(rng) for _ in range(nunp)]
    for s in range(2):
        do('ns')
        picked = [pick_values(rng, pools[j][1], pools[j][2]) for j in range(nunp)]
        grid = [pv[0] for pv in picked]
        dts = ''.join(pv[1] for pv in picked)
        fx = fixed
        if rng.chance(0.04):
            fx = '%s=9' % enc_name('f')
        if rng.chance(0.03):
            fx = fixed + '&%s=1' % enc_name(rng.choice(['g', 'F', 'f2']))
        order = list(range(nunp))
        if s == 1:
            rng.shuffle(order)                    # the second operand's dictionary has another insertion order
        unp = '&'.join('%s=%s' % (enc_name(pn[j]), ':'.join(tok(v) for v in grid[j])) for j in order) or '-'
        dts = ''.join(picked[j][1] for j in order)
        do('sp,%d,%s,%s%s' % (s, fx, unp, (',' + dts) if dts else ''))
        if rng.chance(0.3):
            do('up,%d' % s)
        size = 1
        for g in grid:
            size *= len(g)
        if rng.chance(0.03):
            size = max(0, size - 1)
        nms = list(names)
        rng.shuffle(nms)                         # every operand adds its results in its own name order
        if len(nms) >= 2 and s == 1 and nms != [e for e in im.sims[0]._results.keys()]:
            im.order_differs = True
        if rng.chance(0.03):
            nms = nms[:-1] + ['z']
        for nm in nms:
            ty, acc, cn = spec.get(nm, (0, False, 1))
            if rng.chance(0.02):
                ty = rng.choice([0, 1, 2, 3])
            for _ in range(size):
                do('nr,%s,%d,%d,%s' % (nm, ty, 1 if acc else 0, str(cn) if ty == 3 else '-'))
                a = len(im.rv) - 1
                for _ in range(rng.randint(0, 3)):
                    v, t = gen_obs(rng, ty, cn, scale=sc)
                    do('u,r%d,%s,%s' % (a, v, t))
                do('ap,%d,r%d' % (s, a))
    for sidx in (0, 1):
        keys = list(im.sims[sidx]._results.keys())
        if len(keys) >= 2 and rng.chance(0.25):
            rng.shuffle(keys)
            do('ro,%d,%s' % (sidx, ':'.join(keys)))
    if list(im.sims[0]._results.keys()) != list(im.sims[1]._results.keys()) and \
            sorted(im.sims[0]._results.keys()) == sorted(im.sims[1]._results.keys()):
        im.order_differs = True
    else:
        im.order_differs = False
    do('cb,0,1')
    for pl in pools:
        im.kinds = getattr(im, 'kinds', []) + [pl[0]]
    if len(im.sims) == 3:
        do('up,2')
        if rng.chance(0.3):
            do('qs,2')
            do('qs,0')
        if rng.chance(0.25):
            do('cps,2')                           # R13: round trip of the derived object
            do('cb,2,0')                          # … and the derived object used as an operand itself
        if rng.chance(0.3):
            # R13: the parents change after the child was derived
            for nm, lst in im.sims[0]._results.items():
                ty = int(lst[0]._update_type_code)
                cn = len(lst[0]._value) if ty == 3 else 0
                v, t = gen_obs(rng, ty, cn, scale=sc)
                do('u,s0.%s.0,%s,%s' % (nm, v, t))
        # touch the union: operands must not move (checked through the full dump)
        for nm, lst in im.sims[2]._results.items():
            for j in range(min(len(lst), 2)):
                ty = int(lst[j]._update_type_code)
                cn = len(lst[j]._value) if ty == 3 else 0
                v, t = gen_obs(rng, ty, cn, scale=sc)
                do('u,s2.%s.%d,%s,%s' % (nm, j, v, t))
            do('g,s2.%s.L' % nm)
        if rng.chance(0.3):
            do('ma,2,0')
    im.scale = sc
    return ops, im


# ------------------------------------------------------------------ merge trees
def gen_tree(rng, n, max_leaves, allow_empty=True):
    """split range(n) into contiguous chunks and build a random binary tree over them;
    returns nested tuples ('L', start, stop) / ('N', left, right)"""
    k = rng.randint(1, max(1, min(max_leaves, n + 2 if allow_empty else max(n, 1))))
    if allow_empty:
        cuts = sorted(rng.randint(0, n) for _ in range(k - 1))
    else:
        k = min(k, max(n, 1))
        cuts = sorted(set(rng.randint(1, max(1, n - 1)) for _ in range(k - 1))) if n > 1 else []
    bounds = [0] + cuts + [n]
    leaves = [('L', bounds[i], bounds[i + 1]) for i in range(len(bounds) - 1)]

    def build(ls):
        if len(ls) == 1:
            return ls[0]
        c = rng.randint(1, len(ls) - 1)
        return ('N', build(ls[:c]), build(ls[c:]))

    return build(leaves)


def tree_shape(t):
    if t[0] == 'L':
        return ['L%d' % (t[2] - t[1])]
    return ['N'] + tree_shape(t[1]) + tree_shape(t[2])


def tree_leaves(t):
    if t[0] == 'L':
        return [t]
    return tree_leaves(t[1]) + tree_leaves(t[2])


def make_result(ty, acc, cn, name='x'):
    res, _ = _impl()
    return res.Result(name, ty, accumulate_values=acc, choice_num=(cn if ty == TY['choice'] else None))


def feed(r, obs, np_salt=None):
    """update r with the observations; np_salt: pass values/totals as numpy scalars of rotating types"""
    for i, (v, t) in enumerate(obs):
        if np_salt is None:
            r.update(pynum(Fraction(v)), None if t == '-' else pynum(Fraction(t)))
        else:
            k = np_salt + i
            ints = int(r._update_type_code) == TY['choice'] and Fraction(v).denominator == 1
            r.update(np_cast(v, choose_tag(v, k, ints)), None if t == '-' else np_cast(t, choose_tag(t, k // 3)))
    return r


def deep_state(r):
    """attributes of a Result incl. the *contents* of its lists (deep copy semantics)"""
    return (res_state(r), copy.deepcopy(r._value_list), copy.deepcopy(r._total_list))


def shares_objects(a, b):
    """do two different Result objects share a mutable object (value/total list, CHOICE array)?"""
    if a is b:
        return False
    if a._value_list is b._value_list or a._total_list is b._total_list:
        return True
    if isinstance(a._value, np.ndarray) and isinstance(b._value, np.ndarray) and np.shares_memory(a._value, b._value):
        return True
    return False


class MergeLog:
    """every merged-in operand with its snapshot; re-checked after every later operation"""

    def __init__(self):
        self.ops = []          # (operand, snapshot, receiver)

    def merged(self, receiver, operand, snap):
        self.ops.append((operand, snap, receiver))
        self.recheck()

    def recheck(self):
        for k, (operand, snap, receiver) in enumerate(self.ops):
            if deep_state(operand) != snap:
                raise OperandMutated('operand of merge #%d changed (at or after the merge)%s' % (
                    k, '; it shares a list/array object with the receiver' if shares_objects(receiver, operand)
                    else ''))


def probe_obs(ty, cn):
    """one more valid update, used to continue a history after the checks"""
    return (0, None) if ty == TY['choice'] else (1, 2)


def eval_tree_impl(t, ty, acc, cn, obs, name='x', log=None, np_salt=None):
    """evaluates the merge tree on real objects; every merged-in operand is snapshotted before its merge
    and compared again after every later merge of the evaluation"""
    top = log is None
    log = MergeLog() if top else log
    if t[0] == 'L':
        return feed(make_result(ty, acc, cn, name), obs[t[1]:t[2]], None if np_salt is None else np_salt + t[1])
    a = eval_tree_impl(t[1], ty, acc, cn, obs, name, log, np_salt)
    b = eval_tree_impl(t[2], ty, acc, cn, obs, name, log, np_salt)
    snap = deep_state(b)
    a.merge(b)
    log.merged(a, b, snap)
    return a


class OperandMutated(Exception):
    pass


def expected_stats(ty, cn, obs):
    """sufficient statistics from first principles (Fractions)"""
    n = len(obs)
    vs = [Fraction(v) for v, _ in obs]
    if ty == TY['sum']:
        return dict(value=sum(vs), total=Fraction(0), n=n, rsum=sum(vs), rsq=sum(v * v for v in vs),
                    rabs=sum(abs(v) for v in vs))
    if ty == TY['ratio']:
        ts = [Fraction(t) for _, t in obs]
        q = [v / t for v, t in zip(vs, ts)]
        return dict(value=sum(vs), total=sum(ts), n=n, rsum=sum(q), rsq=sum(x * x for x in q),
                    rabs=sum(abs(x) for x in q))
    if ty == TY['choice']:
        c = [0] * cn
        for v in vs:
            c[int(v) % cn] += 1
        return dict(counts=c, total=Fraction(n), n=n, rsum=Fraction(0), rsq=Fraction(0))
    return dict(value=vs[-1] if vs else Fraction(0), n=n)


def check_stats(r, ty, cn, obs, acc):
    """compare a real Result with the first-principles statistics of `obs`; returns None or detail"""
    e = expected_stats(ty, cn, obs)
    if ty == TY['misc']:
        if obs and fr(r._value) != e['value']:
            return 'MISC value %s, last observation %s' % (r._value, e['value'])
        g = r.get_result()
        if obs and (isinstance(g, str) or fr(g) != e['value']):
            return 'MISC get_result %s, last observation %s' % (g, e['value'])
        if acc and [fr(v) for v in r._value_list] != [Fraction(v) for v, _ in obs]:
            return 'MISC value_list differs from the observation sequence'
        return None
    if r.num_updates != e['n']:
        return 'num_updates %d, %d observations' % (r.num_updates, e['n'])
    if ty == TY['choice']:
        if [int(c) for c in r._value.tolist()] != e['counts']:
            return 'counts %s expected %s' % (r._value.tolist(), e['counts'])
    elif fr(r._value) != e['value']:
        return 'value %s expected %s' % (r._value, e['value'])
    if fr(r._total) != e['total']:
        return 'total %s expected %s' % (r._total, e['total'])
    if fr(r._result_sum) != e['rsum'] or fr(r._result_squared_sum) != e['rsq']:
        return 'result_sum/squared_sum %s/%s expected %s/%s' % (r._result_sum, r._result_squared_sum,
                                                                 e['rsum'], e['rsq'])
    if e['n'] > 0:
        mean = e['rsum'] / e['n']
        var = e['rsq'] / e['n'] - mean * mean
        # tolerances relative to the scale of the data (R6): no absolute floor
        if abs(r.get_result_mean() - float(mean)) > 1e-12 * float(e.get('rabs', abs(e['rsum'])) / e['n']):
            return 'mean %r expected %r' % (r.get_result_mean(), float(mean))
        scale = float(e['rsq'] / e['n'])
        if abs(r.get_result_var() - float(var)) > 1e-12 * scale:
            return 'variance %r expected %r' % (r.get_result_var(), float(var))
        g = r.get_result()
        if ty == TY['sum'] and fr(g) != e['value']:
            return 'get_result %r expected %s' % (g, e['value'])
        if ty == TY['ratio'] and e['total'] != 0 and \
                abs(float(g) - float(e['value'] / e['total'])) > 1e-12 * abs(float(e['value'] / e['total'])):
            return 'get_result %r expected %s' % (g, e['value'] / e['total'])
        if ty == TY['choice']:
            exp = [Fraction(c) / e['total'] for c in e['counts']]
            if not all(core.close(float(a), float(b), rtol=1e-12, atol=1e-15) for a, b in zip(g.tolist(), exp)):
                return 'get_result %r expected %s' % (g, exp)
    if acc:
        if [fr(v) for v in r._value_list] != [Fraction(v) for v, _ in obs]:
            return 'value_list differs from the observation sequence'
        if ty == TY['ratio'] and [fr(v) for v in r._total_list] != [Fraction(t) for _, t in obs]:
            return 'total_list differs from the observation sequence'
    return None


def tuplify(t):
    return tuple(tuplify(x) if isinstance(x, list) else x for x in t)


# ------------------------------------------------------------------ oracles (on the real code)
def misc_empty_after_data(t):
    """MISC: some empty chunk is merged in after data has been seen (input class of the known finding)"""
    seen = False
    for leaf in tree_leaves(t):
        if leaf[2] > leaf[1]:
            seen = True
        elif seen:
            return True
    return False


def o_partition(case):
    """accumulate the sequence into one object == split over objects + merge along the tree"""
    ty, acc, cn = case['ty'], case['acc'], case['cn']
    obs = [tuple(o) for o in case['obs']]
    t = tuplify(case['tree'])
    salt = case.get('np')
    tn = TYN[ty] + ('' if salt is None else ':np-scalars')
    try:
        whole = feed(make_result(ty, acc, cn), obs, salt)
    except Exception as e:
        return '%s:update:exception:%s' % (tn, type(e).__name__), repr(e)[:300]
    log = MergeLog()
    try:
        merged = eval_tree_impl(t, ty, acc, cn, obs, log=log, np_salt=salt)
    except OperandMutated as e:
        return '%s:merge:operand-mutated' % tn, str(e)
    except Exception as e:
        return '%s:merge:exception:%s' % (tn, type(e).__name__), repr(e)[:300]
    if ty == TY['misc']:
        d = check_stats(merged, ty, cn, obs, acc)
        if d is None and obs and show_get(merged) != show_get(whole):
            d = 'get_result differs: merged %r whole %r' % (merged.get_result(), whole.get_result())
        if d:
            if misc_empty_after_data(t):
                return 'misc:never-updated-operand-resets', d
            return 'misc:last-observation-lost', d
        return _probe_later(merged, log, ty, cn, tn)
    d = check_stats(whole, ty, cn, obs, acc)
    if d:
        return '%s:accumulate-wrong' % tn, d
    d = check_stats(merged, ty, cn, obs, acc)
    if d:
        return '%s:merged-differs' % tn, d
    if res_state(merged) != res_state(whole) or not (merged == whole) or merged != whole:
        return '%s:merged-differs' % tn, 'attribute/equality mismatch: %r vs %r' % (res_state(merged),
                                                                                    res_state(whole))
    with warnings.catch_warnings():
        warnings.simplefilter('ignore')
        if obs and (show_get(merged) != show_get(whole)
                    or merged.get_result_mean() != whole.get_result_mean()
                    or merged.get_result_var() != whole.get_result_var()):
            return '%s:merged-differs' % tn, 'observers differ'
    return _probe_later(merged, log, ty, cn, tn)


def _probe_later(merged, log, ty, cn, tn):
    """the history goes on: one more update of the merged object must not reach any merged-in operand"""
    try:
        merged.update(*probe_obs(ty, cn))
        log.recheck()
    except OperandMutated as e:
        return '%s:merge:operand-mutated-later' % tn, str(e)
    except Exception as e:
        return '%s:update:exception:%s' % (tn, type(e).__name__), repr(e)[:300]
    return None


def o_history(case):
    """the chunks are separate objects merged left to right into a NEW accumulator, with updates of the
    accumulator in between; after EVERY operation every already merged chunk must be what it was (deep
    compare incl. list contents) and share no list/array with the accumulator; then the SAME chunk objects are
    merged again in a second grouping and must give the single-object result"""
    ty, acc, cn = case['ty'], case['acc'], case['cn']
    salt = case.get('np')
    tn = '%s:acc=%d%s' % (TYN[ty], 1 if acc else 0, '' if salt is None else ':np-scalars')
    chunks = [[tuple(o) for o in c] for c in case['chunks']]
    extras = {int(k): [tuple(o) for o in v] for k, v in (case.get('extras') or {}).items()}
    try:
        objs = [feed(make_result(ty, acc, cn), c, None if salt is None else salt + 5 * i)
                for i, c in enumerate(chunks)]
        snaps = [deep_state(o) for o in objs]
        accu = make_result(ty, acc, cn)
        seen = []                                   # observation sequence the accumulator stands for

        def verify(upto, what):
            if case.get('queries'):
                # R11: every query of the accumulator and of the chunks, between the mutators
                query_result(accu)
                for j in range(upto + 1):
                    query_result(objs[j])
            for j in range(upto + 1):
                if deep_state(objs[j]) != snaps[j]:
                    return ('%s:operand-mutated-later' % tn,
                            'chunk #%d changed after %s%s: %r -> %r' % (
                                j, what, ' (it shares a list/array with the accumulator)'
                                if shares_objects(accu, objs[j]) else '', snaps[j][0], res_state(objs[j])))
            return None

        for i, c in enumerate(objs):
            accu.merge(c)
            if ty == TY['misc']:
                seen = seen + chunks[i] if acc else chunks[i]
            else:
                seen += chunks[i]
            r = verify(i, 'merge #%d' % i)
            if r:
                return r
            for ob in extras.get(i, []):
                feed(accu, [ob], None if salt is None else salt + 11 * i)
                seen = seen + [ob]
                r = verify(i, 'update after merge #%d' % i)
                if r:
                    return r
        allobs = [o for c in chunks for o in c]
        if ty == TY['misc']:
            # MISC: value = last observation seen; value list (accumulation on) = everything seen
            last = None
            for i, c in enumerate(chunks):
                if c:
                    last = c[-1]
                for ob in extras.get(i, []):
                    last = ob
            if last is not None and fr(accu._value) != Fraction(last[0]):
                return '%s:accumulator-differs' % tn, 'MISC value %s, last observation %s' % (accu._value, last[0])
        else:
            full = []
            for i, c in enumerate(chunks):
                full += c + extras.get(i, [])
            d = check_stats(accu, ty, cn, full, acc)
            if d:
                return '%s:accumulator-differs' % tn, d
        # second grouping with the same chunk objects (never as receivers)
        def ev(t):
            if t[0] == 'L':
                return objs[t[1]]
            x = make_result(ty, acc, cn)
            x.merge(ev(t[1]))
            x.merge(ev(t[2]))
            return x
        regrouped = make_result(ty, acc, cn)
        regrouped.merge(ev(tuplify(case['tree2'])))
        r = verify(len(objs) - 1, 'the second grouping')
        if r:
            return r
        if ty == TY['misc']:
            nonempty = [c for c in chunks if c]
            if chunks and chunks[-1] and fr(regrouped._value) != Fraction(chunks[-1][-1][0]):
                return '%s:regrouped-differs' % tn, 'MISC value %s' % regrouped._value
            if acc and [fr(v) for v in regrouped._value_list] != [Fraction(o[0]) for o in allobs]:
                return '%s:regrouped-differs' % tn, 'value_list of the regrouped merge has %d entries for %d ' \
                    'observations' % (len(regrouped._value_list), len(allobs))
        else:
            d = check_stats(regrouped, ty, cn, allobs, acc)
            if d:
                return '%s:regrouped-differs' % tn, d
            whole = feed(make_result(ty, acc, cn), allobs)
            if res_state(regrouped) != res_state(whole) or not (regrouped == whole):
                return '%s:regrouped-differs' % tn, 'regrouped merge differs from the single object'
        # R7: the same chunk objects merged into a third accumulator in the opposite order
        third = make_result(ty, acc, cn)
        for c in reversed(objs):
            third.merge(c)
        r = verify(len(objs) - 1, 'merging the chunks into a third accumulator in reverse order')
        if r:
            return r
        rev = [o for c in reversed(chunks) for o in c]
        if ty != TY['misc']:
            d = check_stats(third, ty, cn, rev, acc)
            if d:
                return '%s:shared-operand-differs' % tn, 'reverse-order accumulator: ' + d
        elif chunks and chunks[0] and fr(third._value) != Fraction(chunks[0][-1][0]):
            return '%s:shared-operand-differs' % tn, 'reverse-order accumulator: MISC value %s' % third._value
        # the histories go on: one more update of each accumulator
        accu.update(*probe_obs(ty, cn))
        regrouped.update(*probe_obs(ty, cn))
        third.update(*probe_obs(ty, cn))
        r = verify(len(objs) - 1, 'a later update of the accumulators')
        if r:
            return r
    except Exception as e:
        return '%s:exception:%s' % (tn, type(e).__name__), repr(e)[:300]
    return None


def build_sim(specs, chunks, prefix=None, np_salt=None, rot=0):
    """a SimulationResults with one Result per name holding the chunk's observations, optionally
    behind earlier results of the same name (results of other parameter variations)"""
    res, _ = _impl()
    s = res.SimulationResults()
    if rot:
        k = rot % len(specs)
        specs = list(specs[k:]) + list(specs[:k])
        if (rot // len(specs)) % 2:
            specs = specs[::-1]
    for nm, ty, acc, cn in specs:
        for ob in (prefix or {}).get(nm, []):
            s.append_result(feed(make_result(ty, acc, cn, nm), [tuple(o) for o in ob]))
        s.append_result(feed(make_result(ty, acc, cn, nm), chunks[nm], np_salt))
    return s


def sim_state(s):
    return tuple((nm, tuple(res_state(r) for r in lst)) for nm, lst in s._results.items())


def o_mergeall(case):
    """set level: per name the same law; no merged-in operand changes, now or later"""
    res, _ = _impl()
    specs = [tuple(x) for x in case['specs']]
    t = tuplify(case['tree'])
    obs = {nm: [tuple(o) for o in case['obs'][nm]] for nm, _, _, _ in specs}
    # the number of observations of every name is the same (one per repetition); chunk = slice
    operands = []     # (object, snapshot, left-was-empty)
    top = None

    prefix = case.get('prefix') or {}

    def ev(t, leftmost=False):
        if t[0] == 'L':
            # every leaf adds its results in another name order (insertion order is not part of the value)
            x = build_sim(specs, {nm: obs[nm][t[1]:t[2]] for nm in obs}, prefix if leftmost else None,
                          None if case.get('np') is None else case['np'] + t[1],
                          rot=(case.get('name_rot', 0) * (1 + t[1])) if case.get('name_rot') else 0)
            x._c06_obs = {nm: list(obs[nm][t[1]:t[2]]) for nm in obs}
            return x
        a = ev(t[1], leftmost)
        b = ev(t[2])
        operands.append((b, sim_state(b), len(a) == 0))
        if case.get('queries'):
            query_sim(a)
            query_sim(b)
        a.merge_all_results(b)
        if case.get('queries'):
            query_sim(a)
            query_sim(b)
        a._c06_obs = {nm: a._c06_obs[nm] + b._c06_obs[nm] for nm in obs}
        return a

    try:
        if case.get('into_empty'):
            top = res.SimulationResults()
            parts = []
            cur = t
            while cur[0] == 'N':
                parts.append(cur[2])
                cur = cur[1]
            parts.append(cur)
            for p in reversed(parts):
                b = ev(p)
                operands.append((b, sim_state(b), len(top) == 0))
                top.merge_all_results(b)
        else:
            top = ev(t, True)
    except Exception as e:
        return 'exception:%s' % type(e).__name__, repr(e)[:300]
    def operands_ok(when):
        for b, snap, into_empty in operands:
            if sim_state(b) != snap:
                return ('operand-mutated:into-empty' if into_empty else 'operand-mutated:into-nonempty',
                        'a merged-in SimulationResults changed %s' % when)
        return None

    r = operands_ok('after it was merged')
    if r:
        return r
    for nm, ty, acc, cn in specs:
        lst = top[nm]
        pre = [] if case.get('into_empty') else prefix.get(nm, [])
        if len(lst) != 1 + len(pre):
            return 'shape', '%d results for %s' % (len(lst), nm)
        # only the last result of a name takes part in the merge; earlier ones stay as they are
        for r, ob in zip(lst[:-1], pre):
            d = check_stats(r, ty, cn, [tuple(o) for o in ob], acc)
            if d:
                return '%s:earlier-result-changed' % TYN[ty], '%s: %s' % (nm, d)
        d = check_stats(lst[-1], ty, cn, obs[nm], acc)
        if d:
            return '%s:merged-differs' % TYN[ty], '%s: %s' % (nm, d)
    # R7: every merged-in operand is used a second time, for another accumulating object
    try:
        second = res.SimulationResults()
        for b, _, _ in operands:
            second.merge_all_results(b)
        r = operands_ok('when it was merged into a second object')
        if r:
            return r
        if operands:
            for nm, ty, acc, cn in specs:
                exp = []
                for b, _, _ in operands:
                    exp += getattr(b, '_c06_obs')[nm]
                if ty == TY['misc']:
                    last = getattr(operands[-1][0], '_c06_obs')[nm]
                    if last and fr(second[nm][-1]._value) != Fraction(last[-1][0]):
                        return 'misc:second-use-differs', '%s: MISC value %s' % (nm, second[nm][-1]._value)
                    continue
                d = check_stats(second[nm][-1], ty, cn, exp, acc)
                if d:
                    return '%s:second-use-differs' % TYN[ty], '%s: %s' % (nm, d)
    except Exception as e:
        return 'exception:%s' % type(e).__name__, repr(e)[:300]
    # later operations on the accumulating object: updates through it and one more merge
    try:
        for nm, ty, acc, cn in specs:
            top[nm][-1].update(0 if ty == TY['choice'] else 1, 2)
        top.merge_all_results(build_sim(specs, {nm: [] for nm, _, _, _ in specs}))
    except Exception as e:
        return 'exception:%s' % type(e).__name__, repr(e)[:300]
    return operands_ok('by a later update/merge of the accumulating object')


def o_appendall(case):
    """append_all_results concatenates the per-name lists, keeps every object's statistics"""
    res, _ = _impl()
    specs = [tuple(x) for x in case['specs']]
    sims = []
    for pi, part in enumerate(case['parts']):
        s = res.SimulationResults()
        k = (pi * case.get('name_rot', 0)) % len(specs)
        for nm, ty, acc, cn in (specs[k:] + specs[:k]):      # every part adds its results in another order
            for ob in part.get(nm, []):
                s.append_result(feed(make_result(ty, acc, cn, nm), [tuple(o) for o in ob]))
        sims.append(s)
    total = res.SimulationResults()
    try:
        for s in sims:
            snap = sim_state(s)
            total.append_all_results(s)
            if sim_state(s) != snap:
                return 'operand-mutated', 'append_all_results changed its argument'
    except Exception as e:
        return 'exception:%s' % type(e).__name__, repr(e)[:300]
    for nm, ty, acc, cn in specs:
        exp = [ob for part in case['parts'] for ob in part.get(nm, [])]
        got = total._results.get(nm, [])
        if len(got) != len(exp):
            return 'length', '%s: %d results, expected %d' % (nm, len(got), len(exp))
        for r, ob in zip(got, exp):
            d = check_stats(r, ty, cn, [tuple(o) for o in ob], acc)
            if d:
                return 'element', '%s: %s' % (nm, d)
    return None


def combo_key(combo):
    return ','.join(tok(Fraction(c)) for c in combo)


def build_grid_sim(fixed, names, grid, dtypes, specs, cells, np_salt=None, use_add=False, order=None, path=0):
    """a result set over the grid (value tokens, exact) with one Result per combination, in the order of
    get_unpacked_params_list (first parameter slowest); returns (object, the caller's value containers).
    use_add: parameters are handed over with add() (no copy is made by the library)"""
    res, par = _impl()
    containers = {}
    for j, (nm, vals) in enumerate(zip(names, grid)):
        containers[nm] = make_array([str(v) for v in vals], dtypes[j] if dtypes else None)
    if path == 2:
        # R8: configured by later replacement (wrong values first, unpack flags toggled)
        p = build_params(par, list(fixed), [(nm, containers[nm]) for nm in names], 2)
    elif use_add:
        p = par.SimulationParameters()
        for nm in reversed(names):              # dictionary order != sorted order
            p.add(nm, containers[nm])
        for k, v in fixed:
            p.add(k, v)
    else:
        d = dict(fixed)
        d.update(containers)
        p = par.SimulationParameters.create(d)
    for nm in names:
        p.set_unpack_parameter(nm)
    s = res.SimulationResults()
    s.set_parameters(p)
    for j in (order if order is not None else range(len(specs))):
        rn, ty, acc, cn = specs[j]
        for combo in itertools.product(*grid):
            s.append_result(feed(make_result(ty, acc, cn, rn), [tuple(o) for o in cells[rn][combo_key(combo)]],
                                 np_salt))
    return s, containers


def show_get_value(v):
    if isinstance(v, str):
        return v
    if isinstance(v, np.ndarray):
        return tuple(round(float(x), 12) if np.isfinite(x) else repr(x) for x in v.tolist())
    return rsx(v)


def params_snapshot(p):
    """deep copy of what a SimulationParameters object holds (values as exact rationals, container types)"""
    out = {}
    for k, v in p.parameters.items():
        if isinstance(v, (list, tuple, np.ndarray)):
            a = np.asarray(v)
            out[k] = (type(v).__name__, str(a.dtype), a.shape, tuple(rs(fr(x)) for x in a.ravel().tolist()))
        else:
            out[k] = ('scalar', rs(fr(v)))
    return (out, tuple(sorted(p._unpacked_parameters_set)))


def container_snapshot(c):
    a = np.asarray(c)
    return (type(c).__name__, str(a.dtype), a.shape, tuple(rs(fr(x)) for x in a.ravel().tolist()))


def grid_kind(grids):
    """input class of a combine case, computed from the parameter values: how close distinct values get"""
    vals = sorted({Fraction(str(v)) for g in grids for vs in g for v in vs})
    if not vals:
        return 'no-unpacked'
    close = False
    for a, b in zip(vals, vals[1:]):
        fa, fb = float(a), float(b)
        if abs(fa - fb) <= 1e-8 + 1e-5 * abs(fb):
            close = True
    return 'close-values' if close else 'grid'


def o_combine(case):
    """union over parameter grids: the union keeps distinct values distinct; per combination the same law
    (exactly the operands' results AT THAT EXACT VALUE); operands untouched"""
    res, _ = _impl()
    specs = [tuple(x) for x in case['specs']]
    # names of the unpacked parameters as given (dictionary order); the grid axes are in sorted() order
    order = sorted(range(len(case['pnames'])), key=lambda j: case['pnames'][j])
    names = [case['pnames'][j] for j in order]
    grids = [[g[j] for j in order] for g in case['grids']]     # two lists of value-token lists (no duplicates)
    dtypes = [(''.join(d[j] for j in order) if d else None) for d in (case.get('dtypes') or [None, None])]
    cells = case['cells']                        # two dicts name -> combination key -> observation list
    fixed = [tuple(x) for x in case['fixed']]
    tys = sorted({TYN[ty] for _, ty, _, _ in specs})
    pre = '%s:%s' % (grid_kind(grids), '+'.join(tys))
    if len(names) >= 2 and case.get('name_kind') and case['name_kind'] != 'plain':
        pre += ':names-' + case['name_kind']
    if case.get('orders') and case['orders'][0] != case['orders'][1]:
        pre += ':result-order-differs'
    if len({(ty, acc, cn) for _, ty, acc, cn in specs}) == 1 and len(specs) >= 2:
        pre += ':same-typed'
    salt = case.get('np')
    use_add = bool(case.get('use_add'))
    if salt is not None:
        pre += ':np-scalars'
    layouts = ''.join(d or '' for d in dtypes)
    if any(ch not in 'if' for ch in layouts):
        pre += ':containers'
    empty = [any(len(vs) == 0 for vs in g) for g in grids]
    try:
        orders = case.get('orders') or [None, None]     # result-name insertion order of each operand
        paths = case.get('param_paths') or [0, 0]
        s1, cont1 = build_grid_sim(fixed, names, grids[0], dtypes[0], specs, cells[0], salt, use_add, orders[0],
                                   paths[0])
        s2, cont2 = build_grid_sim(fixed, names, grids[1], dtypes[1], specs, cells[1], salt, use_add, orders[1],
                                   paths[1])
        snap1, snap2 = sim_state(s1), sim_state(s2)
        psnap = [params_snapshot(s1.params), params_snapshot(s2.params)]
        csnap = [{k: container_snapshot(v) for k, v in c.items()} for c in (cont1, cont2)]
    except Exception as e:
        return '%s:setup-exception:%s' % (pre, type(e).__name__), repr(e)[:300]

    def inputs_ok(when):
        if sim_state(s1) != snap1 or sim_state(s2) != snap2:
            return '%s:operand-mutated' % pre, 'an operand of combine_simulation_results changed %s' % when
        if [params_snapshot(s1.params), params_snapshot(s2.params)] != psnap:
            return '%s:params-mutated' % pre, 'the parameters of an operand changed %s' % when
        if [{k: container_snapshot(v) for k, v in c.items()} for c in (cont1, cont2)] != csnap:
            return '%s:value-list-mutated' % pre, "the caller's parameter value containers changed %s" % when
        return None

    try:
        u = res.combine_simulation_results(s1, s2)
    except BaseException as e:
        if isinstance(e, (KeyboardInterrupt, SystemExit, MemoryError)):
            raise
        if empty[0] != empty[1] and isinstance(e, RuntimeError):
            # one operand was "simulated" over an empty grid and holds no result at all: rejected; nothing moved
            return inputs_ok('by the rejected call')
        return '%s:exception:%s' % (pre, type(e).__name__), repr(e)[:300]
    if empty[0] != empty[1]:
        return '%s:empty-grid-not-rejected' % pre, 'operands with different result names were combined'
    r0 = inputs_ok('by the call')
    if r0:
        return r0
    q = [[[Fraction(str(v)) for v in vs] for vs in g] for g in grids]
    ugrid = [sorted(set(a) | set(b)) for a, b in zip(q[0], q[1])]
    for nm, vals in zip(names, ugrid):
        got = [fr(x) for x in np.asarray(u.params[nm]).tolist()]
        if got != vals:
            return '%s:union-grid' % pre, '%s: %r expected %r' % (nm, u.params[nm], [float(v) for v in vals])
    combos = [[]]
    for vals in ugrid:
        combos = [c + [v] for c in combos for v in vals]
    if not (empty[0] or empty[1]):
        exp_names = [specs[j][0] for j in (orders[0] if orders[0] is not None else range(len(specs)))]
        if list(u.get_result_names()) != exp_names:
            return '%s:result-names' % pre, 'union holds %r, first operand %r' % (u.get_result_names(), exp_names)
    if empty[0] and empty[1]:
        # neither operand holds a result (both were "simulated" over an empty grid): nothing to combine
        if u.get_result_names():
            return '%s:results-invented' % pre, 'results %r out of two empty result sets' % u.get_result_names()
        return inputs_ok('by the call')
    for rn, ty, acc, cn in specs:
        lst = u._results.get(rn, [])
        if len(lst) != len(combos):
            return '%s:shape' % pre, '%s: %d results for %d combinations' % (rn, len(lst), len(combos))
        for r, combo in zip(lst, combos):
            key = combo_key(combo)
            ob = []
            for g, c in zip(q, cells):
                if all(v in vals for v, vals in zip(combo, g)):       # exact equality of the values
                    ob += [tuple(o) for o in c[rn][key]]
            d = check_stats(r, ty, cn, ob, False)
            if d:
                return '%s:combination-differs' % pre, '%s at %s: %s' % (rn, key, d)
    # R11: queries on operands, union and their parameters change nothing
    if case.get('queries'):
        ubefore = sim_deep_state(u)
        for x in (s1, s2, u):
            query_sim(x)
        r0 = inputs_ok('by queries (repr, ==, get_result_values_list, get_unpacked_params_list, …)')
        if r0:
            return r0
        if sim_deep_state(u) != ubefore:
            return '%s:query-mutated-union' % pre, 'a query changed the combined object'
    # R8: container-level query = element-level queries
    try:
        for rn, ty, acc, cn in specs:
            with warnings.catch_warnings():
                warnings.simplefilter('ignore')
                got = [show_get_value(x) for x in u.get_result_values_list(rn)]
                want = [show_get_value(r.get_result()) for r in u[rn]]
            if got != want:
                return '%s:values-list-differs' % pre, '%s: %r vs %r' % (rn, got[:4], want[:4])
    except Exception as e:
        return '%s:exception:%s' % (pre, type(e).__name__), repr(e)[:300]
    # R13: derived objects (copies, pickle round trips, children of the parameters, the union as an operand)
    try:
        ustate = sim_deep_state(u)
        for how in (0, 1):
            c = round_trip(u, how)
            if sim_deep_state(c) != ustate:
                return '%s:round-trip-differs' % pre, 'a %s of the combined object differs from it' % (
                    'deep copy' if how == 0 else 'pickle round trip')
            for lst in c._results.values():
                for r in lst:
                    r.update(*probe_obs(int(r._update_type_code), 0))
            for nm in names:
                if isinstance(c.params[nm], np.ndarray) and c.params[nm].size:
                    c.params[nm].flat[0] += 3
            if sim_deep_state(u) != ustate:
                return '%s:copy-aliases-original' % pre, 'changing a copy changed the combined object'
        kids = u.params.get_unpacked_params_list()
        if kids and names:
            k0 = round_trip(kids[-1], 1)
            if k0.parameters.keys() != kids[-1].parameters.keys() or any(
                    fr(k0.parameters[a]) != fr(kids[-1].parameters[a]) for a in names) \
                    or k0.unpack_index != kids[-1].unpack_index:
                return '%s:child-round-trip-differs' % pre, 'pickled child %r, child %r' % (k0.parameters,
                                                                                          kids[-1].parameters)
            kids[0].add(names[0], 12345)
            kids[0].add('new_parameter', 1)
            if sim_deep_state(u) != ustate:
                return '%s:child-aliases-parent' % pre, 'changing an unpacked child changed the parent parameters'
        if not (empty[0] or empty[1]):
            u2 = res.combine_simulation_results(u, s1)          # the derived object used as an operand itself
            r0 = inputs_ok('when the combined object was combined again')
            if r0:
                return r0
            if sim_deep_state(u) != ustate:
                return '%s:operand-mutated' % pre, 'the combined object changed when used as an operand'
            for rn, ty, acc, cn in specs:
                if ty == TY['misc']:
                    continue
                for r, combo in zip(u2._results.get(rn, []), combos):
                    key = combo_key(combo)
                    ob = []
                    for g, c in zip(q, cells):
                        if all(v in vals for v, vals in zip(combo, g)):
                            ob += [tuple(o) for o in c[rn][key]]
                    if all(v in vals for v, vals in zip(combo, q[0])):
                        ob += [tuple(o) for o in cells[0][rn][key]]
                    d = check_stats(r, ty, cn, ob, False)
                    if d:
                        return '%s:chained-combination-differs' % pre, '%s at %s: %s' % (rn, key, d)
    except Exception as e:
        return '%s:exception:%s' % (pre, type(e).__name__), repr(e)[:300]
    # the union owns its objects: touching them must not move the operands
    for rn, ty, acc, cn in specs:
        for r in u._results.get(rn, []):
            if ty == TY['choice']:
                r.update(0)
            else:
                r.update(1, 2)
            r.merge(feed(make_result(ty, False, cn, rn), [('0', '-')] if ty == TY['choice'] else [('1', '2')]))
    r0 = inputs_ok('when the results of the union were updated/merged')
    if r0:
        return r0
    # R3/R7: the union must not alias the operands' parameter values, in either direction
    usnap = params_snapshot(u.params)
    ustate = sim_state(u)
    try:
        for nm in names:
            for s_op in (s1, s2):
                v = s_op.params[nm]
                if isinstance(v, np.ndarray) and v.size:
                    v.flat[0] = v.flat[0] + 1          # the operand's parameters change after the combination
    except Exception as e:
        return '%s:setup-exception:%s' % (pre, type(e).__name__), repr(e)[:300]
    if params_snapshot(u.params) != usnap or sim_state(u) != ustate:
        return '%s:union-aliases-operand-params' % pre, 'changing an operand\'s parameter values changed the union'
    psnap2 = [params_snapshot(s1.params), params_snapshot(s2.params)]
    for nm in names:
        v = u.params[nm]
        if isinstance(v, np.ndarray) and v.size:
            v.flat[0] = v.flat[0] + 7
    if [params_snapshot(s1.params), params_snapshot(s2.params)] != psnap2:
        return '%s:union-aliases-operand-params' % pre, 'changing the union\'s parameter values changed an operand'
    # R13: the parents' results change after the child was derived
    ustate = sim_state(u)
    try:
        for s_op in (s1, s2):
            for lst in s_op._results.values():
                for r in lst:
                    r.update(*probe_obs(int(r._update_type_code), 0))
    except Exception as e:
        return '%s:exception:%s' % (pre, type(e).__name__), repr(e)[:300]
    if sim_state(u) != ustate:
        return '%s:union-aliases-operand-results' % pre, 'updating an operand after the combination changed the union'
    return None


def sim_deep_state(s):
    return (tuple((nm, tuple(deep_state(r) for r in lst)) for nm, lst in s._results.items()),
            params_snapshot(s.params))


def o_rejected(case):
    """R4: a call that must be rejected raises, leaves BOTH objects exactly as they were, and the history
    continues as for objects that never saw the call"""
    res, par = _impl()
    kind, why = case['kind'], case['why']
    pre = 'rejected:%s:%s' % (kind, why)
    salt = case.get('np')
    try:
        if kind == 'update':
            ty, acc, cn = case['ty'], case['acc'], case['cn']
            r = feed(make_result(ty, acc, cn), [tuple(o) for o in case['before']], salt)
            twin = feed(make_result(ty, acc, cn), [tuple(o) for o in case['before']])
            snap = deep_state(r)
            bad = tuple(case['bad'])
            try:
                feed(r, [bad], salt)
                return pre + ':not-raised', 'update%r was accepted' % (bad,)
            except Exception:
                pass
            if deep_state(r) != snap:
                return pre + ':object-changed', '%r -> %r' % (snap[0], res_state(r))
            feed(r, [tuple(o) for o in case['after']], salt)
            feed(twin, [tuple(o) for o in case['after']])
            if deep_state(r) != deep_state(twin):
                return pre + ':history-differs', '%r vs %r' % (res_state(r), res_state(twin))
            return None
        if kind == 'merge':
            def mk(spec, ob):
                nm, ty, acc, cn = spec
                return feed(make_result(ty, acc, cn, nm), [tuple(o) for o in ob], salt)
            a, b = mk(case['a'], case['obs_a']), mk(case['b'], case['obs_b'])
            twin = mk(case['a'], case['obs_a'])
            sa, sb = deep_state(a), deep_state(b)
            try:
                a.merge(b)
                return pre + ':not-raised', 'merge of incompatible results was accepted'
            except Exception:
                pass
            if deep_state(a) != sa or deep_state(b) != sb:
                return pre + ':object-changed', '%r / %r' % (res_state(a), res_state(b))
            good = mk(case['a'], case['obs_g'])
            a.merge(good)
            twin.merge(mk(case['a'], case['obs_g']))
            if deep_state(a) != deep_state(twin):
                return pre + ':history-differs', '%r vs %r' % (res_state(a), res_state(twin))
            return None
        if kind == 'merge_all':
            def mks(specs, obs):
                x = res.SimulationResults()
                for nm, ty, acc, cn in specs:
                    x.append_result(feed(make_result(ty, acc, cn, nm), [tuple(o) for o in obs[nm]], salt))
                return x
            a, b = mks(case['specs_a'], case['obs_a']), mks(case['specs_b'], case['obs_b'])
            twin = mks(case['specs_a'], case['obs_a'])
            sa, sb = sim_deep_state(a), sim_deep_state(b)
            try:
                a.merge_all_results(b)
                return pre + ':not-raised', 'merge_all_results of incompatible result sets was accepted'
            except Exception:
                pass
            if sim_deep_state(a) != sa or sim_deep_state(b) != sb:
                return pre + ':object-changed', 'self or other changed although merge_all_results raised'
            a.merge_all_results(mks(case['specs_a'], case['obs_g']))
            twin.merge_all_results(mks(case['specs_a'], case['obs_g']))
            if sim_deep_state(a) != sim_deep_state(twin):
                return pre + ':history-differs', 'after the rejected call the result set behaves differently'
            return None
        if kind == 'combine':
            spec = [['a', 0, False, 1]]
            def mkc(fixed, pnames, grid, resname):
                cells = {resname: {combo_key(c): [['1', '-']] for c in itertools.product(*grid)}}
                return build_grid_sim(fixed, pnames, grid, None, [[resname, 0, False, 1]], cells)[0]
            s1 = mkc([tuple(x) for x in case['fixed1']], case['pnames1'], case['grid1'], case['res1'])
            s2 = mkc([tuple(x) for x in case['fixed2']], case['pnames2'], case['grid2'], case['res2'])
            sa, sb = sim_deep_state(s1), sim_deep_state(s2)
            try:
                res.combine_simulation_results(s1, s2)
                return pre + ':not-raised', 'operands with different parameters / results were combined'
            except Exception:
                pass
            if sim_deep_state(s1) != sa or sim_deep_state(s2) != sb:
                return pre + ':object-changed', 'an operand changed although combine_simulation_results raised'
            u = res.combine_simulation_results(s1, s1)
            if [r.num_updates for r in u[case['res1']]] != [2 * r.num_updates for r in s1[case['res1']]]:
                return pre + ':history-differs', 'operand unusable after the rejected call'
            return None
    except Exception as e:
        return pre + ':exception:%s' % type(e).__name__, repr(e)[:300]
    return pre + ':bad-case', 'unknown kind'


def gen_rejected_case(rng):
    kind = rng.choice(['update', 'update', 'merge', 'merge', 'merge_all', 'merge_all', 'combine'])
    sc = pick_scale(rng)
    salt = rng.below(1000) if rng.chance(0.4) else None
    if kind == 'update':
        ty = rng.choice([1, 1, 3, 3])
        cn = rng.randint(1, 4)
        acc = rng.chance(0.5)
        if ty == 1:
            why, bad = rng.choice([('ratio-no-total', ['5', '-']), ('ratio-total-0', ['5', '0']),
                                   ('ratio-total-0', ['0', '0'])])
        else:
            why, bad = rng.choice([('choice-index-high', [str(cn + rng.below(3)), '-']),
                                   ('choice-index-low', [str(-cn - 1), '-']), ('choice-not-int', ['1/2', '-'])])
        return {'kind': kind, 'why': why, 'ty': ty, 'acc': acc, 'cn': cn, 'bad': bad, 'np': salt,
                'before': gen_obs_list(rng, ty, cn, rng.randint(0, 3), sc),
                'after': gen_obs_list(rng, ty, cn, rng.randint(1, 3), sc)}
    if kind == 'merge':
        ty = rng.choice([0, 1, 2, 3])
        cn = rng.randint(1, 4)
        acc = rng.chance(0.5)
        a = ['x', ty, acc, cn]
        why = rng.choice(['type', 'name', 'accumulate', 'choice_num'] if ty == 3 else ['type', 'name', 'accumulate'])
        if why == 'type':
            b = ['x', (ty + rng.randint(1, 3)) % 4, acc, cn]
        elif why == 'name':
            b = ['y', ty, acc, cn]
        elif why == 'accumulate':
            a, b = ['x', ty, True, cn], ['x', ty, False, cn]
        else:
            b = ['x', ty, acc, rng.choice([c for c in (1, 2, 3, 4, 5) if c != cn])]
        return {'kind': kind, 'why': why, 'a': a, 'b': b, 'np': salt,
                'obs_a': gen_obs_list(rng, a[1], a[3], rng.randint(0, 3), sc),
                'obs_b': gen_obs_list(rng, b[1], b[3], rng.randint(1, 3), sc),
                'obs_g': gen_obs_list(rng, a[1], a[3], rng.randint(1, 3), sc)}
    if kind == 'merge_all':
        names = ['a', 'b', 'c'][:rng.randint(2, 3)]
        specs = [[nm, rng.choice([0, 1, 2, 3]), rng.chance(0.3), rng.randint(1, 4)] for nm in names]
        why = rng.choice(['missing-name', 'type-in-later-name', 'choice_num-in-later-name', 'nsr-type', 'empty-other'])
        specs_b = [list(x) for x in specs]
        if why == 'missing-name':
            del specs_b[rng.randint(1, len(specs_b) - 1)]
        elif why == 'type-in-later-name':
            j = rng.randint(1, len(specs_b) - 1)
            specs_b[j][1] = (specs_b[j][1] + 1) % 4
        elif why == 'choice_num-in-later-name':
            j = rng.randint(1, len(specs_b) - 1)
            specs[j][1] = specs_b[j][1] = 3
            specs_b[j][3] = specs[j][3] + 1
        elif why == 'nsr-type':
            specs_b.append([NSR, 1, False, 1])
        else:
            specs_b = []
        obs = lambda sp: {nm: gen_obs_list(rng, ty, cn, rng.randint(1, 3), sc) for nm, ty, acc, cn in sp}
        return {'kind': kind, 'why': why, 'specs_a': specs, 'specs_b': specs_b, 'np': salt,
                'obs_a': obs(specs), 'obs_b': obs(specs_b), 'obs_g': obs(specs)}
    why = rng.choice(['fixed-value', 'fixed-names', 'unpacked-names', 'result-names'])
    c = {'kind': kind, 'why': why, 'fixed1': [['f', 3]], 'fixed2': [['f', 3]], 'pnames1': ['p'], 'pnames2': ['p'],
         'grid1': [['1', '2']], 'grid2': [['2', '3']], 'res1': 'a', 'res2': 'a'}
    if why == 'fixed-value':
        c['fixed2'] = [['f', 4]]
    elif why == 'fixed-names':
        c['fixed2'] = [['f', 3], ['g', 1]]
    elif why == 'unpacked-names':
        c['pnames2'] = ['q']
    else:
        c['res2'] = 'b'
    return c


def o_combine_2d(case):
    """unpacked parameter whose values are the ROWS of a 2-D array (vectors as values): the union grid must
    be made of rows and every simulated row must keep its results (known finding: the grid is flattened)"""
    res, par = _impl()
    sims = []
    for rows, base in ((case['rows1'], 10), (case['rows2'], 100)):
        p = par.SimulationParameters.create({'p': np.array(rows), 'f': 3})
        p.set_unpack_parameter('p')
        x = res.SimulationResults()
        x.set_parameters(p)
        for i in range(len(rows)):
            x.append_result(res.Result.create('a', res.Result.SUMTYPE, base + i))
        sims.append(x)
    try:
        u = res.combine_simulation_results(sims[0], sims[1])
    except Exception as e:
        return 'values-2d:exception:%s' % type(e).__name__, repr(e)[:200]
    want = sorted({tuple(r) for r in case['rows1']} | {tuple(r) for r in case['rows2']})
    got = np.asarray(u.params['p'])
    if got.ndim != 2 or sorted(tuple(r) for r in got.tolist()) != [tuple(w) for w in want]:
        return 'values-2d:union-flattened', 'union grid %r for the rows %r' % (got.tolist(), want)
    return None


def o_script(case):
    """replay of a correspondence script: the real classes must run it (library exceptions are part of the
    compared outcome), their state must be extractable, and it must equal the model's"""
    try:
        im = Impl()
        for op in case['ops']:
            im.step(op)
        im_c = im.canon()
    except core.Infra:
        raise
    except Exception as e:
        return 'script:exception:%s' % type(e).__name__, repr(e)[:300]
    reply = core.Driver(DRIVER).ask(['prog ' + ' '.join(case['ops'])])[0]
    d = first_diff(im_c, parse_model(reply))
    if d is not None:
        return 'script:differs-from-model', d[:300]
    return None


def o_float(case):
    """arbitrary binary64 observations (tokens are their exact values): merged tree vs exact sums, rtol 1e-9"""
    ty = case['ty']
    obs = [(Fraction(v), None if t == '-' else Fraction(t)) for v, t in case['obs']]
    try:
        def ev(t):
            if t[0] == 'L':
                x = make_result(ty, False, 0)
                for v, tt in obs[t[1]:t[2]]:
                    x.update(v.numerator / v.denominator, None if tt is None else tt.numerator / tt.denominator)
                return x
            a, b = ev(t[1]), ev(t[2])
            a.merge(b)
            return a
        r = ev(tuplify(case['tree']))
    except Exception as e:
        return 'float:exception:%s' % type(e).__name__, repr(e)[:300]
    vs = sum(v for v, _ in obs)
    ts = sum((t for _, t in obs if t is not None), Fraction(0))
    q = [v / t if t is not None else v for v, t in obs]
    exp = (vs, ts, sum(q), sum(x * x for x in q), len(obs))
    got = (r._value, r._total, r._result_sum, r._result_squared_sum)
    if r.num_updates != exp[4] or not all(core.close(float(g), float(e)) for g, e in zip(got, exp[:4])):
        return 'float:%s:sums-differ' % TYN[ty], '%r expected %r' % (got, [float(e) for e in exp[:4]])
    return None


def o_forms(case):
    """R8/R9: the same Result built through every argument form and equivalent entry point (positional,
    keyword, defaults, explicit None, Result.create, add_new_result; the number of choices as a Python int
    or a numpy integer) is the same object and holds the first-principles statistics"""
    res, _ = _impl()
    R, S = res.Result, res.SimulationResults
    ty, acc, cn = case['ty'], case['acc'], case['cn']
    obs = [tuple(o) for o in case['obs']]
    cnt = case.get('cn_tag', 'p')
    tn = '%s:%s' % (TYN[ty], 'count-' + cnt if (ty == 3 and cnt != 'p') else 'forms')
    cnv = None
    if ty == TY['choice']:
        cnv = cn if cnt == 'p' else NP_BY_LETTER[cnt](cn)

    def val(x):
        return pynum(Fraction(x))

    built = {}
    try:
        # positional everything
        a = R('x', ty, acc, cnv)
        for v, t in obs:
            a.update(val(v), None if t == '-' else val(t))
        built['positional'] = a
        # keywords everything
        b = R(name='x', update_type_code=ty, accumulate_values=acc, choice_num=cnv)
        for v, t in obs:
            b.update(value=val(v), total=(None if t == '-' else val(t)))
        built['keyword'] = b
        # defaults left alone where the value is the default
        c = R('x', ty, choice_num=cnv) if not acc else R('x', ty, accumulate_values=True, choice_num=cnv)
        for v, t in obs:
            if t == '-':
                c.update(val(v))
            else:
                c.update(val(v), total=val(t))
        built['defaults'] = c
        if obs:
            v0, t0 = obs[0]
            tot = cnv if ty == TY['choice'] else (0 if t0 == '-' else val(t0))
            d = R.create('x', ty, val(v0), tot, acc)
            e = R.create(name='x', update_type=ty, value=val(v0), total=tot, accumulate_values=acc)
            for v, t in obs[1:]:
                d.update(val(v), None if t == '-' else val(t))
                e.update(val(v), None if t == '-' else val(t))
            built['create-positional'] = d
            built['create-keyword'] = e
            if not acc:
                sset = S()
                sset.add_new_result('x', ty, val(v0), tot)
                f = sset['x'][0]
                for v, t in obs[1:]:
                    f.update(val(v), None if t == '-' else val(t))
                built['add_new_result'] = f
                s2 = S()
                s2.add_new_result(name='x', update_type=ty, value=val(v0), total=tot)
                g = s2['x'][0]
                for v, t in obs[1:]:
                    g.update(val(v), None if t == '-' else val(t))
                built['add_new_result-keyword'] = g
    except Exception as e:
        return '%s:exception:%s' % (tn, type(e).__name__), '%s after %s' % (repr(e)[:200], sorted(built))
    ref = deep_state(built['positional'])
    for k, r in built.items():
        if deep_state(r) != ref:
            return '%s:forms-differ:%s' % (tn, k), '%r vs positional %r' % (res_state(r), ref[0])
    d = check_stats(built['positional'], ty, cn, obs, acc)
    if d:
        return '%s:accumulate-wrong' % tn, d
    return None


def gen_forms_case(rng, big=False):
    ty = rng.choice([0, 1, 2, 3])
    cn = rng.choice([257, 258, 300]) if big else rng.randint(1, 5)
    sc = pick_scale(rng)
    obs = gen_obs_list(rng, ty, cn, rng.randint(0, 5), sc)
    if big and ty == 3:
        obs += [[str(cn - 1), '-'], [str(256), '-'], [str(-cn), '-']]     # R9: indices above 256, first / last
    return {'ty': ty, 'acc': rng.chance(0.5), 'cn': cn, 'obs': obs,
            'cn_tag': rng.choice(['p', 'h', 'w', 'q', 'P'] + ([] if cn > 127 else ['b'])) if ty == 3 else 'p'}


ORACLES = {
    'entry-points': o_forms,
    'script': o_script,
    'Result.merge/float': o_float,
    'combine_simulation_results/2d': o_combine_2d,
    'rejected-call': o_rejected,
    'Result.merge': o_partition,
    'Result.merge/history': o_history,
    'SimulationResults.merge_all_results': o_mergeall,
    'SimulationResults.append_all_results': o_appendall,
    'combine_simulation_results': o_combine,
}


from harness.props import c06_r1516 as r1516   # noqa: E402  (R15 / R16: close values, buffer reuse)

ORACLES.update(r1516.ORACLES)


def run_oracle(ctx, call, case, key=None, nontrivial=True):
    ctx.count((call, key if key is not None else repr(case)), nontrivial)
    try:
        r = ORACLES[call](case)
    except core.Infra:
        raise
    except Exception as e:
        r = ('oracle-exception:' + type(e).__name__, repr(e)[:300])
    if r is not None:
        ctx.fail(call, r[0], case, r[1])
        ctx.branch('oracle-fail:' + call)
    else:
        ctx.branch('oracle-ok:' + call)
    return r


def replay(ctx, rep):
    return ORACLES[rep['call']](rep['case']) is not None


# ------------------------------------------------------------------ oracle case generators
def gen_obs_list(rng, ty, cn, n, scale=None):
    """valid observations; RATIO totals positive (so that the summed total cannot vanish)"""
    out = []
    for _ in range(n):
        v, t = gen_obs(rng, ty, cn, scale=scale)
        if ty == TY['ratio'] and t.startswith('-'):
            t = t[1:]
        out.append([v, t])
    return out


def gen_partition_case(rng, nmax, ty=None, allow_empty=True):
    ty = rng.choice([0, 1, 2, 3]) if ty is None else ty
    cn = rng.randint(1, 6)
    n = rng.randint(0, nmax)
    sc = pick_scale(rng)
    obs = gen_obs_list(rng, ty, cn, n, sc)
    if ty == TY['ratio']:
        # keep the running total away from zero for get_result
        obs = [[v, t if not t.startswith('-') else t[1:]] for v, t in obs]
    tree = gen_tree(rng, n, 8, allow_empty=allow_empty)
    return {'ty': ty, 'acc': rng.chance(0.5), 'cn': cn, 'obs': obs, 'tree': tree, 'scale': list(sc),
            'np': rng.below(1000) if rng.chance(0.35) else None}


def gen_history_case(rng, ty=None, acc=None):
    ty = rng.choice([0, 1, 2, 3]) if ty is None else ty
    acc = rng.chance(0.6) if acc is None else acc
    cn = rng.randint(1, 5)
    k = rng.randint(2, 5)
    lo = 1 if ty == TY['misc'] else 0
    sc = pick_scale(rng)
    chunks = [gen_obs_list(rng, ty, cn, rng.randint(lo, 4), sc) for _ in range(k)]
    if rng.chance(0.7) and not chunks[0]:
        chunks[0] = gen_obs_list(rng, ty, cn, rng.randint(1, 3), sc)
    extras = {}
    for i in range(k):
        if rng.chance(0.35):
            extras[str(i)] = gen_obs_list(rng, ty, cn, rng.randint(1, 2), sc)

    def build(ix):
        if len(ix) == 1:
            return ['L', ix[0]]
        c = rng.randint(1, len(ix) - 1)
        return ['N', build(ix[:c]), build(ix[c:])]

    return {'ty': ty, 'acc': acc, 'cn': cn, 'chunks': chunks, 'extras': extras, 'tree2': build(list(range(k))),
            'scale': list(sc), 'np': rng.below(1000) if rng.chance(0.35) else None, 'queries': rng.chance(0.5)}


def gen_mergeall_case(rng, nmax):
    nn = rng.randint(1, 3)
    specs = []
    for nm in ['a', 'b', 'c'][:nn]:
        specs.append([nm, rng.choice([0, 1, 3, 0, 1, 3, 2]), rng.chance(0.3), rng.randint(1, 4)])
    if rng.chance(0.5):
        specs = [[nm, specs[0][1], specs[0][2], specs[0][3]] for nm, _, _, _ in specs]   # same-typed results
    n = rng.randint(1, nmax)
    sc = pick_scale(rng)
    obs = {}
    for nm, ty, acc, cn in specs:
        o = gen_obs_list(rng, ty, cn, n, sc)
        if ty == TY['ratio']:
            o = [[v, t[1:] if t.startswith('-') else t] for v, t in o]
        obs[nm] = o
    tree = gen_tree(rng, n, 6, allow_empty=False)
    into_empty = rng.chance(0.5)
    prefix = {}
    if not into_empty and rng.chance(0.5):
        for nm, ty, acc, cn in specs:
            prefix[nm] = [gen_obs_list(rng, ty, cn, rng.randint(1, 3), sc) for _ in range(rng.randint(1, 2))]
    return {'specs': specs, 'obs': obs, 'tree': tree, 'into_empty': into_empty, 'prefix': prefix,
            'scale': list(sc), 'np': rng.below(1000) if rng.chance(0.35) else None,
            'name_rot': rng.randint(1, 7) if (nn >= 2 and rng.chance(0.7)) else 0, 'queries': rng.chance(0.4)}


def gen_appendall_case(rng):
    nn = rng.randint(1, 3)
    specs = [[nm, rng.choice([0, 1, 2, 3]), rng.chance(0.3), rng.randint(1, 4)] for nm in ['a', 'b', 'c'][:nn]]
    parts = []
    for _ in range(rng.randint(1, 4)):
        part = {}
        for nm, ty, acc, cn in specs:
            if rng.chance(0.8):
                part[nm] = [gen_obs_list(rng, ty, cn, rng.randint(0, 3)) for _ in range(rng.randint(1, 3))]
        parts.append(part)
    return {'specs': specs, 'parts': parts, 'name_rot': rng.randint(0, 2)}


def gen_combine_case(rng, nunp=None, ty=None):
    nunp = rng.choice([0, 1, 1, 2, 2, 3]) if nunp is None else nunp
    nkind, pn = pick_names(rng, nunp)
    nn = rng.choice([1, 2, 2, 3])
    specs = [[nm, rng.choice([0, 1, 2, 3]) if ty is None else ty, False, rng.randint(1, 4)]
             for nm in ['a', 'b', 'c'][:nn]]
    if rng.chance(0.6):
        specs = [[nm, specs[0][1], False, specs[0][3]] for nm, _, _, _ in specs]    # same-typed results
    orders = []
    for _ in range(2):
        o = list(range(nn))
        rng.shuffle(o)
        orders.append(o)
    pools = [value_pool(rng) for _ in range(nunp)]
    sc = pick_scale(rng)
    grids, cells, dtypes = [], [], []
    for _ in range(2):
        picked = [pick_values(rng, pl[1], pl[2], dup=0.0) for pl in pools]
        grid = [pv[0] for pv in picked]
        c = {}
        order = sorted(range(nunp), key=lambda j: pn[j])     # cells are keyed in the sorted() order of the names
        for rn, t, acc, cn in specs:
            c[rn] = {}
            for combo in itertools.product(*[grid[j] for j in order]):
                lo = 1 if t == TY['misc'] else 0
                c[rn][combo_key(combo)] = gen_obs_list(rng, t, cn, rng.randint(lo, 3), scale=sc)
        grids.append([[tok(v) for v in vs] for vs in grid])
        dtypes.append(''.join(pv[1] for pv in picked))
        cells.append(c)
    return {'specs': specs, 'pnames': pn, 'grids': grids, 'dtypes': dtypes, 'cells': cells, 'fixed': [['f', 3]],
            'kinds': [pl[0] for pl in pools], 'name_kind': nkind, 'orders': orders,
            'queries': rng.chance(0.4), 'param_paths': [rng.choice([0, 0, 2]), rng.choice([0, 2])],
            'np': rng.below(1000) if rng.chance(0.35) else None,
            'use_add': rng.chance(0.5), 'scale': list(sc)}


# ------------------------------------------------------------------ correspondence
def corr_scripts(ctx, drv, name, gen, count, long=False):
    batch, metas = [], []

    def flush():
        if not batch:
            return
        out = drv.ask(batch)
        for (ops, im_c), reply in zip(metas, out):
            mo = parse_model(reply)
            d = first_diff(im_c, mo)
            line = ' '.join(ops)
            nontriv = len(ops) >= 4
            ok = ctx.corr(name, line, 'agree' if d is None else d, 'agree', nontrivial=nontriv, key=(name, line))
            if ok:
                for e in im_c['errs']:
                    ctx.branch('err:' + e.split(':')[1])
            ctx.sample({'script': line[:300], 'impl==model': d is None, 'objects': len(im_c['res'])}, limit=4)
        del batch[:], metas[:]

    for _ in range(count):
        try:
            ops, im = gen(ctx.rng, long)
            im_c = im.canon()
        except core.Infra:
            raise
        except Exception as e:
            # the library (or its state) did something the harness cannot even represent: a failing input
            log = list(getattr(Impl.last, 'log', []))
            ctx.fail('script', 'script:exception:%s' % type(e).__name__, {'ops': log}, repr(e)[:300])
            ctx.branch('script-exception')
            continue
        for kd in getattr(im, 'kinds', []):
            ctx.branch('script:values=' + kd)
        if getattr(im, 'name_kind', None):
            ctx.branch('script:names=' + im.name_kind)
        if getattr(im, 'order_differs', False):
            ctx.branch('script:result-names-in-different-order')
        if getattr(im, 'np_updates', 0):
            ctx.branch('script:R1:np-scalars', im.np_updates)
        r1516.note_script(ctx, im)
        sc = getattr(im, 'scale', (0, 0))
        if max(sc) >= 20:
            ctx.branch('script:R6:scale-1e12')
        if min(sc) <= -20:
            ctx.branch('script:R6:scale-1e-12')
        for op in ops:
            f = op.split(',')
            if f[0] == 'sp' and len(f) > 4:
                for ch in f[4]:
                    if ch not in 'if':
                        ctx.branch('script:R2:container-' + ch)
        recv = {}
        for op in ops:
            f = op.split(',')
            if f[0] in ('m', 'ma') and f[1] != f[2]:
                recv.setdefault((f[0], f[2]), set()).add(f[1])
        if any(len(v) >= 2 for (k0, _), v in recv.items() if k0 == 'm'):
            ctx.branch('script:R7:result-merged-into-two')
        if any(len(v) >= 2 for (k0, _), v in recv.items() if k0 == 'ma'):
            ctx.branch('script:R7:resultset-operand-twice')
        for op in ops:
            ctx.branch('op:' + op.split(',')[0])
        batch.append('prog ' + ' '.join(ops))
        metas.append((ops, im_c))
        if len(batch) >= 500:
            flush()
    flush()


def corr_trees(ctx, drv, count, nmax):
    lines, metas = [], []
    for _ in range(count):
        case = gen_partition_case(ctx.rng, nmax)
        ty, acc, cn = case['ty'], case['acc'], case['cn']
        obs = [tuple(o) for o in case['obs']]
        t = tuplify(case['tree'])
        try:
            a = res_state(eval_tree_impl(t, ty, acc, cn, obs))
        except Exception as e:
            a = 'error:' + type(e).__name__
            ctx.fail('Result.merge', '%s:merge:exception:%s' % (TYN[ty], type(e).__name__), case, repr(e)[:300])
        try:
            b = res_state(feed(make_result(ty, acc, cn), obs))
        except Exception as e:
            b = 'error:' + type(e).__name__
            ctx.fail('Result.merge', '%s:update:exception:%s' % (TYN[ty], type(e).__name__), case, repr(e)[:300])
        lines.append('tree %d %d %d %s %s' % (ty, 1 if acc else 0, cn if ty == 3 else 0, '.'.join(tree_shape(t)),
                                              ';'.join('%s,%s' % o for o in obs) or ';'))
        metas.append((case, a, b))
        ctx.branch('tree:' + TYN[ty])
    out = drv.ask(lines)

    def st(s):
        if s.startswith('error:'):
            return s
        f = s.split(',')
        return (f[0], int(f[1]), f[2], tuple(int(x) for x in f[3].split(':') if x != ''), f[4], f[5], f[6],
                int(f[7]), f[8] == '1', tuple(x for x in f[9].split(':') if x != ''),
                tuple(x for x in f[10].split(':') if x != ''))

    for (case, a, b), reply, line in zip(metas, out, lines):
        if reply == 'bad-op':
            ctx.corr('evalTree', line, 'value', 'bad-op')
            continue
        ma, mb = reply.split('|')
        ctx.corr('evalTree', line, a, st(ma), nontrivial=len(case['obs']) >= 2, key=('tree', line))
        ctx.corr('foldUpdM', line, b, st(mb), nontrivial=len(case['obs']) >= 2, key=('fold', line))


def corr_float_stream(ctx, drv, count):
    """tolerance stream: arbitrary positive binary64 observations; the model adds the exact rationals"""
    lines, metas = [], []
    for _ in range(count):
        ty = ctx.rng.choice([0, 1])
        n = ctx.rng.randint(1, 30)
        obs = []
        for _ in range(n):
            v = ctx.rng.uniform(0.001, 1000.0)
            t = ctx.rng.uniform(0.5, 2000.0)
            obs.append((v, t if ty == 1 else None))
        tree = gen_tree(ctx.rng, n, 6)
        r = None
        try:
            def ev(t):
                if t[0] == 'L':
                    x = make_result(ty, False, 0)
                    for v, tt in obs[t[1]:t[2]]:
                        x.update(v, tt)
                    return x
                a, b = ev(t[1]), ev(t[2])
                a.merge(b)
                return a
            r = ev(tree)
        except Exception as e:
            r = e
        lines.append('tree %d 0 0 %s %s' % (ty, '.'.join(tree_shape(tree)),
                                            ';'.join('%s,%s' % (tok(Fraction(v)), '-' if tt is None else tok(Fraction(tt)))
                                                     for v, tt in obs)))
        metas.append(r)
        run_oracle(ctx, 'Result.merge/float',
                   {'ty': ty, 'tree': tree,
                    'obs': [[tok(Fraction(v)), '-' if tt is None else tok(Fraction(tt))] for v, tt in obs]})
    out = drv.ask(lines)
    for r, reply, line in zip(metas, out, lines):
        ok = False
        if not isinstance(r, Exception) and reply != 'bad-op' and not reply.startswith('error'):
            f = reply.split('|')[0].split(',')
            mv, mt, ms, mq, mn = (Fraction(f[2]), Fraction(f[4]), Fraction(f[5]), Fraction(f[6]), int(f[7]))
            ok = (core.close(r._value, float(mv)) and core.close(r._total, float(mt))
                  and core.close(r._result_sum, float(ms)) and core.close(r._result_squared_sum, float(mq))
                  and r.num_updates == mn)
        ctx.corr('float-stream', line[:200], 'close' if ok else 'differs', 'close', key=('float', line))


def correspondence(ctx, quick):
    drv = core.Driver(DRIVER)
    k = 4 if quick else 30
    corr_scripts(ctx, drv, 'Result.script', gen_result_script, 600 * k, long=not quick)
    corr_scripts(ctx, drv, 'SimulationResults.script', gen_sim_script, 500 * k, long=not quick)
    corr_scripts(ctx, drv, 'combine.script', gen_combine_script, 300 * k, long=not quick)
    corr_scripts(ctx, drv, 'combine.script', lambda rng, long: big_script(rng), 1 if quick else 3)
    ctx.branch('script:R14:260-combinations')
    r1516.correspondence(ctx, drv, quick)
    corr_trees(ctx, drv, 600 * k, 40 if quick else 120)
    corr_float_stream(ctx, drv, 100 * k)


# ------------------------------------------------------------------ corpus (witnesses also proved in Lean, past failures)
def witnesses(ctx):
    import glob
    import json
    import os
    d = os.path.join(core.VERIF, 'corpus', 'c06')
    for fn in sorted(glob.glob(os.path.join(d, '*.json'))):
        with open(fn) as f:
            w = json.load(f)
        run_oracle(ctx, w['call'], w['case'], key='corpus:' + os.path.basename(fn))
        ctx.branch('corpus')


def note_case(ctx, case):
    """branch counters of the robustness classes, computed from the input"""
    if case.get('np') is not None:
        ctx.branch('R1:np-scalars')
    sc = case.get('scale') or [0, 0]
    if sc[0] >= 20 or sc[1] >= 20:
        ctx.branch('R6:scale-1e12')
    if sc[0] <= -20 or sc[1] <= -20:
        ctx.branch('R6:scale-1e-12')
    obs = []
    for key in ('obs', 'chunks'):
        v = case.get(key)
        if isinstance(v, list):
            obs += [o for c in v for o in (c if c and isinstance(c[0], list) and isinstance(c[0][0], list) else [c])]
    if any(isinstance(o, list) and o and o[0] == '0' for o in obs):
        ctx.branch('R5:value-0')
    if case.get('cn') == 1 and case.get('ty') == 3:
        ctx.branch('R5:choice_num-1')
    for d in (case.get('dtypes') or []):
        for ch in (d or ''):
            if ch not in 'if':
                ctx.branch('R2:container-' + ch)
    if 'grids' in case:
        n = 1
        for a, b in zip(case['grids'][0], case['grids'][1]):
            n *= len(set(a) | set(b))
        if n == 1:
            ctx.branch('R5:single-combination')
        if any(len(vs) == 0 for g in case['grids'] for vs in g):
            ctx.branch('R5:empty-value-list')
        if case.get('use_add'):
            ctx.branch('R3:params-shared-with-caller')
        if 2 in (case.get('param_paths') or []):
            ctx.branch('R8:params-by-replacement')
        ctx.branch('R13:derived-objects')
    if case.get('queries'):
        ctx.branch('R11:queries')


def big_cases(ctx, quick):
    """R14: counts of 257 / 258 / 300 (chunks, result names, parameter values, choices); one of each per quick
    run, a few more in the thorough tier"""
    rng = ctx.rng
    for rep in range(1 if quick else 3):
        # 300 chunks merged along a random tree
        ty = rng.choice([0, 1, 3])
        cn = rng.choice([257, 300])
        n = 300 + rep
        obs = gen_obs_list(rng, ty, cn, n)
        leaves = [['L', i, i + 1] for i in range(n)]
        while len(leaves) > 1:
            j = rng.below(len(leaves) - 1)
            leaves[j:j + 2] = [['N', leaves[j], leaves[j + 1]]]
        run_oracle(ctx, 'Result.merge', {'ty': ty, 'acc': rng.chance(0.5), 'cn': cn, 'obs': obs, 'tree': leaves[0]},
                   key=('big-tree', rep))
        ctx.branch('R14:300-chunks')
        # a result set with 258 result names, merged three times, names in different orders
        nn = 258
        specs = [['n%d' % i, rng.choice([0, 1]), False, 1] for i in range(nn)]
        ob = {sp[0]: gen_obs_list(rng, sp[1], 1, 3) for sp in specs}
        run_oracle(ctx, 'SimulationResults.merge_all_results',
                   {'specs': specs, 'obs': ob, 'tree': ['N', ['N', ['L', 0, 1], ['L', 1, 2]], ['L', 2, 3]],
                    'into_empty': rep % 2 == 1, 'prefix': {}, 'name_rot': 101}, key=('big-names', rep))
        ctx.branch('R14:258-result-names')
        # 257+ parameter values in the union grid
        a = list(range(1, 181 + rep))
        b = list(range(120, 300))
        rng.shuffle(a)
        rng.shuffle(b)
        cells = [{'x': {str(v): [[str(v % 7), '-']] for v in a}}, {'x': {str(v): [[str(v % 5), '-'], ['1', '-']] for v in b}}]
        run_oracle(ctx, 'combine_simulation_results',
                   {'specs': [['x', 0, False, 1]], 'pnames': ['user10'], 'name_kind': 'plain',
                    'grids': [[[str(v) for v in a]], [[str(v) for v in b]]], 'dtypes': ['w', 'h'], 'cells': cells,
                    'fixed': [['f', 3]], 'orders': [[0], [0]], 'queries': False}, key=('big-grid', rep))
        ctx.branch('R14:299-combinations')
        # CHOICE with 300 choices, indices above 256
        case = gen_forms_case(rng, big=True)
        case['ty'] = 3
        case['cn_tag'] = rng.choice(['p', 'h', 'w', 'q', 'P'])
        case['obs'] = [[str(i), '-'] for i in (0, 255, 256, case['cn'] - 2, case['cn'] - 1, -1, -case['cn'], 256)]
        run_oracle(ctx, 'entry-points', case, key=('big-choice', rep))
        ctx.branch('R9:index-above-256')


def big_script(rng):
    """R14 in the correspondence: two result sets over grids of 150 values (union 260), one result each"""
    im = Impl()
    ops = []

    def do(op):
        ops.append(op)
        im.step(op)

    a = list(range(1, 151))
    b = list(range(111, 261))
    rng.shuffle(a)
    rng.shuffle(b)
    for s_i, vals in enumerate((a, b)):
        do('ns')
        do('sp,%d,%s=3,%s=%s,%s' % (s_i, enc_name('f'), enc_name('x10'), ':'.join(str(v) for v in vals),
                                    rng.choice('iwh')))
        for v in vals:
            do('cr,r,0,0,%d,0' % (v % 9))
            do('ap,%d,r%d' % (s_i, len(im.rv) - 1))
    do('qs,0')
    do('cb,0,1')
    do('up,2')
    do('cps,2')
    do('g,s2.r.L')
    im.big = True
    return ops, im


def oracles(ctx, quick):
    k = 4 if quick else 30
    nmax = 40 if quick else 150
    for _ in range(500 * k):
        case = gen_partition_case(ctx.rng, nmax)
        r = run_oracle(ctx, 'Result.merge', case, nontrivial=len(case['obs']) >= 2)
        ctx.branch('partition:' + TYN[case['ty']])
        note_case(ctx, case)
    # MISC at full strength needs non-empty chunks: a dedicated stream without empty leaves
    for _ in range(100 * k):
        case = gen_partition_case(ctx.rng, nmax, ty=TY['misc'], allow_empty=False)
        run_oracle(ctx, 'Result.merge', case, nontrivial=len(case['obs']) >= 2)
    for ty in (0, 1, 2, 3):                   # every type with accumulation on AND off
        for acc in (False, True):
            for _ in range(40 * k):
                case = gen_history_case(ctx.rng, ty, acc)
                run_oracle(ctx, 'Result.merge/history', case)
                ctx.branch('history:%s:acc=%d' % (TYN[ty], 1 if acc else 0))
                ctx.branch('R7:chunk-in-three-accumulators')
                note_case(ctx, case)
    big_cases(ctx, quick)
    for _ in range(120 * k):
        case = gen_forms_case(ctx.rng)
        run_oracle(ctx, 'entry-points', case)
        ctx.branch('R8:forms:' + TYN[case['ty']])
        if case['cn_tag'] != 'p':
            ctx.branch('R9:count-numpy')
    for _ in range(150 * k):
        case = gen_rejected_case(ctx.rng)
        run_oracle(ctx, 'rejected-call', case)
        ctx.branch('rejected:%s:%s' % (case['kind'], case['why']))
    for _ in range(200 * k):
        case = gen_mergeall_case(ctx.rng, 12 if quick else 40)
        run_oracle(ctx, 'SimulationResults.merge_all_results', case)
        if case.get('name_rot'):
            ctx.branch('mergeall:result-names-in-different-order')
        note_case(ctx, case)
    for _ in range(100 * k):
        run_oracle(ctx, 'SimulationResults.append_all_results', gen_appendall_case(ctx.rng))
    for _ in range(150 * k):
        case = gen_combine_case(ctx.rng)
        run_oracle(ctx, 'combine_simulation_results', case)
        ctx.branch('combine:nunp=%d' % len(case['pnames']))
        for kd in case['kinds']:
            ctx.branch('combine:values=' + kd)
        ctx.branch('combine:class=' + grid_kind(case['grids']))
        if len(case['pnames']) >= 2:
            ctx.branch('combine:names=' + case['name_kind'])
        if case['orders'][0] != case['orders'][1]:
            ctx.branch('combine:result-names-in-different-order')
            if len({(t, a, c) for _, t, a, c in case['specs']}) == 1:
                ctx.branch('combine:different-order+same-typed')
        note_case(ctx, case)


def exhaustive_small(ctx):
    """thorough: every tree shape over every split of short sequences, all four types"""
    def trees(lo, hi, nleaf):
        # all binary trees with nleaf contiguous leaves covering [lo,hi) (empty leaves allowed)
        if nleaf == 1:
            yield ('L', lo, hi)
            return
        for kl in range(1, nleaf):
            for mid in range(lo, hi + 1):
                for l in trees(lo, mid, kl):
                    for r in trees(mid, hi, nleaf - kl):
                        yield ('N', l, r)

    pool = {0: [['3', '-'], ['-5/2', '-'], ['7', '-'], ['0', '-']],
            1: [['3', '4'], ['1', '2'], ['-5', '8'], ['7', '1']],
            2: [['3', '-'], ['9', '-'], ['-1', '-'], ['4', '-']],
            3: [['0', '-'], ['2', '-'], ['-1', '-'], ['1', '-']]}
    cnt = 0
    for ty in (0, 1, 2, 3):
        for n in range(0, 5):
            for nleaf in range(1, 5):
                for t in trees(0, n, nleaf):
                    for acc in (False, True):
                        case = {'ty': ty, 'acc': acc, 'cn': 3, 'obs': pool[ty][:n], 'tree': t}
                        run_oracle(ctx, 'Result.merge', case, key=('ex', ty, n, acc, repr(t)))
                        cnt += 1
    ctx.branch('exhaustive-trees', cnt)
    ctx.extra['exhaustive_scope'] = ('all binary merge trees with <= 4 leaves over all contiguous splits '
                                     '(empty chunks included) of fixed sequences of length 0..4, 4 types, '
                                     'accumulation on/off: %d cases' % cnt)


def check(ctx):
    quick = ctx.tier == 'quick'
    ctx.rule = ('scripts generated while running the real classes: Result level (2-5 objects of one of the 4 types, '
                'accumulation on/off, valid and malformed updates, merges in arbitrary order incl. incompatible '
                'operands), SimulationResults level (2-5 objects, add/append/merge_all/append_all in arbitrary '
                'order, merges into empty objects followed by further merges, updates through shared objects), '
                'combine level (0-3 unpacked parameters whose overlapping values are drawn per parameter from one of: '
                'small ints, dyadics, mixed int/float equal values (2 vs 2.0), 1e-9..1e-12-scale floats, 1e9-scale '
                'floats with relative gaps 1e-6..1e-12, neighbouring doubles; rare duplicates and ill-formed operands); merge trees over random contiguous splits (length 0-40 quick / 0-150 '
                'thorough); non-trivial = distinct script with >= 4 ops / distinct case with >= 2 observations')
    core.prove(ctx, MODULE, generated=['C06Result', 'C06Sim'], drivers=[DRIVER], scratch=ctx.scratch)
    ctx.required_branches = ['corpus', 'op:ma', 'op:aa', 'op:cb', 'op:m', 'op:u', 'tree:sum', 'tree:ratio', 'tree:misc',
                             'tree:choice', 'err:AssertionError', 'err:ZeroDivisionError', 'err:ValueError',
                             'err:IndexError', 'err:KeyError', 'err:RuntimeError',
                             'partition:choice', 'combine:nunp=0', 'combine:nunp=2', 'combine:values=tiny', 'combine:values=big',
                             'combine:values=ulp', 'combine:values=mixed', 'combine:class=close-values',
                             'history:sum:acc=1', 'history:misc:acc=1', 'history:choice:acc=0', 'script:values=tiny',
                             'R1:np-scalars', 'script:R1:np-scalars', 'R2:container-e', 'R2:container-l', 'R2:container-t',
                             'R2:container-s', 'R2:container-r', 'R2:container-c', 'R2:container-b', 'script:R2:container-s',
                             'R3:params-shared-with-caller', 'rejected:update:ratio-total-0', 'rejected:merge:choice_num',
                             'rejected:merge:type', 'rejected:merge_all:type-in-later-name', 'rejected:merge_all:missing-name',
                             'rejected:merge_all:nsr-type', 'rejected:combine:fixed-value', 'rejected:combine:result-names',
                             'R5:value-0', 'R5:choice_num-1', 'R5:single-combination', 'R5:empty-value-list',
                             'R6:scale-1e12', 'R6:scale-1e-12', 'script:R6:scale-1e12', 'script:R6:scale-1e-12',
                             'R7:chunk-in-three-accumulators', 'script:R7:result-merged-into-two',
                             'script:R7:resultset-operand-twice', 'combine:names=digits', 'combine:names=case',
                             'combine:names=prefix', 'combine:names=leading', 'combine:names=unicode',
                             'script:names=digits', 'script:names=case', 'script:names=prefix', 'script:names=leading',
                             'script:names=unicode', 'script:result-names-in-different-order', 'op:ro',
                             'combine:result-names-in-different-order', 'combine:different-order+same-typed',
                             'mergeall:result-names-in-different-order',
                             'op:cr', 'op:an', 'op:cp', 'op:cps', 'op:q', 'op:qs', 'R8:forms:choice', 'R8:forms:ratio',
                             'R8:params-by-replacement', 'R9:count-numpy', 'R9:index-above-256', 'R2:container-m',
                             'R11:queries', 'R13:derived-objects', 'R14:300-chunks', 'R14:258-result-names',
                             'R14:299-combinations', 'script:R14:260-combinations',
                             'script:values=big', 'script:values=ulp', 'script:values=mixed'] + r1516.REQUIRED
    try:
        correspondence(ctx, quick)
    except core.Infra as e:
        if not ctx.broken:
            raise
        ctx.notes.append('correspondence skipped: %s' % e)
        ctx.required_branches = []
    except Exception as e:      # never exit 2 because the changed library surprised the harness
        import traceback
        ctx.tie_broken('correspondence', 'harness-exception:%s' % type(e).__name__, traceback.format_exc()[-1500:])
        ctx.required_branches = []
    witnesses(ctx)
    oracles(ctx, quick)
    r1516.oracles(ctx, quick)
    if not quick:
        exhaustive_small(ctx)
    ctx.notes.append('Result.update / merge / get_result / mean / var (Generated/C06Result.lean) and '
                     'SimulationResults.add_result / append_result / add_new_result / merge_all_results '
                     '(Generated/C06Sim.lean) regenerated from results.py and proved equal to the hand model; hand model Model/C06.lean + '
                     'Model/C06Heap.lean tied by exact differential scripts; '
                     'floating point outside the theorems (exact inputs; one tolerance stream rtol 1e-9)')


def search(ctx):
    """deeper failing-input search, used when a proof / correspondence broke"""
    for _ in range(4000):
        run_oracle(ctx, 'Result.merge', gen_partition_case(ctx.rng, 60))
    for _ in range(3000):
        run_oracle(ctx, 'Result.merge/history', gen_history_case(ctx.rng))
    for _ in range(2000):
        run_oracle(ctx, 'rejected-call', gen_rejected_case(ctx.rng))
    for _ in range(2000):
        run_oracle(ctx, 'entry-points', gen_forms_case(ctx.rng))
    for _ in range(1500):
        run_oracle(ctx, 'SimulationResults.merge_all_results', gen_mergeall_case(ctx.rng, 20))
    for _ in range(500):
        run_oracle(ctx, 'SimulationResults.append_all_results', gen_appendall_case(ctx.rng))
    for _ in range(1500):
        run_oracle(ctx, 'combine_simulation_results', gen_combine_case(ctx.rng))
    r1516.search(ctx)
