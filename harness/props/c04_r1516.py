"""C04 -- robustness classes R15 and R16 (helper module of harness/props/c04.py; not a property module).

R15  distinct values that are merely close.  Wherever mimo.py / util.misc.gmd compares, thresholds or decides on a
     value -- `noise_var > 0` (MMSE or zero forcing), `noise_var >= 0.0` (guard), `S >= tol`, `d[i] >= sigma_bar` /
     `d[i] <= sigma_bar` (rotate or not inside gmd), `1 / S`, the division by the Frobenius norm / by sum |h|, and
     every setter (a setter called with a close-but-different value must take effect) -- sequences of values that
     numpy's default `isclose` / `allclose` (atol 1e-8, rtol 1e-5), a rounded key or an absolute threshold would
     identify are run on ONE object (and on the static / module functions): tiny magnitudes 1e-9 .. 1e-15, values
     2.4e9 vs 2.4e9 + 2e4, relative 1e-6, adjacent doubles, differences beyond the 12th decimal.  Each value must
     give the first-principles result for THAT value (defining equation of the filter decode() applies, SINR from
     its definition, noise-free round trip, gmd contract) and what is read back must be the value bit for bit.
R16  argument identity and buffer reuse.  (i) ONE preallocated array per role, refilled in place before every call
     on one object / function, in histories of 2-4 rounds; (ii) the same array object in two roles; (iii) an
     argument modified right after the call; (iv) an equal-content but different object.  Results depend only on
     the contents at call time; earlier results never change.

Every comparison is relative to the scale of the data (no absolute floor).  Both classes have a correspondence part
(histories replayed on the Lean object model: `R15:corr`, `R16:corr`) and a first-principles oracle part
(`R15:oracle`, `R16:oracle`), each a required branch, and failure classes computed from the input.
"""
import math
import warnings

import numpy as np


def B():
    from harness.props import c04
    return c04


FAM = ('blast', 'mrc', 'svd', 'gmd')          # classes with set_noise_var
NV_DECODE = ('blast', 'mrc', 'gmd')           # decode() depends on the noise variance


# ------------------------------------------------------------------------------------------------ helpers
def well_conditioned(g, nr, nt, max_cond=6.0, cplx=True):
    b = B()
    for _ in range(400):
        a = g.raw(nr, nt, cplx)
        if b.cond2(a) <= max_cond and float(np.abs(a).min()) > 0.05:
            return np.array(a, dtype=complex)
    q = g.unitary(max(nr, nt))[:nr, :nt]
    return np.array(q + 0.25, dtype=complex)


def chan_arg(scheme, H2, vector):
    """the 2-D channel or (MRC / MRT / one-antenna Alamouti) its documented 1-D form"""
    if vector and ((scheme == 'mrc' and H2.shape[1] == 1) or (scheme in ('mrt', 'alamouti') and H2.shape[0] == 1)):
        return np.array(H2.reshape(-1))
    return np.array(H2)


def r_shape(rng, scheme, max_n):
    if scheme in ('blast', 'svd', 'gmd'):
        nt = rng.randint(1, min(max_n, 4))
        return rng.randint(nt, min(max_n, 5)), nt
    if scheme == 'mrc':
        return rng.randint(1, max_n), 1
    if scheme == 'mrt':
        return 1, rng.randint(1, max_n)
    return rng.randint(1, max_n), 2


def n_sym(scheme, nt, L):
    return 2 * L if scheme == 'alamouti' else (nt * L if scheme in ('blast', 'svd', 'gmd') else L)


def rel_close(a, b_, rtol):
    """element by element |a - b| <= rtol * |b| (SINRs of different streams differ by orders of magnitude)"""
    a, b_ = np.asarray(a, dtype=float).reshape(-1), np.asarray(b_, dtype=float).reshape(-1)
    if a.shape != b_.shape:
        return False, 'shape %s vs %s' % (a.shape, b_.shape)
    if not (np.all(np.isfinite(a)) and np.all(np.isfinite(b_))):
        return False, 'non-finite'
    err = np.abs(a - b_) / np.maximum(np.abs(b_), 1e-300)
    if a.size and float(err.max()) > rtol:
        return False, 'relative error %.3e (limit %.1e)' % (float(err.max()), rtol)
    return True, ''


def fp_sinr(A, G, v):
    """post-processing SINR of every stream from its definition: equivalent channel A = H W, receive filter G,
    white noise of variance v"""
    ce = G @ A
    s = np.diag(ce)
    itf = ce.sum(axis=1) - s
    return np.abs(s) ** 2 / (np.abs(itf) ** 2 + v * (np.abs(G) ** 2).sum(axis=1))


def fp_filter(Heq, v):
    """the linear receiver the property defines for channel Heq: zero forcing (v = 0) or MMSE, computed directly"""
    b = B()
    if v > 0:
        return np.linalg.solve(b.Hm(Heq) @ Heq + v * np.eye(Heq.shape[1]), b.Hm(Heq))
    return np.linalg.pinv(Heq)


def defining_equation(G, Heq, v, c):
    """does the receive filter G satisfy the ZF (v = 0) / MMSE (v > 0) defining equation for channel Heq?  relative"""
    b = B()
    nt = Heq.shape[1]
    if v > 0:
        A = b.Hm(Heq) @ Heq + v * np.eye(nt)
        return b.near(A @ G, b.Hm(Heq), 1e-9, scale=b.amax(A) * b.amax(G) * nt * nt)
    return b.near(G @ Heq, np.eye(nt), 1e-10 * max(1.0, c))


def nextafter_c(A, up):
    A = np.asarray(A, dtype=complex)
    d = np.inf if up else -np.inf
    return np.nextafter(A.real, d) + 1j * np.nextafter(A.imag, -d)


# ====================================================================================== R15: close values
NOISE_FAMILIES = {
    # name: (scale of the channel, noise variances set one after the other on ONE object)
    'tiny': (1e-6, [4e-12, 4e-13, 2e-15, 0.0, 1e-13, 4e-13, 4e-12]),
    'tiny2': (3e-5, [1e-9, 1e-10, 3e-11, 1.0000001e-9, 1e-9]),
    'rel1e-6': (1.0, [0.3, 0.3 * (1 + 1e-6), 0.3 * (1 - 4e-6), 0.3]),
    'large': (4.9e4, [2.4e9, 2.4e9 + 2e4, 2.4e9 - 1.5e4, 2.4e9]),
    'adjacent': (1.0, [0.3, 0.30000000000000004, 0.29999999999999993, 0.3]),
    'decimal13': (1.0, [0.5, 0.5 + 1e-13, 0.5 - 3e-13, 0.5]),
}
CHANNEL_FAMILIES = ('tiny', 'rel1e-6', 'adjacent', 'decimal13')
SINGULAR_FAMILIES = {
    'near-equal': [1 + 2e-7, 1.0, 1 - 3e-7, 1 - 1e-6],
    'rel1e-6-large': [2.4e9 + 2e4, 2.4e9, 2.4e9 - 1e4, 2.4e9 - 3e4],
    'tiny': [3e-12, 2.9999e-12, 1e-12, 9.99999e-13],
    'adjacent': [1 + 2.0 ** -52, 1.0, 1 - 2.0 ** -53, 1 - 2.0 ** -52],
    'decimal13': [1 + 2e-13, 1 + 1e-13, 1.0, 1 - 1e-13],
    'two-clusters': [5.0, 5.0 - 1e-6, 0.2 + 1e-7, 0.2],
}


def close_channels(g, family, nr, nt):
    """channels that `np.allclose` (default tolerances) cannot tell apart, or can only just"""
    B0 = well_conditioned(g, nr, nt)
    D1 = np.sign(g.rs.randn(nr, nt)) * g.rs.uniform(0.5, 1.0, size=(nr, nt))
    D2 = np.sign(g.rs.randn(nr, nt)) * g.rs.uniform(0.5, 1.0, size=(nr, nt))
    if family == 'tiny':
        return [B0 * 1e-9, well_conditioned(g, nr, nt) * 1e-9, B0 * 3e-12, well_conditioned(g, nr, nt) * 1e-15, B0 * 1e-9]
    if family == 'rel1e-6':
        H = B0 * 2.4e9
        return [H, H * (1 + 8e-6 * D1), H * (1 - 6e-6 * D2), H]
    if family == 'adjacent':
        return [B0, nextafter_c(B0, True), nextafter_c(B0, False), B0]
    return [B0, B0 + 1e-13 * D1, B0 - 2e-13 * D2, B0]


def precoder_of(obj, scheme, H2):
    """sqrt(Nt) x the precoder the object transmits with (identity for Blast / MRC), None where there is none"""
    nt = H2.shape[1]
    if scheme == 'alamouti':
        return None
    return np.asarray(obj._calc_precoder(obj._channel), dtype=complex) * math.sqrt(nt)


def check_value(obj, scheme, H2, x, v, fresh, where):
    """everything the object says for the CURRENT configuration (channel H2, noise variance v) against first
    principles and against `fresh`, an object built from scratch for exactly these values"""
    b = B()
    nr, nt = H2.shape
    c = b.cond2(H2)
    fam = scheme in FAM
    if not (isinstance(obj._channel, np.ndarray) and obj._channel.shape == H2.shape and np.array_equal(obj._channel, H2)):
        return 'stored-channel', where + 'the stored channel is not the channel handed over'
    if fam and not (obj._noise_var == v):
        return 'stored-noise-var', where + '_noise_var reads %r after set_noise_var(%r)' % (obj._noise_var, v)
    e = np.asarray(obj.encode(x))
    y = H2 @ e
    d = np.asarray(obj.decode(y))
    ef, df = np.asarray(fresh.encode(x)), np.asarray(fresh.decode(y))
    ok, why = b.near(e, ef)
    if not ok:
        return 'encode', where + 'encode differs from a fresh object: ' + why
    ok, why = b.near(d, df, scale=b.xscale(c, x))
    if not ok:
        return 'decode', where + 'decode differs from a fresh object: ' + why
    uses = e.shape[1]
    if uses:
        per_use, mean_sym = float((np.abs(e) ** 2).sum()) / uses, float((np.abs(x) ** 2).mean())
        if abs(per_use - mean_sym) > 1e-10 * mean_sym:
            return 'energy', where + 'energy per channel use %.12g, mean symbol energy %.12g' % (per_use, mean_sym)
    if scheme not in NV_DECODE or v == 0:
        ok, why = b.near(d, x, 1e-10, scale=b.xscale(c, x))
        if not ok:
            return 'roundtrip', where + 'noise-free round trip: ' + why
    if scheme in NV_DECODE:
        Wp = precoder_of(obj, scheme, H2)
        Heq = H2 @ Wp
        G = b.used_filter(obj, nr) / math.sqrt(nt)
        ok, why = defining_equation(G, Heq, v, c)
        if not ok:
            return 'decode-filter', where + 'the filter decode() applies violates the %s defining equation for noise_var=%r: %s' % (
                'MMSE' if v > 0 else 'ZF', v, why)
        Gs = np.asarray(type(obj)._calc_receive_filter(H2, v)) / math.sqrt(nt)
        ok, why = defining_equation(Gs, Heq, v, c)
        if not ok:
            return 'static-filter', where + '_calc_receive_filter(channel, %r) violates its defining equation: %s' % (v, why)
    return None


def sinr_check(obj, scheme, H2, v, fresh, where, memo):
    """calc_linear_SINRs(v) for v > 0: from the definition (Blast / MRC / GMD), or (SVD / MRT / Alamouti, whose
    filters do not depend on v) SINR x v is one constant for every v"""
    b = B()
    nt = H2.shape[1]
    s = b.sinr_lin(scheme, obj.calc_linear_SINRs(v))
    sf = b.sinr_lin(scheme, fresh.calc_linear_SINRs(v))
    ok, why = rel_close(s, sf, 1e-8)
    if not ok:
        return 'sinr', where + 'calc_linear_SINRs(%r) differs from a fresh object: %s' % (v, why)
    if scheme in NV_DECODE:
        Wp = precoder_of(obj, scheme, H2)
        Heq = H2 @ Wp
        want = fp_sinr(Heq / math.sqrt(nt), fp_filter(Heq, v) * math.sqrt(nt), v)
        ok, why = rel_close(s, want, 1e-7)
        if not ok:
            return 'sinr', where + 'calc_linear_SINRs(%r) is not the SINR of the MMSE receiver for that noise variance: %s' % (v, why)
    else:
        prod = np.asarray(s, dtype=float) * v
        if 'prod' in memo:
            ok, why = rel_close(prod, memo['prod'], 1e-9)
            if not ok:
                return 'sinr', where + 'SINR x noise_var changed from %r to %r between noise variances %r and %r' % (
                    memo['prod'].tolist(), prod.tolist(), memo['v'], v)
        else:
            memo['prod'], memo['v'] = prod, v
    return None


def o_close(case):
    """R15: close-but-distinct noise variances / channels / singular values: each gives the result for THAT value"""
    b = B()
    scheme, kind, family = case['scheme'], case['kind'], case['family']
    cls0 = 'R15:%s:%s:%s:' % (scheme, kind, family)
    with warnings.catch_warnings():
        warnings.simplefilter('ignore')
        try:
            if kind == 'singular':
                return close_singular(case, cls0)
            x = b.dec(case['x'])
            if kind == 'noise':
                Harg = b.dec(case['H'])
                H2 = b.as2d(scheme, Harg)
                obj = b.make(scheme, np.array(Harg))
                memo = {}
                for i, v in enumerate(case['values']):
                    where = 'value %d (%r): ' % (i, v)
                    if scheme in FAM:
                        obj.set_noise_var(v)
                    fresh = b.fresh_like(scheme, np.array(Harg), v)
                    r = check_value(obj, scheme, H2, x, v if scheme in FAM else 0.0, fresh, where)
                    if r is None and v > 0:
                        r = sinr_check(obj, scheme, H2, v, fresh, where, memo)
                    if r is not None:
                        return cls0 + r[0], r[1]
                    if scheme in FAM and v > 0:   # the static MMSE filter of the base class, same value
                        W = np.asarray(b._mimo().MimoBase._calcMMSEFilter(H2, v))
                        ok, why = defining_equation(W, H2, v, b.cond2(H2))
                        if not ok:
                            return cls0 + 'static-filter', where + '_calcMMSEFilter(channel, %r): %s' % (v, why)
                return None
            # kind == 'channel': close-but-distinct channels set one after the other on ONE object
            chans = [b.dec(h) for h in case['chans']]
            nv = case.get('nv', 0.0)
            obj = None
            memo = {}
            for i, Harg in enumerate(chans):
                where = 'channel %d: ' % i
                H2 = b.as2d(scheme, Harg)
                if obj is None:
                    obj = b.make(scheme, np.array(Harg))
                    if scheme in FAM:
                        obj.set_noise_var(nv)
                else:
                    obj.set_channel_matrix(np.array(Harg))
                v = nv * b.amax(H2) ** 2 if case.get('nv_rel') else nv
                if scheme in FAM and case.get('nv_rel'):
                    obj.set_noise_var(v)
                fresh = b.fresh_like(scheme, np.array(Harg), v)
                r = check_value(obj, scheme, H2, x * (b.amax(H2) if case.get('x_rel') else 1.0), v if scheme in FAM else 0.0, fresh, where)
                if r is None:
                    vq = 0.5 * b.amax(H2) ** 2
                    r = sinr_check(obj, scheme, H2, vq, fresh, where, {})
                if r is not None:
                    return cls0 + r[0], r[1]
            return None
        except Exception as ex:
            return cls0 + 'exception', 'raised %s: %s' % (type(ex).__name__, str(ex)[:150])


def close_singular(case, cls0):
    """channels whose singular values are close but distinct: the gmd contract (its rotate / do-not-rotate decisions
    compare singular values with their geometric mean), the SVD and GMD schemes"""
    b = B()
    from pyphysim.util.misc import gmd
    scheme = case['scheme']
    if scheme == 'gmd-function':
        S = np.array(case['S'], dtype=float)
        n, m = len(S), case.get('m', len(S))
        U, VH = np.eye(m), np.eye(n)
        A = np.zeros((m, n))
        A[:n, :n] = np.diag(S)
        keep = (U.copy(), S.copy(), VH.copy())
        Q, R, P = gmd(U, S, VH)
        if not (np.array_equal(U, keep[0]) and np.array_equal(S, keep[1]) and np.array_equal(VH, keep[2])):
            return cls0 + 'argument-modified', 'gmd changed one of its arguments'
        why = b.c_gmd(A.astype(complex), np.asarray(Q), np.asarray(R), np.asarray(P), S)
        return None if why is None else (cls0 + 'contract', why)
    H, x = b.dec(case['H']), b.dec(case['x'])
    nr, nt = H.shape
    U, S, VH = np.linalg.svd(H)
    Q, R, P = gmd(U, S, VH)
    why = b.c_gmd(H, np.asarray(Q), np.asarray(R), np.asarray(P), S)
    if why is not None:
        return cls0 + 'contract', why
    obj = b.make(scheme, np.array(H))
    fresh = b.make(scheme, np.array(H))
    r = check_value(obj, scheme, H, x, 0.0, fresh, '')
    if r is None and scheme == 'gmd':
        v = case['nv_rel'] * b.amax(H) ** 2
        obj.set_noise_var(v)
        fresh.set_noise_var(v)
        r = check_value(obj, scheme, H, x, v, fresh, 'noise_var=%r: ' % v)
    return None if r is None else (cls0 + r[0], r[1])


# ============================================================================ R16: identity and buffer reuse
KNOWN_ALIAS = 'R16:channel-argument-kept-by-reference'


def o_reuse(case):
    """R16: results depend on the CONTENTS of the arguments at call time only"""
    mode = case['mode']
    with warnings.catch_warnings():
        warnings.simplefilter('ignore')
        try:
            return {'refill': reuse_refill, 'functions': reuse_functions, 'roles': reuse_roles,
                    'after-call': reuse_after_call}[mode](case)
        except Exception as ex:
            return 'R16:%s:%s:exception' % (case.get('scheme', 'functions'), mode), 'raised %s: %s' % (type(ex).__name__, str(ex)[:150])


def round_results(obj, scheme, H2arg, xarg, ymake, nvq):
    """every result of one round on the object, in the order a caller would ask for them: (name, value); `ymake`
    turns the encoded block into the received-data ARGUMENT (numpy only)"""
    e = obj.encode(xarg)
    out = [('encode', e), ('decode', obj.decode(ymake(np.asarray(e))))]
    if scheme != 'alamouti':
        out.append(('precoder', type(obj)._calc_precoder(H2arg)))
        out.append(('filter', type(obj)._calc_receive_filter(H2arg, nvq)))
    out.append(('sinr', obj.calc_linear_SINRs(nvq)))
    return out


def reuse_refill(case):
    """(i) + (iii) + (iv): ONE array per role refilled in place before every call on ONE object, 2-4 rounds (the loop
    of a Monte Carlo simulation: same noise variance, new channel realisation in the same array); a round may hand
    over an equal-content copy instead; buffers are scribbled over after the last round.  Phase 1 drives the object
    alone (no other library call in between: a memo keyed by the identity of an argument must not be refreshed by
    the reference computation) and checks first principles with numpy only; phase 2 compares every recorded result
    with a fresh object given copies of the same contents"""
    b = B()
    scheme = case['scheme']
    cls0 = 'R16:%s:refill:' % scheme
    fam = scheme in FAM
    rounds = case['rounds']
    H0 = b.dec(rounds[0]['H'])
    x0 = b.dec(rounds[0]['x'])
    Hbuf, xbuf = np.empty(H0.shape, dtype=complex), np.empty(x0.shape, dtype=complex)
    ybox = [None]
    obj = None
    kept = []    # (round, name, live result, snapshot)
    log = []     # per round: values handed over, received block, results (copies)

    def verify(after):
        for rk, nm, live, snap in kept:
            if np.shape(live) != snap.shape or not np.array_equal(np.asarray(live), snap):
                return cls0 + 'earlier-result-changed:' + nm, 'the %s result of round %d changed after %s' % (nm, rk, after)
        return None
    for k, rd in enumerate(rounds):
        Hk, xk, nvk = b.dec(rd['H']), b.dec(rd['x']), rd.get('nv', 0.0)
        H2k = b.as2d(scheme, Hk)
        nr, nt = H2k.shape
        c = b.cond2(H2k)
        where = 'round %d: ' % k
        Hbuf[...] = Hk
        harg = np.array(Hbuf) if rd.get('copy') else Hbuf       # (iv) an equal-content but different object
        r = verify('the channel buffer was refilled')
        if r:
            return r
        if obj is None:
            obj = b.make(scheme, harg)
        else:
            obj.set_channel_matrix(harg)
        if fam and (k == 0 or nvk != rounds[k - 1].get('nv', 0.0)):
            obj.set_noise_var(nvk)
        xbuf[...] = xk
        r = verify('the data buffer was refilled')
        if r:
            return r
        nvq = rd.get('nvq_abs') or 0.4 * b.amax(H2k) ** 2
        made = {}

        def ymake(e, H2k=H2k, made=made):
            made['y'] = H2k @ e
            if ybox[0] is None:
                ybox[0] = np.empty(made['y'].shape, dtype=complex)
            ybox[0][...] = made['y']
            return ybox[0]
        got = round_results(obj, scheme, b.as2d(scheme, harg), xbuf, ymake, nvq)
        yk, ybuf = made['y'], ybox[0]
        if not (np.array_equal(Hbuf, Hk) and np.array_equal(xbuf, xk) and np.array_equal(ybuf, yk)):
            return cls0 + 'buffer-modified', where + 'a call changed the contents of an argument buffer'
        for nm, u in got:
            if isinstance(u, np.ndarray):
                for bn, buf in (('channel', Hbuf), ('transmit-data', xbuf), ('received-data', ybuf)):
                    if np.shares_memory(u, buf):
                        return cls0 + 'result-aliases-buffer:' + nm, where + '%s shares memory with the %s buffer' % (nm, bn)
        # first principles for the contents of THIS round (numpy only)
        e, d = np.asarray(got[0][1]), np.asarray(got[1][1])
        if e.ndim == 2 and e.shape[1]:
            per_use, mean_sym = float((np.abs(e) ** 2).sum()) / e.shape[1], float((np.abs(xk) ** 2).mean())
            if abs(per_use - mean_sym) > 1e-10 * mean_sym:
                return cls0 + 'energy', where + 'energy per channel use %.12g, mean symbol energy %.12g' % (per_use, mean_sym)
        if scheme not in NV_DECODE or nvk == 0:
            ok, why = b.near(d, xk, 1e-10, scale=b.xscale(c, xk))
            if not ok:
                return cls0 + 'roundtrip', where + 'noise-free round trip of the refilled buffers: ' + why
        r = verify('round %d' % k)
        if r:
            return r
        for nm, u in got:
            if isinstance(u, np.ndarray) and u.ndim:
                kept.append((k, nm, u, np.array(u, copy=True)))
        log.append((Hk, xk, nvk, nvq, yk, [(nm, np.array(u, copy=True)) for nm, u in got]))
    # (iii) the data buffers are modified right after the last call: no result may follow
    xbuf[...] = 0
    ybox[0][...] = 0
    r = verify('the data buffers were overwritten')
    if r:
        return r
    # the filter decode() applies in the FINAL configuration (asked last: it is one more decode on the object)
    Hk, xk, nvk = log[-1][0], log[-1][1], log[-1][2]
    H2k = b.as2d(scheme, Hk)
    if scheme in NV_DECODE:
        nr, nt = H2k.shape
        Wp = np.asarray(log[-1][5][2][1], dtype=complex) * math.sqrt(nt)
        G = b.used_filter(obj, nr) / math.sqrt(nt)
        ok, why = defining_equation(G, H2k @ Wp, nvk, b.cond2(H2k))
        if not ok:
            return cls0 + 'decode-filter', 'last round: the filter decode() applies is not the %s filter of the refilled channel: %s' % (
                'MMSE' if nvk > 0 else 'ZF', why)
    # phase 2: every recorded result against a fresh object given copies of the same contents
    for k, (Hk, xk, nvk, nvq, yk, got) in enumerate(log):
        H2k = b.as2d(scheme, Hk)
        c = b.cond2(H2k)
        f = b.fresh_like(scheme, np.array(Hk), nvk)
        want = round_results(f, scheme, np.array(H2k), np.array(xk), lambda e, yk=yk: np.array(yk), nvq)
        for (nm, u_), (_, w) in zip(got, want):
            w_ = np.asarray(w)
            if nm == 'sinr':
                ok, why = rel_close(b.sinr_lin(scheme, u_), b.sinr_lin(scheme, w_), 1e-7)
            else:
                sc = b.xscale(c, xk) if nm == 'decode' else (max(1.0, c) * 4 * b.amax(w_) if nm == 'filter' else None)
                ok, why = b.near(u_, w_, scale=sc)
            if not ok:
                return cls0 + nm, 'round %d: %s differs from a fresh object given copies of the same contents: %s' % (k, nm, why)
    return None


def reuse_functions(case):
    """(i) for the static / module functions: _calcZeroForceFilter, _calcMMSEFilter, calc_post_processing_(linear_)SINRs,
    util.misc.gmd, each called 2-4 times with the same refilled argument arrays"""
    b = B()
    m = b._mimo()
    from pyphysim.util.misc import gmd
    cls0 = 'R16:functions:refill:'
    rounds = case['rounds']
    H0 = b.dec(rounds[0]['H'])
    nr, nt = H0.shape
    Hbuf = np.empty((nr, nt), dtype=complex)
    Wbuf, Gbuf = np.empty((nt, nt), dtype=complex), np.empty((nt, nr), dtype=complex)
    Ubuf, Sbuf, Vbuf = np.empty((nr, nr), dtype=complex), np.empty(min(nr, nt)), np.empty((nt, nt), dtype=complex)
    kept = []

    def verify(after):
        for rk, nm, live, snap in kept:
            if np.shape(live) != snap.shape or not np.array_equal(np.asarray(live), snap):
                return cls0 + 'earlier-result-changed:' + nm, 'the %s result of round %d changed after %s' % (nm, rk, after)
        return None
    for k, rd in enumerate(rounds):
        Hk, nv = b.dec(rd['H']), rd['nv']
        c = b.cond2(Hk)
        where = 'round %d: ' % k
        Hbuf[...] = Hk
        res = []
        Wz = np.asarray(m.MimoBase._calcZeroForceFilter(Hbuf))
        ok, why = defining_equation(Wz, Hk, 0.0, c)
        if not ok:
            return cls0 + '_calcZeroForceFilter', where + why
        Wm = np.asarray(m.MimoBase._calcMMSEFilter(Hbuf, nv))
        ok, why = defining_equation(Wm, Hk, nv, c)
        if not ok:
            return cls0 + '_calcMMSEFilter', where + why
        res += [('_calcZeroForceFilter', Wz), ('_calcMMSEFilter', Wm)]
        # SINR functions with a random (not matched) precoder / filter pair in refilled arrays
        Wk, Gk = b.dec(rd['W']), b.dec(rd['G'])
        Wbuf[...] = Wk
        Gbuf[...] = Gk
        lin = np.asarray(m.calc_post_processing_linear_SINRs(Hbuf, Wbuf, Gbuf, nv))
        ok, why = rel_close(lin, fp_sinr(Hk @ Wk, Gk, nv), 1e-9)
        if not ok:
            return cls0 + 'calc_post_processing_linear_SINRs', where + why
        db = np.asarray(m.calc_post_processing_SINRs(Hbuf, Wbuf, Gbuf, nv))
        ok, why = rel_close(10.0 ** (db / 10.0), fp_sinr(Hk @ Wk, Gk, nv), 1e-9)
        if not ok:
            return cls0 + 'calc_post_processing_SINRs', where + why
        res += [('calc_post_processing_linear_SINRs', lin), ('calc_post_processing_SINRs', db)]
        U, S, VH = np.linalg.svd(Hk)
        Ubuf[...] = U
        Sbuf[...] = S
        Vbuf[...] = VH
        Q, R, P = gmd(Ubuf, Sbuf, Vbuf)
        why = b.c_gmd(Hk, np.asarray(Q), np.asarray(R), np.asarray(P), S)
        if why is not None:
            return cls0 + 'gmd', where + why
        res += [('gmd.Q', Q), ('gmd.R', R), ('gmd.P', P)]
        if not (np.array_equal(Hbuf, Hk) and np.array_equal(Wbuf, Wk) and np.array_equal(Gbuf, Gk)
                and np.array_equal(Ubuf, U) and np.array_equal(Sbuf, S) and np.array_equal(Vbuf, VH)):
            return cls0 + 'buffer-modified', where + 'a call changed the contents of an argument buffer'
        for nm, u in res:
            for buf in (Hbuf, Wbuf, Gbuf, Ubuf, Sbuf, Vbuf):
                if isinstance(u, np.ndarray) and np.shares_memory(u, buf):
                    return cls0 + 'result-aliases-buffer:' + nm, where + '%s shares memory with an argument' % nm
        r = verify('round %d' % k)
        if r:
            return r
        kept += [(k, nm, u, np.array(u, copy=True)) for nm, u in res if isinstance(u, np.ndarray) and u.ndim]
    for buf in (Hbuf, Wbuf, Gbuf, Ubuf, Sbuf, Vbuf):
        buf[...] = 0
    return verify('the argument buffers were overwritten')


def reuse_roles(case):
    """(ii) the same array object in two roles: channel and transmit data, channel and received data, the block
    returned by encode as received data (1x1 unit channel), channel = precoder = filter for the SINR functions,
    U and V^H of gmd: the result is the one obtained with three separate copies, and nothing is modified"""
    b = B()
    m = b._mimo()
    from pyphysim.util.misc import gmd
    scheme = case['scheme']
    cls0 = 'R16:%s:roles:' % scheme
    if scheme == 'functions':
        n, v = case['n'], case['nv']
        E = np.eye(n, dtype=complex)
        lin = np.asarray(m.calc_post_processing_linear_SINRs(E, E, E, v))
        ok, why = rel_close(lin, np.full(n, 1.0 / v), 1e-12)
        if not ok:
            return cls0 + 'calc_post_processing_linear_SINRs', 'identity channel = precoder = filter (one array): ' + why
        if not np.array_equal(E, np.eye(n)):
            return cls0 + 'argument-modified', 'calc_post_processing_linear_SINRs changed its argument'
        A = b.dec(case['A'])      # a Hermitian channel: its filter can be the array that is the channel
        lin = np.asarray(m.calc_post_processing_linear_SINRs(A, E, A, v))
        ok, why = rel_close(lin, fp_sinr(np.array(A), np.array(A), v), 1e-9)
        if not ok:
            return cls0 + 'calc_post_processing_linear_SINRs', 'channel and filter are one array: ' + why
        S = np.array(case['S'], dtype=float)
        Er = np.eye(len(S))
        Q, R, P = gmd(Er, S, Er)
        if not np.array_equal(Er, np.eye(len(S))):
            return cls0 + 'argument-modified', 'gmd changed the array handed over as U and as V^H'
        why = b.c_gmd(np.diag(S).astype(complex), np.asarray(Q), np.asarray(R), np.asarray(P), S)
        if why is not None:
            return cls0 + 'gmd', 'U and V^H are one array: ' + why
        Q2, R2, P2 = gmd(np.eye(len(S)), S.copy(), np.eye(len(S)))
        for u, w, nm in ((Q, Q2, 'Q'), (R, R2, 'R'), (P, P2, 'P')):
            if not b.near(np.asarray(u), np.asarray(w), 1e-12)[0]:
                return cls0 + 'gmd', '%s differs from the call with separate arrays' % nm
        return None
    A = b.dec(case['A'])
    H2 = b.as2d(scheme, A)
    nr, nt = H2.shape
    c = b.cond2(H2)
    role = case['role']
    snap = np.array(A)
    obj, ref = b.make(scheme, A), b.make(scheme, np.array(snap))
    before = b.cfg_of(obj)
    if role == 'transmit-data':
        u, w = np.asarray(obj.encode(A)), np.asarray(ref.encode(np.array(snap)))
        sc = None
    elif role == 'received-data':
        u, w = np.asarray(obj.decode(A)), np.asarray(ref.decode(np.array(snap)))
        sc = max(1.0, c) * b.amax(w)
    else:   # the block encode() returned is handed back as received data (a unit 1x1 channel: y = 1 * e)
        x = b.dec(case['x'])
        e = obj.encode(x)
        e_snap = np.array(e)
        u, w = np.asarray(obj.decode(e)), np.asarray(ref.decode(np.array(e_snap)))
        sc = None
        if not np.array_equal(np.asarray(e), e_snap):
            return cls0 + role + ':argument-modified', 'decode changed the block it was given'
        ok, why = b.near(u, x, 1e-12)
        if not ok:
            return cls0 + role, 'decode(encode(x)) over the unit channel: ' + why
    ok, why = b.near(u, w, 1e-12, scale=sc)
    if not ok:
        return cls0 + role, 'the result differs from the one obtained with separate copies: ' + why
    if not np.array_equal(A, snap):
        return cls0 + role + ':argument-modified', 'the array handed over in two roles was modified'
    dd = b.cfg_diff(before, b.cfg_of(obj))
    if dd is not None:
        return cls0 + role + ':object-changed', 'the call changed %s of the object' % dd
    return None


def reuse_after_call(case):
    """(iii) an argument modified right after the call.  Static functions: the result already returned must not
    follow.  set_channel_matrix / the constructor: the object must go on working with the contents it was handed
    -- the unchanged library keeps the caller's array itself (known finding, class KNOWN_ALIAS)"""
    b = B()
    scheme = case['scheme']
    cls0 = 'R16:%s:after-call:' % scheme
    H1, H2n, x = b.dec(case['H']), b.dec(case['Hn']), b.dec(case['x'])
    nv = case.get('nv', 0.0)
    fam = scheme in FAM
    H21 = b.as2d(scheme, H1)
    c = b.cond2(H21)
    if scheme != 'alamouti':
        Hbuf = np.array(H21)
        klass = type(b.make(scheme, np.array(H1)))
        W, G = klass._calc_precoder(Hbuf), klass._calc_receive_filter(Hbuf, nv)
        snapW, snapG = np.array(W), np.array(G)
        Hbuf[...] = b.as2d(scheme, H2n)
        if not (np.array_equal(np.asarray(W), snapW) and np.array_equal(np.asarray(G), snapG)):
            return cls0 + 'static-result-follows-argument', 'a precoder / filter already returned changed when the channel array was modified'
    for path in ('ctor', 'setter'):
        Hbuf = np.array(H1)
        if path == 'ctor':
            obj = b.make(scheme, Hbuf)
        else:
            obj = b.make(scheme, None)
            obj.set_channel_matrix(Hbuf)
        if fam:
            obj.set_noise_var(nv)
        f = b.fresh_like(scheme, np.array(H1), nv)
        e = np.asarray(obj.encode(x))
        y = H21 @ e
        Hbuf[...] = H2n                 # the caller goes on to prepare the next channel in the same array
        d, df = np.asarray(obj.decode(y)), np.asarray(f.decode(y))
        ok, why = b.near(d, df, scale=b.xscale(c, x))
        if ok and np.array_equal(obj._channel, H21):
            continue
        if np.shares_memory(obj._channel, Hbuf) and np.array_equal(obj._channel, b.as2d(scheme, H2n)):
            f2 = b.fresh_like(scheme, np.array(H2n), nv)
            if b.near(d, np.asarray(f2.decode(y)), 1e-9 * max(1.0, b.cond2(b.as2d(scheme, H2n))))[0]:
                return KNOWN_ALIAS, ('%s(%s): after the caller refilled the array it had handed over, decode() works with the new '
                                     'contents (the object keeps the array itself): %s' % (scheme, path, why or 'stored channel changed'))
        return cls0 + 'set_channel_matrix', '%s: decode after the argument was modified: %s' % (path, why or 'stored channel changed')
    return None


ORACLES = {'close': o_close, 'reuse': o_reuse}


# ====================================================================================== case generation
def noise_case(g, rng, scheme, family, max_n, shape=None):
    b = B()
    nr, nt = shape or r_shape(rng, scheme, max_n)
    hs, values = NOISE_FAMILIES[family]
    H2 = well_conditioned(g, nr, nt) * hs
    x = g.data(n_sym(scheme, nt, rng.choice([1, 2])))[0]
    return {'scheme': scheme, 'kind': 'noise', 'family': family, 'H': b.enc(chan_arg(scheme, H2, rng.chance(0.5))),
            'x': b.enc(x), 'values': list(values)}


def channel_case(g, rng, scheme, family, max_n, shape=None):
    b = B()
    nr, nt = shape or r_shape(rng, scheme, max_n)
    chans = close_channels(g, family, nr, nt)
    vec = rng.chance(0.5)
    x = g.data(n_sym(scheme, nt, rng.choice([1, 2])))[0]
    mm = scheme in NV_DECODE and rng.chance(0.5)
    return {'scheme': scheme, 'kind': 'channel', 'family': family, 'chans': [b.enc(chan_arg(scheme, h, vec)) for h in chans],
            'x': b.enc(x), 'nv': 0.3 if mm else 0.0, 'nv_rel': mm, 'x_rel': False}


def singular_case(g, rng, scheme, family, nr, nt):
    b = B()
    s = np.array(SINGULAR_FAMILIES[family][:nt])
    if scheme == 'gmd-function':
        return {'scheme': scheme, 'kind': 'singular', 'family': family, 'S': [float(v) for v in s], 'm': nr}
    U, V = g.unitary(nr)[:, :nt], g.unitary(nt)
    H = (U * s) @ b.Hm(V)
    return {'scheme': scheme, 'kind': 'singular', 'family': family, 'H': b.enc(H), 'x': b.enc(g.data(nt * 2)[0]), 'nv_rel': 0.3}


def close_history(g, rng, scheme, family, max_n):
    """R15 for the correspondence: ONE object, close-but-distinct noise variances / channels set one after the
    other, the configuration read back (bit for bit) and a round trip + SINR after each"""
    b = B()
    nr, nt = r_shape(rng, scheme, max_n)
    x = b.enc(g.data(n_sym(scheme, nt, 1))[0])
    ops = []
    if family in NOISE_FAMILIES and scheme in FAM:
        hs, values = NOISE_FAMILIES[family]
        H0 = chan_arg(scheme, well_conditioned(g, nr, nt) * hs, rng.chance(0.5))
        for v in values:
            ops += [{'op': 'nv', 'v': v}, {'op': 'cfg'}, {'op': 'rt', 'x': x}]
            if v > 0:
                ops.append({'op': 'sinr', 'v': v})
        ops += [{'op': 'nv', 'v': 5e-324}, {'op': 'rt', 'x': x}, {'op': 'nv', 'v': 0.0}, {'op': 'rt', 'x': x}]
    else:
        fam_c = family if family in CHANNEL_FAMILIES else rng.choice(CHANNEL_FAMILIES)
        chans = close_channels(g, fam_c, nr, nt)
        vec = rng.chance(0.5)
        H0 = chan_arg(scheme, chans[0], vec)
        vq = 0.5
        ops += [{'op': 'cfg'}, {'op': 'rt', 'x': x}]
        for h in chans[1:]:
            ops += [{'op': 'sc', 'H': b.enc(chan_arg(scheme, h, vec))}, {'op': 'cfg'}, {'op': 'rt', 'x': x},
                    {'op': 'sinr', 'v': vq * b.amax(h) ** 2}]
    return {'scheme': scheme, 'H0': b.enc(H0), 'ops': ops, 'kw': rng.chance(0.3)}


def refill_case(g, rng, scheme, max_n, n_rounds=None, shape=None, nv_mode=None):
    """rounds of one Monte Carlo style loop; nv_mode 'constant': one noise variance set once (the usual loop),
    'zero': zero forcing throughout, 'varying': a new noise variance every round"""
    b = B()
    nr, nt = shape or r_shape(rng, scheme, max_n)
    vec = rng.chance(0.5)
    L = rng.choice([1, 2, 3])
    nv_mode = nv_mode or rng.choice(['constant', 'zero', 'varying'])
    rounds = []
    nv_const = None
    for k in range(n_rounds or rng.randint(2, 4)):
        H2 = g.channel(nr, nt, kind=rng.choice(['gauss', 'gint', 'cond', 'real']))[0] if scheme != 'alamouti' \
            else g.channel(max(nr, 2), 2, kind='gauss')[0][:nr, :] + 0.1
        if k and rng.chance(0.2):       # the buffer is refilled with the contents it already had
            H2 = b.as2d(scheme, b.dec(rounds[-1]['H']))
        nv = 0.0
        if scheme in FAM and nv_mode != 'zero':
            if nv_mode == 'varying' or nv_const is None:
                nv_const = 10.0 ** rng.uniform(-3, 0) * b.amax(H2) ** 2
            nv = nv_const
        rounds.append({'H': b.enc(chan_arg(scheme, np.array(H2, dtype=complex), vec)), 'x': b.enc(g.data(n_sym(scheme, nt, L))[0]),
                       'nv': nv, 'copy': bool(k and rng.chance(0.25))})
    nvq = 0.4 * b.amax(b.dec(rounds[0]['H'])) ** 2      # one query noise variance for the whole loop
    for rd in rounds:
        rd['nvq_abs'] = nvq
    return {'scheme': scheme, 'mode': 'refill', 'rounds': rounds}


def functions_case(g, rng, max_n):
    b = B()
    nt = rng.randint(1, min(max_n, 4))
    nr = rng.randint(nt, min(max_n, 5))
    rounds = []
    for _ in range(rng.randint(2, 4)):
        H = np.array(g.channel(nr, nt)[0], dtype=complex)
        rounds.append({'H': b.enc(H), 'nv': 10.0 ** rng.uniform(-3, 0) * b.amax(H) ** 2,
                       'W': b.enc(g.raw(nt, nt)), 'G': b.enc(g.raw(nt, nr))})
    return {'scheme': 'functions', 'mode': 'functions', 'rounds': rounds}


def roles_cases(g, rng, max_n):
    b = B()
    out = []
    n = rng.randint(2, 4)
    M = g.raw(n, n)
    A = M @ b.Hm(M) + np.eye(n)
    s = sorted([float(10.0 ** rng.uniform(-1, 1)) for _ in range(n)], reverse=True)
    out.append({'scheme': 'functions', 'mode': 'roles', 'n': n, 'nv': 10.0 ** rng.uniform(-2, 0), 'A': b.enc(A), 'S': s})
    for scheme in ('blast', 'svd', 'gmd'):
        A = well_conditioned(g, n, n)
        out.append({'scheme': scheme, 'mode': 'roles', 'role': 'transmit-data', 'A': b.enc(A)})
        out.append({'scheme': scheme, 'mode': 'roles', 'role': 'received-data', 'A': b.enc(A)})
    k = rng.randint(1, max_n)
    out.append({'scheme': 'mrc', 'mode': 'roles', 'role': 'transmit-data', 'A': b.enc(well_conditioned(g, k, 1).reshape(-1))})
    out.append({'scheme': 'mrc', 'mode': 'roles', 'role': 'received-data', 'A': b.enc(well_conditioned(g, k, 1))})
    out.append({'scheme': 'mrt', 'mode': 'roles', 'role': 'transmit-data', 'A': b.enc(well_conditioned(g, 1, k).reshape(-1))})
    out.append({'scheme': 'mrt', 'mode': 'roles', 'role': 'received-data', 'A': b.enc(well_conditioned(g, 1, k))})
    out.append({'scheme': 'alamouti', 'mode': 'roles', 'role': 'transmit-data', 'A': b.enc(well_conditioned(g, 1, 2).reshape(-1))})
    out.append({'scheme': 'alamouti', 'mode': 'roles', 'role': 'received-data', 'A': b.enc(well_conditioned(g, rng.randint(1, max_n), 2))})
    for scheme in ('blast', 'mrc', 'mrt', 'svd', 'gmd'):
        out.append({'scheme': scheme, 'mode': 'roles', 'role': 'encoded-block-as-received-data',
                    'A': b.enc(np.ones((1, 1), dtype=complex)), 'x': b.enc(g.data(3)[0])})
    return out


def after_call_case(g, rng, scheme, max_n):
    b = B()
    nr, nt = r_shape(rng, scheme, max_n)
    vec = rng.chance(0.5)
    H, Hn = well_conditioned(g, nr, nt), well_conditioned(g, nr, nt) * (2.0 - 1.0j)
    return {'scheme': scheme, 'mode': 'after-call', 'H': b.enc(chan_arg(scheme, H, vec)), 'Hn': b.enc(chan_arg(scheme, Hn, vec)),
            'x': b.enc(g.data(n_sym(scheme, nt, 2))[0]), 'nv': 0.0}


def reuse_history(g, rng, scheme, max_n):
    """R16 for the correspondence and the history oracle: an ordinary seeded history whose arrays all reach the
    object through refilled buffers (copies / pickles left out: they would share the aliased channel array)"""
    b = B()
    h = b.gen_history(rng, g, scheme, max_n)
    h['ops'] = [op for op in h['ops'] if op['op'] != 'derive']
    h['reuse'] = True
    return h


def mc_history(g, rng, scheme, max_n):
    """the loop of a Monte Carlo simulation as a history: the noise variance is set once, then every iteration
    refills the ONE channel array, hands it to set_channel_matrix and transmits a block"""
    b = B()
    nr, nt = r_shape(rng, scheme, max_n)
    vec = rng.chance(0.5)

    def chan():
        H2 = g.channel(nr, nt, kind=rng.choice(['gauss', 'gint', 'real']))[0] if scheme != 'alamouti' \
            else g.channel(max(nr, 2), 2, kind='gauss')[0][:nr, :] + 0.1
        return chan_arg(scheme, np.array(H2, dtype=complex), vec)
    H0 = chan()
    ops = []
    if scheme in FAM:
        ops.append({'op': 'nv', 'v': 0.0 if rng.chance(0.3) else 10.0 ** rng.uniform(-3, 0) * b.amax(H0) ** 2})
    n = n_sym(scheme, nt, rng.choice([1, 2]))
    ops.append({'op': 'rt', 'x': b.enc(g.data(n)[0])})
    for _ in range(rng.randint(2, 4)):
        ops += [{'op': 'sc', 'H': b.enc(chan())}, {'op': 'rt', 'x': b.enc(g.data(n)[0])}]
        if rng.chance(0.4):
            ops.append({'op': 'flt', 'v': None if rng.chance(0.3) else 0.3 * b.amax(H0) ** 2})
    return {'scheme': scheme, 'H0': b.enc(H0), 'ops': ops, 'kw': rng.chance(0.3), 'reuse': True}


def buffer_program(rng, n_ops):
    """a caller program over ONE channel array: r<k> refill, sb set_channel_matrix(buf), sf<k> set_channel_matrix(fresh
    array), o observe; contents are small positive integers k (the channel k * B)"""
    ops, k = [], 1
    for _ in range(n_ops):
        r = rng.uniform()
        if r < 0.3:
            k += rng.randint(1, 3)
            ops.append('r%d' % k)
        elif r < 0.55:
            ops.append('sb')
        elif r < 0.65:
            k += rng.randint(1, 3)
            ops.append('sf%d' % k)
        else:
            ops.append('o')
    return ops + ['o']


def corr_buffer(ctx, batch, g, rng, scheme, max_n, ck):
    """tie of Model/C04Buf.lean: the program is run on a real object (observation = the factor k that decode()
    shows: decode(B encode(x)) = x / k when the object works with the channel k * B) and on both machines of the
    model.  The unrepaired library must agree with the code machine; a library that copies the channel agrees with
    the value machine (then the known finding is gone and the model of the code is out of date: noted, not failed)"""
    b = B()
    nr, nt = r_shape(rng, scheme, max_n)
    Bc = chan_arg(scheme, well_conditioned(g, nr, nt), rng.chance(0.5))
    B2 = b.as2d(scheme, Bc)
    x = g.data(n_sym(scheme, nt, 1), kind='psk')[0]
    prog = buffer_program(rng, rng.randint(5, 12))
    k0 = 1
    buf = np.array(Bc * k0)
    obj = b.make(scheme, None)
    seen = []
    with warnings.catch_warnings():
        warnings.simplefilter('ignore')
        for t in prog:
            if t == 'sb':
                obj.set_channel_matrix(buf)
            elif t.startswith('sf'):
                obj.set_channel_matrix(np.array(Bc * int(t[2:])))
            elif t.startswith('r'):
                buf[...] = Bc * int(t[1:])
            else:
                st, d = b.call_impl(lambda: obj.decode(B2 @ obj.encode(x)))
                if st != 'ok':
                    seen.append('-')
                else:
                    q = x[0] / np.asarray(d).reshape(-1)[0]
                    seen.append('%d' % int(round(float(q.real))) if abs(q - round(float(q.real))) < 1e-6 else 'k=%r' % complex(q))
    impl = ','.join(seen)
    case = {'scheme': scheme, 'B': b.enc(Bc), 'x': b.enc(x), 'program': prog}

    def f(o):
        code, val = o.split('|')
        if impl != code and impl == val:
            ctx.branch('R16:buf:library-copies-the-channel')
            ctx.corr('buffer.value-semantics', case, impl, val, key=ck)
        else:
            ctx.corr('buffer.code', case, impl, code, key=ck)
        ctx.branch('R16:corr:buffer')
    batch.add('buf %d %s' % (k0, ','.join(prog)), f)


# ================================================================================================ driver
def run(ctx, g, max_n):
    """R15 + R16 for every scheme: a small deterministic scenario set in quick, larger random ones in thorough"""
    b = B()
    rng = ctx.rng
    quick = ctx.tier == 'quick'
    from harness import core
    drv = core.Driver(b.DRIVER)
    batch = b.Batch(drv, ctx)
    idx = 0

    def oracle(call, case, branch):
        nonlocal idx
        idx += 1
        b.run_oracle(ctx, call, case, key=(call, idx))
        ctx.branch(branch + ':oracle')
    reps = 1 if quick else 4
    for rep in range(reps):
        # ------------------------------------------------------------------ R15
        for scheme in b.SCHEMES:
            fams = list(NOISE_FAMILIES) if (not quick or scheme in NV_DECODE) else [rng.choice(list(NOISE_FAMILIES))]
            for family in fams:
                oracle('close', noise_case(g, rng, scheme, family, max_n), 'R15')
                ctx.branch('R15:noise:' + family)
            for family in CHANNEL_FAMILIES:
                oracle('close', channel_case(g, rng, scheme, family, max_n), 'R15')
                ctx.branch('R15:channel:' + family)
            for family in (list(NOISE_FAMILIES) if scheme in NV_DECODE else []) + list(CHANNEL_FAMILIES):
                if quick and scheme not in NV_DECODE and family not in ('tiny', 'rel1e-6'):
                    continue
                idx += 1
                hist = close_history(g, rng, scheme, family, max_n)
                b.corr_history(ctx, batch, hist, ('R15c', idx))
                b.run_oracle(ctx, 'history', hist, key=('R15h', idx))
                ctx.branch('R15:corr')
        for family in SINGULAR_FAMILIES:
            for nr, nt in ((2, 2), (3, 3), (4, 4), (5, 3), (4, 2)) if quick else [(rng.randint(nt_, 6), nt_) for nt_ in (2, 3, 4, 4)] + [(2, 2)]:
                oracle('close', singular_case(g, rng, 'gmd-function', family, nr, nt), 'R15')
                for scheme in ('svd', 'gmd'):
                    case = singular_case(g, rng, scheme, family, nr, nt)
                    oracle('close', case, 'R15')
                    idx += 1
                    b.corr_variant(ctx, batch, scheme, b.dec(case['H']), b.dec(case['x']), 0.0, ('R15s', idx))
                ctx.branch('R15:singular:' + family)
        # ------------------------------------------------------------------ R16
        for scheme in b.SCHEMES:
            for mode in (('constant', 'zero', 'varying') if quick else ('constant', 'zero', 'varying', None, None)):
                if mode in ('constant', 'varying') and scheme not in FAM:
                    continue
                oracle('reuse', refill_case(g, rng, scheme, max_n, nv_mode=mode), 'R16')
                ctx.branch('R16:refill')
            oracle('reuse', after_call_case(g, rng, scheme, max_n), 'R16')
            ctx.branch('R16:after-call')
            for _ in range(3 if quick else 10):
                idx += 1
                corr_buffer(ctx, batch, g, rng, scheme, max_n, ('R16b', idx))
            for which in (('mc', 'seeded') if quick else ('mc', 'seeded', 'mc', 'seeded', 'seeded')):
                idx += 1
                hist = mc_history(g, rng, scheme, max_n) if which == 'mc' else reuse_history(g, rng, scheme, max_n)
                b.corr_history(ctx, batch, hist, ('R16c', idx))
                b.run_oracle(ctx, 'history', hist, key=('R16h', idx))
        for _ in range(2 if quick else 6):
            oracle('reuse', functions_case(g, rng, max_n), 'R16')
            ctx.branch('R16:functions')
        for case in roles_cases(g, rng, max_n):
            oracle('reuse', case, 'R16')
            ctx.branch('R16:roles')
        if len(batch.items) > 300:
            batch.flush()
    batch.flush()


REQUIRED = ['R15:oracle', 'R15:corr', 'R16:oracle', 'R16:corr', 'R15:noise:tiny', 'R15:noise:rel1e-6', 'R15:noise:adjacent',
            'R15:channel:tiny', 'R15:channel:rel1e-6', 'R15:singular:near-equal', 'R15:singular:adjacent',
            'R16:refill', 'R16:after-call', 'R16:functions', 'R16:roles', 'R16:corr:buffer']
