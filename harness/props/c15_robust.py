"""C15 — robustness classes R15 and R16 (helper module of harness/props/c15.py).

R15  distinct values that are merely close: phase offsets 1e-9 … 3e-15 apart / adjacent doubles / a relative
     1e-6 apart / equal up to the 12th decimal, and index values n, n+1 far above 2^53 or a relative 1e-5
     apart.  Every one must give exactly the first-principles result for THAT value; a `setPhaseOffset`
     with a close-but-different value must take effect.
R16  argument identity and buffer reuse: ONE preallocated index array refilled in place before every call,
     the same array object in both roles of `count_bit_errors` / `xor`, the argument modified right after the
     call, an equal-content copy; a 0-d array holding the phase offset refilled between `setPhaseOffset`
     calls, several modulators of one order alive at once.  Results depend on the contents at call time only
     and results handed out earlier do not change afterwards.

Model side: Model/C15Robust.lean (`Psk`, `Heap`/`Op`/`run`), theorems `setter_takes_effect_for_every_new_value`,
`close_offsets_distinct_tables`, `close_offsets_separation`, `offset_history_last_wins`,
`bit_errors_zero_only_if_equal`, `close_integers_distinct_codes`, `call_reads_contents_at_call_time`,
`earlier_results_unchanged_by_later_calls`, `calls_leave_buffers_unchanged`, `result_depends_on_contents_only`,
`same_buffer_in_both_roles`; driver ops `hist` and `pskhist`.
"""
import math
import struct

import numpy as np

from harness import core

DRIVER = 'drv_c15'
EPS = 2.0 ** -52
LD = np.longdouble
TWO_PI_LD = 2 * LD('3.14159265358979323846264338327950288419716939937510')
SNAP = 1e-15          # the code's own snap-to-zero threshold of `_createConstellation`


def _impl():
    from pyphysim.util import conversion, misc
    from pyphysim.modulators import fundamental
    return conversion, misc, fundamental


def popcount(x):
    return bin(int(x)).count('1')


def f2bits(x):
    return struct.unpack('<Q', struct.pack('<d', float(x)))[0]


def bits2f(n):
    return struct.unpack('<d', struct.pack('<Q', int(n)))[0]


# ------------------------------------------------------------ first principles
def fp_gray(n):
    """Gray code from its definition on the binary digits: g_i = b_i xor b_(i+1)"""
    bits = [int(c) for c in bin(int(n))[2:]][::-1] + [0]
    return sum((bits[i] ^ bits[i + 1]) << i for i in range(len(bits) - 1))


def fp_ungray(g):
    """inverse by the running parity from the most significant digit down"""
    out, par = 0, 0
    for c in bin(int(g))[2:]:
        par ^= int(c)
        out = (out << 1) | par
    return out


def reflected_gray_list(m):
    """reflect-and-prefix construction: position p of the list carries label G[p]"""
    G = [0]
    for i in range(m):
        G = G + [x | (1 << i) for x in reversed(G)]
    return G


def fp_psk_points(M, phi):
    """exp(j(2 pi k/M + phi)), k = 0..M-1, in extended precision (k/M is exact: M is a power of two)"""
    k = np.arange(M).astype(LD) / LD(M)
    ang = TWO_PI_LD * k + LD(phi)
    return np.cos(ang), np.sin(ang)


def table_tol(phi):
    """rounding of the binary64 phase 2 pi k/M + phi (relative to its magnitude) and of cos / sin on the unit circle"""
    return 8 * EPS * (2 * math.pi + abs(phi) + 1.0)


def check_psk_table(symbols, M, phi):
    """None, or a short text saying how `symbols` differs from the M-PSK constellation with offset `phi`.
    Order-agnostic between the two orders the model knows (Gray order of __init__, natural order of
    setPhaseOffset): which order is *right* is the business of the Gray-labelling oracles."""
    s = np.asarray(symbols)
    if s.shape != (M,):
        return 'shape %s' % (s.shape,)
    cr, ci = fp_psk_points(M, phi)
    tol = table_tol(phi)
    m = M.bit_length() - 1
    G = reflected_gray_list(m)
    pos_gray = np.empty(M, dtype=int)
    pos_gray[np.array(G)] = np.arange(M)          # label G[p] sits at position p
    best = None
    for name, pos in (('natural', np.arange(M)), ('gray', pos_gray)):
        err = float(np.max(np.maximum(np.abs(s.real.astype(LD) - cr[pos]), np.abs(s.imag.astype(LD) - ci[pos]))))
        if best is None or err < best[0]:
            best = (err, name)
    if not best[0] <= tol:
        return 'table is %.3g away from the %d-PSK points with offset %r (rounding allows %.3g)' % (best[0], M, phi, tol)
    # label 0 is position 0 in both orders: phase = 0 + phi exactly, so cos / sin are right to a few ulp
    # RELATIVE to their own size (this is what sees offsets of 1e-9 … 3e-15)
    if abs(phi) < 0.5:
        for comp, got, ref in (('real', float(s[0].real), cr[0]), ('imag', float(s[0].imag), ci[0])):
            ref = float(ref)
            if abs(ref) < 0.5 * SNAP:
                ok = got == 0.0
            elif abs(ref) < 2 * SNAP:
                continue                      # inside the margin around the code's snap threshold
            else:
                ok = abs(got - ref) <= 8 * EPS * abs(ref)
            if not ok:
                return 'label 0 %s part is %r, first principles %r (offset %r)' % (comp, got, ref, phi)
    return None


def separation(a, b):
    """2|sin(d/2)|: distance between the tables of two offsets (theorem close_offsets_separation)"""
    return 2 * abs(math.sin((a - b) / 2))


# ------------------------------------------------------------ R15 oracles
def o_r15_offsets(case):
    """close-but-distinct phase offsets: constructor and setter histories, each table against first principles
    for the value in force, and bit-for-bit against an object that never saw the neighbouring value"""
    _, _, f = _impl()
    M, kind = int(case['M']), case['kind']
    offs = [float(x) for x in case['offsets']]
    p = f.PSK(M, offs[0])
    r = check_psk_table(p.symbols, M, offs[0])
    if r:
        return 'R15:psk-table:init:' + kind, r
    for k, phi in enumerate(offs[1:], 1):
        p.setPhaseOffset(phi)
        r = check_psk_table(p.symbols, M, phi)
        if r:
            return 'R15:psk-table:setPhaseOffset:' + kind, 'after offsets %r: %s' % (offs[:k + 1], r)
        # an object that reaches the same offset from far away
        q = f.PSK(M, phi + 1.0)
        q.setPhaseOffset(phi)
        if not np.array_equal(p.symbols, q.symbols):
            return 'R15:setter-depends-on-previous-offset:' + kind, (
                'setPhaseOffset(%r) after %r gives another table than after %r (first difference at label %d)'
                % (phi, offs[k - 1], phi + 1.0, int(np.nonzero(p.symbols != q.symbols)[0][0])))
    # constructors with neighbouring values, one after the other (a cache keyed by a rounded value)
    for phi in offs:
        r = check_psk_table(f.PSK(M, phi).symbols, M, phi)
        if r:
            return 'R15:psk-table:init-sequence:' + kind, 'PSK(%d, %r) built after its neighbours %r: %s' % (M, phi, offs, r)
    return None


def _int_expect(fn, a, b):
    if fn == 'b2g':
        return [fp_gray(x) for x in a]
    if fn == 'g2b':
        return [fp_ungray(x) for x in a]
    if fn == 'count_bits':
        return [popcount(x) for x in a]
    if fn == 'xor':
        return [x ^ y for x, y in zip(a, b)]
    raise KeyError(fn)


def o_r15_ints(case):
    """index values that are close but different (n, n+1 above 2^53; 2400000000 vs 2400020000): every conversion
    is that of the exact value, and the number of bit errors between two close arrays is their Hamming distance
    (in particular not 0)"""
    conv, misc, _ = _impl()
    a, b = [int(x) for x in case['a']], [int(x) for x in case['b']]
    dt = np.dtype(case['dtype'])
    for x in a + b:
        g = fp_gray(x)
        if int(conv.binary2gray(x)) != g:
            return 'R15:close-integers:binary2gray', 'binary2gray(%d) = %d, Gray code %d' % (x, int(conv.binary2gray(x)), g)
        if int(conv.gray2binary(g)) != x:
            return 'R15:close-integers:gray2binary', 'gray2binary(%d) = %d, expected %d' % (g, int(conv.gray2binary(g)), x)
    A, B = np.array(a, dtype=dt), np.array(b, dtype=dt)
    for arr, vals in ((A, a), (B, b)):
        g = conv.binary2gray(arr)
        if [int(t) for t in g] != [fp_gray(x) for x in vals]:
            return 'R15:close-integers:binary2gray', 'array %s %s' % (dt, vals[:4])
        if [int(t) for t in conv.gray2binary(g)] != vals:
            return 'R15:close-integers:gray2binary', 'array %s %s' % (dt, vals[:4])
    per = [popcount(x ^ y) for x, y in zip(a, b)]
    # one call after the other on neighbouring arrays (a result cached under a rounded key would come back)
    for first, second, want, tag in ((A, A.copy(), 0, 'equal contents'), (A, B, sum(per), 'close contents'),
                                     (B, A, sum(per), 'close contents, swapped'), (B, B.copy(), 0, 'equal contents')):
        got = int(misc.count_bit_errors(first, second))
        if got != want:
            return 'R15:close-integers:count_bit_errors', '%s (%s): got %d, Hamming distance %d; first elements %s / %s' % (
                tag, dt, got, want, first.tolist()[:3], second.tolist()[:3])
    if len(a) % 2 == 0 and len(a) >= 2:
        A2, B2 = A.reshape(2, -1), B.reshape(2, -1)
        P = np.array(per).reshape(2, -1)
        for ax in (0, 1):
            got = np.asarray(misc.count_bit_errors(A2, B2, ax))
            if got.shape != P.sum(axis=ax).shape or not np.array_equal(got, P.sum(axis=ax)):
                return 'R15:close-integers:count_bit_errors:axis', 'axis %d: got %s, expected %s' % (ax, got.tolist(), P.sum(axis=ax).tolist())
    got = [int(t) for t in misc.count_bits(misc.xor(A, B))]
    if got != per:
        return 'R15:close-integers:count_bits', 'got %s expected %s' % (got[:6], per[:6])
    return None


# ------------------------------------------------------------ R16 oracles
UNARY = ('b2g', 'g2b', 'count_bits')


def _call(fn, x, y, axis):
    conv, misc, _ = _impl()
    if fn == 'b2g':
        return conv.binary2gray(x)
    if fn == 'g2b':
        return conv.gray2binary(x)
    if fn == 'count_bits':
        return misc.count_bits(x)
    if fn == 'xor':
        return misc.xor(x, y)
    if fn == 'biterr':
        return misc.count_bit_errors(x, y) if axis is None else misc.count_bit_errors(x, y, axis)
    raise KeyError(fn)


def _expect(fn, a, b, shape, axis):
    if fn == 'biterr':
        P = np.array([popcount(x ^ y) for x, y in zip(a, b)], dtype=np.int64).reshape(shape)
        return P.sum() if axis is None else P.sum(axis=axis)
    return np.array(_int_expect(fn, a, b), dtype=object).reshape(shape)


def _same(got, want):
    g, w = np.asarray(got), np.asarray(want)
    return g.shape == w.shape and [int(t) for t in g.ravel()] == [int(t) for t in w.ravel()]


def o_r16_buffers(case):
    """ONE preallocated array per role, refilled in place before every call; optionally the same array in both
    roles; the argument overwritten right after the call; an equal-content copy"""
    dt = np.dtype(case['dtype'])
    shape = tuple(case['shape'])
    bufA, bufB = np.zeros(shape, dtype=dt), np.zeros(shape, dtype=dt)
    kept, earlier = [], []
    for k, st in enumerate(case['steps']):
        fn, a, axis = st['fn'], [int(x) for x in st['a']], st.get('axis')
        same = bool(st.get('same'))
        b = a if same else [int(x) for x in st.get('b') or a]
        bufA[...] = np.array(a, dtype=dt).reshape(shape)
        if not same:
            bufB[...] = np.array(b, dtype=dt).reshape(shape)
        second = bufA if same else bufB
        role = ':same-object-both-roles' if same and fn not in UNARY else ''
        r = _call(fn, bufA, second, axis)
        want = _expect(fn, a, b, shape, axis)
        if not _same(r, want):
            stale = any(e[0] == fn and _same(r, e[1]) for e in earlier)
            return ('R16:stale-result:' if stale else 'R16:wrong-result:') + fn + role, (
                'call %d of the history (%s, buffer refilled in place with %s…): got %s, expected %s%s' % (
                    k + 1, fn, a[:3], np.asarray(r).ravel().tolist()[:4], np.asarray(want).ravel().tolist()[:4],
                    ' — that is the result of an earlier call' if stale else ''))
        if bufA.ravel().tolist() != a or (not same and bufB.ravel().tolist() != b):
            return 'R16:argument-modified:' + fn + role, 'call %d changed the caller\'s buffer' % (k + 1)
        if isinstance(r, np.ndarray) and (np.shares_memory(r, bufA) or np.shares_memory(r, bufB)):
            return 'R16:result-aliases-argument:' + fn + role, 'call %d' % (k + 1)
        for j, (obj, cp, efn) in enumerate(kept):
            if not _same(obj, cp):
                return 'R16:earlier-result-changed:' + efn, 'the result of call %d (%s) changed during call %d (%s)' % (j + 1, efn, k + 1, fn)
            if isinstance(r, np.ndarray) and isinstance(obj, np.ndarray) and r.size and np.shares_memory(r, obj):
                return 'R16:result-aliases-earlier-result:' + fn, 'calls %d and %d return overlapping arrays' % (j + 1, k + 1)
        cp = np.array(r, copy=True)
        kept.append((r, cp, fn))
        earlier.append((fn, want))
        # (iii) the caller overwrites its buffer right after the call
        bufA[...] = 1
        bufB[...] = 2
        if not _same(r, cp):
            return 'R16:result-follows-argument:' + fn + role, 'the result of call %d changed when the argument buffer was overwritten' % (k + 1)
        # (iv) equal content, different object (not inside the history: an interposed call on another object
        # would hide an implementation that remembers its last argument)
        if not st.get('copy'):
            continue
        ca = np.array(a, dtype=dt).reshape(shape)
        cb = ca if same else np.array(b, dtype=dt).reshape(shape)
        if not _same(_call(fn, ca, cb, axis), want):
            return 'R16:equal-content-copy-differs:' + fn + role, 'call %d repeated on a copy' % (k + 1)
    return None


def _offset_arg(form, phi, buf):
    if form == 'float':
        return float(phi)
    if form == 'np.float64':
        return np.float64(phi)
    if form == '0d-fresh':
        return np.array(float(phi))
    buf[...] = phi                      # '0d-buffer': the caller's single preallocated 0-d array
    return buf


def o_r16_psk(case):
    """several PSK objects of one order, offsets handed over as python floats / numpy scalars / ONE 0-d array that
    is refilled in place (and overwritten right after each call): after every step every live object has the
    table of ITS offset, and tables handed out earlier are unchanged"""
    _, _, f = _impl()
    M = int(case['M'])
    buf = np.zeros(())
    objs, cur, held = {}, {}, []
    for k, st in enumerate(case['hist']):
        i, phi, form = int(st['obj']), float(st['phase']), st['form']
        arg = _offset_arg(form, phi, buf)
        if st['op'] == 'new':
            objs[i] = f.PSK(M, arg)
        else:
            objs[i].setPhaseOffset(arg)
        cur[i] = phi
        if form == '0d-buffer':
            if float(buf) != phi:
                return 'R16:psk:argument-modified', 'step %d changed the offset buffer' % (k + 1)
            buf[...] = phi + 1.2345       # (iii)
        for j in sorted(objs):
            r = check_psk_table(objs[j].symbols, M, cur[j])
            if r:
                cls = 'R16:psk:table-after-call:%s:%s' % (st['op'], form) if j == i else 'R16:psk:other-object-changed'
                return cls, 'step %d (%s on object %d, offset %r as %s); object %d should have offset %r: %s' % (
                    k + 1, st['op'], i, phi, form, j, cur[j], r)
        for j, (obj, cp) in enumerate(held):
            if not np.array_equal(obj, cp):
                return 'R16:psk:earlier-table-changed', 'the table read after step %d changed during step %d' % (j + 1, k + 1)
        t = objs[i].symbols
        for obj, _ in held:
            if np.shares_memory(obj, t):
                return 'R16:psk:tables-share-memory', 'step %d returns memory of an earlier table' % (k + 1)
        held.append((t, t.copy()))
    return None


def o_r16_roles(case):
    """the same object in two roles of a constructor: PSK(x, x) (order and offset), and the order handed over in a
    0-d array that the caller refills afterwards; QAM objects of one order do not share their tables"""
    _, _, f = _impl()
    M = int(case['M'])
    for name, x in (('int', M), ('np.int64', np.int64(M)), ('0-d array', np.array(M))):
        p = f.PSK(x, x)
        r = check_psk_table(p.symbols, M, float(M))
        if r:
            return 'R16:psk:same-object-two-roles', 'PSK(x, x) with x = %s %d: %s' % (name, M, r)
        if int(x) != M:
            return 'R16:psk:argument-modified', name
    m = np.array(M)
    p = f.PSK(m, 0.25)
    keep = p.symbols.copy()
    m[...] = 2 * M
    p2 = f.PSK(m, 0.25)
    if p2.symbols.shape != (2 * M,) or check_psk_table(p2.symbols, 2 * M, 0.25):
        return 'R16:psk:order-buffer-refilled', 'PSK(m, .25) after m[...] = %d has %d symbols' % (2 * M, p2.symbols.size)
    if not np.array_equal(p.symbols, keep) or int(p.M) != M:
        return 'R16:psk:earlier-object-changed', 'refilling the order buffer changed the first object'
    L = int(case['L'])
    q1 = f.QAM(L * L)
    k1 = q1.symbols.copy()
    mm = np.array(L * L)
    q2 = f.QAM(mm)
    mm[...] = 4 * L * L
    q3 = f.QAM(mm)
    if q3.symbols.shape != (4 * L * L,):
        return 'R16:qam:order-buffer-refilled', 'QAM(m) after m[...] = %d has %d symbols' % (4 * L * L, q3.symbols.size)
    if np.shares_memory(q1.symbols, q2.symbols) or np.shares_memory(q2.symbols, q3.symbols):
        return 'R16:qam:tables-share-memory', 'M = %d' % (L * L)
    if not (np.array_equal(q1.symbols, k1) and np.array_equal(q2.symbols, k1)):
        return 'R16:qam:earlier-table-changed', 'M = %d' % (L * L)
    ii, jj = np.divmod(np.arange(4 * L * L), 2 * L)
    grid = sorted(zip((-(2 * L - 1) + 2 * jj).tolist(), ((2 * L - 1) - 2 * ii).tolist()))
    sc = math.sqrt((4 * L * L - 1) * 2.0 / 3.0)
    got = sorted(zip(np.rint(q3.symbols.real * sc).astype(int).tolist(), np.rint(q3.symbols.imag * sc).astype(int).tolist()))
    if got != grid or not np.allclose(q3.symbols * sc, np.rint(q3.symbols * sc), rtol=0, atol=1e-9 * 2 * L):
        return 'R16:qam:wrong-table-after-refill', 'M = %d' % (4 * L * L)
    return None


ORACLES = {
    'R15.offsets': o_r15_offsets,
    'R15.integers': o_r15_ints,
    'R16.buffers': o_r16_buffers,
    'R16.psk': o_r16_psk,
    'R16.roles': o_r16_roles,
}


# ------------------------------------------------------------ generators
def _next(x):
    return float(np.nextafter(x, np.inf))


def offset_sets(rng, quick):
    """(kind, [offsets]) — histories of close-but-distinct offsets.  The tiny values stay clear of the code's
    snap threshold 1e-15 by a factor 3 (a near-tie of that discrete decision is not compared)."""
    out = [
        ('tiny', [0.0, 1e-9, 2e-9, 1e-12, 0.0, 3e-15, 1e-14]),
        ('tiny', [1e-9, 1e-10, 1e-11, 1e-13, 4e-15, -1e-9, -3e-15]),
        ('tiny-rel-1e-5', [4e-12, 4e-13, 4.00002e-12, 4e-12]),
        ('adjacent-doubles', [0.3, _next(0.3), 0.3, 0.1 + 0.2]),
        ('adjacent-doubles', [1.0, _next(1.0), float(np.nextafter(1.0, 0.0))]),
        ('rel-1e-6', [5.0, 5.000005, 5.0, 4.999995]),
        ('rel-1e-6', [1000.0, 1000.001, 999.999]),
        ('rel-1e-6', [24000.0, 24000.2, 24000.0]),
        ('12th-decimal', [math.pi / 4, round(math.pi / 4, 12), math.pi / 4, round(math.pi / 4, 11)]),
        ('12th-decimal', [0.123456789012345, 0.123456789012, 0.1234567890123]),
        ('below-1e-8', [0.5, 0.5 + 3e-9, 0.5 - 7e-9, 0.5]),
    ]
    n = 4 if quick else 60
    for _ in range(n):
        x = rng.uniform(-7.0, 7.0)
        kind = rng.choice(['tiny', 'adjacent-doubles', 'rel-1e-6', '12th-decimal', 'below-1e-8'])
        if kind == 'tiny':
            e = [10.0 ** -rng.randint(9, 14) * rng.uniform(1.0, 9.0) * rng.choice([1, -1]) for _ in range(3)]
            offs = [e[0], e[1], 0.0, e[2]]
        elif kind == 'adjacent-doubles':
            offs = [x, _next(x), x]
        elif kind == 'rel-1e-6':
            x = x * rng.choice([1.0, 10.0, 1000.0])
            offs = [x, x * (1 + 1e-6), x * (1 - 2e-6)]
        elif kind == '12th-decimal':
            offs = [x, round(x, 12), x, round(x, 10)]
        else:
            offs = [x, x + rng.uniform(1e-9, 9e-9), x - rng.uniform(1e-10, 9e-10)]
        offs = [o for i, o in enumerate(offs) if i == 0 or o != offs[i - 1]]
        out.append((kind, offs))
    return out


def close_int_cases(rng, quick):
    """(dtype, a, b): elementwise close, elementwise different"""
    out = [('int64', [2400000000, 2400020000, 1 << 53, (1 << 62) - 2], [2400020000, 2400000000, (1 << 53) + 1, (1 << 62) - 1]),
           ('int64', [10 ** 15, 10 ** 15 + 1, 123456789012, 4 * 10 ** 12], [10 ** 15 + 1, 10 ** 15 + 2, 123456789013, 4 * 10 ** 12 + 40]),
           ('uint64', [1 << 60, (1 << 61) + 5], [(1 << 60) + 1, (1 << 61) + 4]),
           ('int32', [2 ** 31 - 1, 10 ** 9, 123456, 100000], [2 ** 31 - 2, 10 ** 9 + 1000, 123457, 100001]),
           ('uint32', [4 * 10 ** 9, 3 * 10 ** 9], [4 * 10 ** 9 + 1, 3 * 10 ** 9 + 30000])]
    for _ in range(6 if quick else 200):
        n = 2 * rng.randint(1, 6)
        a, b = [], []
        for _ in range(n):
            bits = rng.randint(18, 62)
            x = (1 << (bits - 1)) + rng.below(1 << (bits - 1))
            d = max(1, int(x * 10.0 ** -rng.randint(6, 17)))     # relative 1e-6 … below one unit
            y = x + d if x + d < (1 << 62) else x - d
            a.append(x)
            b.append(y)
        out.append(('int64', a, b))
    return out


def buffer_histories(rng, quick):
    dts = {'int64': 62, 'int32': 31, 'uint16': 16, 'uint8': 8, 'uint64': 62}
    out = []
    fns = ['b2g', 'g2b', 'count_bits', 'xor', 'biterr']
    k = 0
    for dt in (['int64', 'int32', 'uint8'] if quick else list(dts)):
        for shape in ([6], [2, 3], [1], [0]) if quick else ([6], [2, 3], [1], [0], [3, 1, 2], [4096]):
            n = int(np.prod(shape))
            for rep in range(1 if quick else 3):
                steps = []
                # every entry point four times in one history on the SAME array objects (roles for the binary ones:
                # A/B, A/B, A/A, A/A), grouped or interleaved, so that call k meets buffers that call k-1 has seen
                if rep == 0:
                    order = [x for x in fns for _ in range(4)] if k % 2 else fns * 4
                else:
                    order = [rng.choice(fns) for _ in range(rng.randint(1, 3))] * rng.randint(2, 4)
                seen = {}
                hist_axis = [None, 0, len(shape) - 1][k % 3]
                for fn in order:
                    bits = rng.randint(1, dts[dt])
                    st = {'fn': fn, 'a': [rng.below(1 << bits) for _ in range(n)]}
                    seen[fn] = seen.get(fn, 0) + 1
                    if fn in ('xor', 'biterr'):
                        st['same'] = seen[fn] in (3, 4) if rep == 0 else rng.chance(0.3)
                        if not st['same']:
                            st['b'] = [rng.below(1 << bits) for _ in range(n)]
                        if fn == 'biterr' and len(shape) >= 2 and hist_axis is not None:
                            st['axis'] = hist_axis          # one axis per history: repeated calls look alike
                    steps.append(st)
                steps[-1]['copy'] = True
                out.append({'dtype': dt, 'shape': shape, 'steps': steps})
                k += 1
    return out


def psk_histories(rng, quick):
    out = []
    Ms = [2, 4, 8, 64] if quick else [2, 4, 8, 16, 64, 256, 1024, 4096]
    forms = ['float', 'np.float64', '0d-fresh', '0d-buffer']
    for M in Ms:
        for rep in range(2 if quick else 6):
            hist = [{'op': 'new', 'obj': 0, 'phase': rng.uniform(-7, 7), 'form': '0d-buffer' if rep == 0 else rng.choice(forms)},
                    {'op': 'new', 'obj': 1, 'phase': rng.uniform(-7, 7), 'form': '0d-buffer' if rep == 0 else rng.choice(forms)}]
            for _ in range(rng.randint(2, 4) if rep else 4):
                hist.append({'op': 'set', 'obj': rng.randint(0, 1), 'phase': rng.uniform(-7, 7),
                             'form': '0d-buffer' if rep == 0 else rng.choice(forms)})
            if rep == 1:      # the same python float object, and an equal value in another object, one after the other
                x = rng.uniform(-7, 7)
                hist += [{'op': 'set', 'obj': 0, 'phase': x, 'form': 'float'}, {'op': 'set', 'obj': 1, 'phase': x, 'form': 'np.float64'},
                         {'op': 'set', 'obj': 0, 'phase': x, 'form': '0d-fresh'}]
            out.append({'M': M, 'hist': hist})
    return out


# ------------------------------------------------------------ correspondence with the Lean model
def _show_nats(xs):
    xs = [int(t) for t in np.asarray(xs).ravel()]
    return ','.join(str(t) for t in xs) if xs else '[]'


def corr_buffers(ctx, drv, quick):
    """R16 / R15: histories on two int64 buffers refilled in place — real code against `C15R.run`"""
    conv, misc, _ = _impl()
    cases = []
    close = close_int_cases(ctx.rng, quick)
    for h in range(12 if quick else 300):
        n = ctx.rng.randint(0, 7)
        ops = [('R', i, [ctx.rng.below(1 << 40) for _ in range(n)]) for i in (0, 1)]
        for _ in range(ctx.rng.randint(3, 9)):
            c = ctx.rng.choice(['R', 'R', 'B', 'G', 'C', 'X', 'E', 'E'])
            if c == 'R':
                i = ctx.rng.randint(0, 1)
                if n and ctx.rng.chance(0.3):          # R15: the other buffer's contents, changed by a relative 1e-6…1e-16
                    _, a, b = ctx.rng.choice(close)
                    vals = [(a + b)[ctx.rng.below(len(a + b))] for _ in range(n)]
                else:
                    bits = ctx.rng.randint(1, 62)
                    vals = [ctx.rng.below(1 << bits) for _ in range(n)]
                ops.append(('R', i, vals))
            elif c in 'BGC':
                ops.append((c, ctx.rng.randint(0, 1)))
            else:
                i = ctx.rng.randint(0, 1)
                ops.append((c, i, i if ctx.rng.chance(0.3) else 1 - i))
        cases.append((n, ops))
    # deterministic R15 histories: a buffer compared with a close copy of itself
    for dt, a, b in close:
        if dt in ('int64', 'int32', 'uint32'):
            cases.append((len(a), [('R', 0, a), ('R', 1, a), ('E', 0, 1), ('R', 1, b), ('E', 0, 1), ('B', 1), ('G', 1), ('X', 0, 1),
                                   ('R', 0, b), ('E', 0, 1), ('E', 1, 1)]))
    lines, impl = [], []
    for n, ops in cases:
        bufs = [np.zeros(n, dtype=np.int64), np.zeros(n, dtype=np.int64)]
        toks, outs = ['hist', '2'], []
        for op in ops:
            if op[0] == 'R':
                bufs[op[1]][...] = np.array(op[2], dtype=np.int64)
                toks += ['R', str(op[1]), str(n)] + [str(v) for v in op[2]]
                outs.append('-')
                continue
            toks += [op[0]] + [str(t) for t in op[1:]]
            if op[0] == 'B':
                outs.append(_show_nats(conv.binary2gray(bufs[op[1]])))
            elif op[0] == 'G':
                outs.append(_show_nats(conv.gray2binary(bufs[op[1]])))
            elif op[0] == 'C':
                outs.append(_show_nats(misc.count_bits(bufs[op[1]])))
            elif op[0] == 'X':
                outs.append(_show_nats(misc.xor(bufs[op[1]], bufs[op[2]])))
            else:
                outs.append('=%d' % int(misc.count_bit_errors(bufs[op[1]], bufs[op[2]])))
                if op[1] == op[2]:
                    ctx.branch('corr:R16:same-object-both-roles')
        heap = [_show_nats(b_) for b_ in bufs]
        lines.append(' '.join(toks))
        impl.append(';'.join(outs) + ' | ' + ';'.join(heap))
    out = drv.ask(lines)
    for (n, ops), i_, m_ in zip(cases, impl, out):
        ctx.corr('R16.buffer-history', {'n': n, 'ops': ops}, i_, m_, nontrivial=n > 0, key=('r16hist', i_))
        ctx.branch('corr:R16:buffer-refilled-in-place')
    ctx.branch('corr:R15:close-integers', len([c for c in close if c[0] in ('int64', 'int32', 'uint32')]))


def corr_psk(ctx, drv, quick):
    """R15 / R16: offset histories — `p.symbols` bit for bit against natural(offset named by the model)[positions
    named by the model]"""
    _, _, f = _impl()
    cases = []
    for kind, offs in offset_sets(ctx.rng, quick):
        for M in ([4, 16] if quick else [2, 4, 8, 32, 256, 4096]):
            cases.append((kind, M, offs, 'float'))
    for M in (8, 64):
        for _ in range(3 if quick else 20):
            cases.append(('buffer', M, [ctx.rng.uniform(-7, 7) for _ in range(ctx.rng.randint(1, 4))], '0d-buffer'))
    lines = []
    tables = []
    buf = np.zeros(())
    for kind, M, offs, form in cases:
        p = f.PSK(M, _offset_arg(form, offs[0], buf))
        for phi in offs[1:]:
            p.setPhaseOffset(_offset_arg(form, phi, buf))
            if form == '0d-buffer':
                buf[...] = -phi
        tables.append(p.symbols)
        lines.append('pskhist %d %s' % (M, ' '.join('f%d' % f2bits(x) for x in offs)))
    out = drv.ask(lines)
    for (kind, M, offs, form), tab, rep in zip(cases, tables, out):
        parts = rep.split(' ')
        if len(parts) != 3:
            ctx.corr('PSK.offset-history', {'M': M, 'offsets': offs}, 'table', rep)
            continue
        phi = bits2f(int(parts[1][1:]))
        pos = [int(t) for t in parts[2].split(',')]
        want = f.PSK._createConstellation(M, phi)[pos]
        ok = tab.shape == want.shape and np.array_equal(tab, want)
        # non-trivial when the table of the previous offset is a different one
        prev = f.PSK._createConstellation(M, offs[-2])[pos] if len(offs) > 1 else None
        ctx.corr('PSK.offset-history', {'M': M, 'offsets': offs, 'form': form, 'kind': kind},
                 'equal' if ok else 'differs', 'equal', nontrivial=prev is not None and not np.array_equal(prev, want),
                 key=('pskhist', M, tuple(offs), form))
        ctx.branch('corr:R16:offset-buffer-refilled' if form == '0d-buffer' else 'corr:R15:close-offsets:' + kind)


CORR_BRANCHES = ['corr:R16:buffer-refilled-in-place', 'corr:R16:same-object-both-roles', 'corr:R15:close-integers',
                 'corr:R16:offset-buffer-refilled'] + ['corr:R15:close-offsets:' + k for k in
                                                       ('tiny', 'tiny-rel-1e-5', 'adjacent-doubles', 'rel-1e-6', '12th-decimal', 'below-1e-8')]
ORACLE_BRANCHES = ['oracle:R15:close-offsets:' + k for k in ('tiny', 'tiny-rel-1e-5', 'adjacent-doubles', 'rel-1e-6', '12th-decimal', 'below-1e-8')] + [
    'oracle:R15:close-offsets:separable', 'oracle:R15:close-integers',
    'oracle:R16:buffer-refilled-in-place', 'oracle:R16:same-object-both-roles', 'oracle:R16:psk-offset-buffer',
    'oracle:R16:psk-two-objects', 'oracle:R16:constructor-roles']


def correspondence(ctx, quick):
    drv = core.Driver(DRIVER)
    corr_buffers(ctx, drv, quick)
    corr_psk(ctx, drv, quick)


def oracles(ctx, run_oracle, quick):
    for kind, offs in offset_sets(ctx.rng, quick):
        for M in ([2, 4, 16, 1024] if quick else [2, 4, 8, 16, 64, 256, 1024, 4096]):
            run_oracle(ctx, 'R15.offsets', {'M': M, 'kind': kind, 'offsets': offs}, key=('r15off', M, tuple(offs)))
            ctx.branch('oracle:R15:close-offsets:' + kind)
            if any(abs(a) < 0.5 and abs(b) < 0.5 and a != b or separation(a, b) > 10 * table_tol(max(abs(a), abs(b)))
                   for a, b in zip(offs, offs[1:])):
                ctx.branch('oracle:R15:close-offsets:separable')
    for dt, a, b in close_int_cases(ctx.rng, quick):
        run_oracle(ctx, 'R15.integers', {'dtype': dt, 'a': a, 'b': b}, key=('r15int', dt, tuple(a)))
        ctx.branch('oracle:R15:close-integers')
    for case in buffer_histories(ctx.rng, quick):
        run_oracle(ctx, 'R16.buffers', case, key=('r16buf', case['dtype'], tuple(case['shape']), repr(case['steps'])[:200]))
        ctx.branch('oracle:R16:buffer-refilled-in-place')
        if any(st.get('same') for st in case['steps']):
            ctx.branch('oracle:R16:same-object-both-roles')
    for case in psk_histories(ctx.rng, quick):
        run_oracle(ctx, 'R16.psk', case, key=('r16psk', case['M'], repr(case['hist'])[:200]))
        ctx.branch('oracle:R16:psk-two-objects')
        if any(st['form'] == '0d-buffer' for st in case['hist']):
            ctx.branch('oracle:R16:psk-offset-buffer')
    for M, L in ((4, 2), (8, 4), (16, 2), (64, 8)):
        run_oracle(ctx, 'R16.roles', {'M': M, 'L': L}, key=('r16roles', M, L))
        ctx.branch('oracle:R16:constructor-roles')
