"""C15 — Gray labelling and Gray conversion (DESIGN.md §5 C15).

Tie to source: Generated/Conversion.lean is re-emitted from util/conversion.py
and util/misc.py (theorems are about those definitions); the label maps of
fundamental.py are hand models tied by exact table correspondence.
"""
import numpy as np

from harness import core

MODULE = 'PyPhysim.Properties.C15'
DRIVER = 'drv_c15'
CLAIM = {
    'technique': 'Lean 4 theorems on definitions regenerated from the source (prefix-xor doubling, telescoping, '
                 'one-bit step induction), PSK chord geometry over R, + exact table correspondence for the label maps',
    'text': 'gray2binary/binary2gray/xor/count_bits/int2bits/level2bits are re-translated from /repo into Lean on '
            'every run and the theorems (mutual inverse on [0,2^64), range closure, one-bit steps incl. wrap-around, '
            'count_bits = popcount with termination, bit errors = Hamming distance) are kernel-checked against them. '
            'PSK: for every M=2^m and every phase offset, any two labels whose points are at minimum distance differ '
            'in one bit (chord monotonicity over R + Gray step theorems). QAM 4/16: whole-table kernel evaluation. '
            'The PSK/QAM label maps are hand models tied by exact comparison of every constellation table with '
            'natural[model index]; two known findings (setPhaseOffset order, QAM>=64 labelling) carry proved '
            'negative witnesses and are replayed on the code by the oracle. R15/R16: the PSK object (offset histories) '
            'and the caller\'s index buffers (refilled in place between calls, one buffer in both roles) are state machines '
            'of Model/C15Robust.lean; proved: a setter takes effect for every new value and tables of different offsets '
            'are 2|sin(d/2)| apart, zero bit errors only for equal arrays, distinct integers have distinct codes, the k-th '
            'call returns the fresh result for the contents at call time, earlier results and the buffers never change; '
            'tied by history correspondence (driver ops hist / pskhist) and checked on the code from first principles '
            '(extended-precision PSK points, digit-wise Gray code) for close-but-distinct offsets / index values and '
            'for reused argument objects.',
    'note': 'Trusted: Lean kernel, axioms {propext, Classical.choice, Quot.sound}, harness/translate.py integer '
            'fragment, the table correspondence for fundamental.py label maps (and the C01 table correspondence for '
            'the natural constellation). QAM Gray theorem is proved for orders 4 and 16 only because the code is NOT '
            'Gray labelled from 64 on (known finding, pinned by an existing test).',
}


def _impl():
    from pyphysim.util import conversion, misc
    from pyphysim.modulators import fundamental
    return conversion, misc, fundamental


def popcount(x):
    return bin(int(x)).count('1')


# ---------------------------------------------------------------- oracles
# each takes a JSON-serialisable case and returns None (holds) or (class, detail)
def o_roundtrip(case):
    conv, _, _ = _impl()
    n = int(case['n'])
    kind = case.get('kind', 'int')
    if kind == 'int':
        g = conv.binary2gray(n)
        b = conv.gray2binary(n)
        r1, r2 = conv.gray2binary(g), conv.binary2gray(b)
    else:
        dt = np.int64 if kind == 'int64' else np.int32
        a = np.array([n], dtype=dt)
        r1 = int(conv.gray2binary(conv.binary2gray(a))[0])
        r2 = int(conv.binary2gray(conv.gray2binary(a))[0])
    if int(r1) != n or int(r2) != n:
        cls = 'roundtrip:n>=2^16' if n >= 2 ** 16 else 'roundtrip:n<2^16'
        return cls, 'g2b(b2g n)=%s b2g(g2b n)=%s' % (r1, r2)
    return None


def o_consecutive(case):
    conv, _, _ = _impl()
    n = int(case['n'])
    d = popcount(int(conv.binary2gray(n)) ^ int(conv.binary2gray(n + 1)))
    if d != 1:
        return 'consecutive-not-one-bit', 'gray(n)^gray(n+1) has %d bits' % d
    return None


def o_biterrors(case):
    _, misc, _ = _impl()
    a = np.array(case['a'], dtype=np.int64)
    b = np.array(case['b'], dtype=np.int64)
    got = int(misc.count_bit_errors(a, b))
    exp = sum(popcount(int(x) ^ int(y)) for x, y in zip(case['a'], case['b']))
    if got != exp:
        return 'bit-errors-not-hamming', 'got %d expected %d' % (got, exp)
    return None


def min_distance_label_check(symbols):
    """every pair at minimum distance differs in exactly one label bit"""
    s = np.asarray(symbols)
    M = s.size
    d = np.abs(s[:, None] - s[None, :])
    d[np.arange(M), np.arange(M)] = np.inf
    dm = d.min()
    ia, ib = np.nonzero(d <= dm * (1 + 1e-9))
    for a, b in zip(ia.tolist(), ib.tolist()):
        if a < b and popcount(a ^ b) != 1:
            return a, b, len(ia) // 2
    return None


def o_psk_init(case):
    _, _, f = _impl()
    M = int(case['M'])
    p = f.PSK(M, case['phase'])
    r = min_distance_label_check(p.symbols)
    if r:
        return 'labels-not-gray', 'labels %d,%d at minimum distance' % r[:2]
    return None


def o_psk_offset(case):
    _, _, f = _impl()
    M = int(case['M'])
    p = f.PSK(M, case['phase'])
    for ph in case['offsets']:
        p.setPhaseOffset(ph)
    r = min_distance_label_check(p.symbols)
    if r:
        return 'labels-not-gray', 'labels %d,%d at minimum distance after setPhaseOffset' % r[:2]
    return None


def o_qpsk(case):
    """the QPSK subclass (what applications construct) is Gray labelled, also after the histories PSK allows"""
    _, _, f = _impl()
    q = f.QPSK()
    r = min_distance_label_check(q.symbols)
    if r:
        return 'labels-not-gray', 'QPSK(): labels %d,%d at minimum distance' % r[:2]
    return None


def o_biterrors_long(case):
    """R5 (size boundaries): long index arrays, lengths at and around multiples of 2^16, axis None and given"""
    _, misc, _ = _impl()
    rs = np.random.RandomState(case['seed'])
    shape = tuple(case['shape'])
    a = rs.randint(0, 1 << 20, size=shape).astype(np.int64)
    b = rs.randint(0, 1 << 20, size=shape).astype(np.int64)
    x = a ^ b
    exp = int(sum(int(np.sum((x >> k) & 1)) for k in range(21)))
    got = int(misc.count_bit_errors(a, b))
    if got != exp:
        return 'bit-errors-not-hamming:long', 'shape %s: got %d, Hamming distance %d' % (shape, got, exp)
    if len(shape) == 2:
        g0 = misc.count_bit_errors(a, b, 0)
        e0 = sum(((x >> k) & 1).sum(axis=0) for k in range(21))
        if not np.array_equal(np.asarray(g0), e0):
            return 'bit-errors-not-hamming:long-axis', 'shape %s axis 0' % (shape,)
    return None


def o_qam(case):
    _, _, f = _impl()
    M = int(case['M'])
    q = f.QAM(M)
    r = min_distance_label_check(q.symbols)
    if r:
        return ('labels-not-gray:M>=64' if M >= 64 else 'labels-not-gray:M<64',
                'labels %d,%d at minimum distance' % r[:2])
    return None


def _layouts(a):
    out = [('C', np.ascontiguousarray(a))]
    if a.ndim >= 2:
        out.append(('F', np.asfortranarray(a)))
        out.append(('T', np.ascontiguousarray(a.T).T))
        out.append(('reversed', np.ascontiguousarray(a[..., ::-1])[..., ::-1]))
    big = np.zeros(tuple(2 * n for n in a.shape), dtype=a.dtype)
    big[tuple(slice(None, None, 2) for _ in a.shape)] = a
    out.append(('strided', big[tuple(slice(None, None, 2) for _ in a.shape)]))
    return out


def o_conv_arrays(case):
    """R1/R2/R3: conversions on arrays of every integer dtype, memory layout and shape (incl. empty);
    the caller's array is not modified and the result is a new array"""
    conv, _, _ = _impl()
    dt = np.dtype(case['dtype'])
    vals = np.array(case['values'], dtype=np.uint64).astype(dt).reshape(case['shape'])
    exp_g = np.array([int(v) ^ (int(v) >> 1) for v in vals.ravel().tolist()], dtype=object).reshape(vals.shape)
    for name, v in _layouts(vals):
        keep = v.copy()
        g = conv.binary2gray(v)
        if np.shape(g) != v.shape or [int(t) for t in np.asarray(g).ravel()] != [int(t) for t in exp_g.ravel()]:
            return 'arrays:binary2gray:%s' % name, 'dtype %s shape %s' % (dt, v.shape)
        b = conv.gray2binary(g)
        if np.shape(b) != v.shape or [int(t) for t in np.asarray(b).ravel()] != [int(t) for t in keep.ravel()]:
            return 'arrays:roundtrip:%s' % name, 'dtype %s shape %s' % (dt, v.shape)
        if not np.array_equal(v, keep):
            return 'arrays:input-modified:binary2gray', str(dt)
        gk = np.array(g, copy=True)
        b2 = conv.gray2binary(g)
        if not np.array_equal(np.asarray(g), gk):
            return 'arrays:input-modified:gray2binary', 'gray2binary overwrote its argument (dtype %s)' % dt
        if [int(t) for t in np.asarray(b2).ravel()] != [int(t) for t in keep.ravel()]:
            return 'arrays:second-decode-differs', str(dt)
        if [int(t) for t in np.asarray(conv.binary2gray(conv.gray2binary(g))).ravel()] != [int(t) for t in gk.ravel()]:
            return 'arrays:gray-binary-gray', str(dt)
    return None


def o_biterrors_mixed(case):
    """R1: Hamming distance between index arrays of different integer dtypes, both argument orders"""
    _, misc, _ = _impl()
    a = np.array(case['a'], dtype=np.uint64).astype(case['da'])
    b = np.array(case['b'], dtype=np.uint64).astype(case['db'])
    exp = sum(popcount(int(x) ^ int(y)) for x, y in zip(a.tolist(), b.tolist()))
    pair = '%s/%s' % (np.dtype(case['da']).kind, np.dtype(case['db']).kind)
    for first, second, tag in ((a, b, 'ab'), (b, a, 'ba')):
        ka, kb = first.copy(), second.copy()
        try:
            got = int(misc.count_bit_errors(first, second))
        except TypeError as e:
            if {str(first.dtype), str(second.dtype)} >= {'uint64'} and any(np.dtype(d).kind == 'i' for d in (first.dtype, second.dtype)):
                return 'bit-errors:uint64-with-signed', repr(e)[:120]
            return 'bit-errors:raises:' + pair, repr(e)[:120]
        if got != exp:
            return 'bit-errors-not-hamming:mixed-dtypes', '%s %s vs %s %s (%s): got %d expected %d' % (
                first.dtype, first.tolist()[:4], second.dtype, second.tolist()[:4], tag, got, exp)
        if not (np.array_equal(first, ka) and np.array_equal(second, kb)):
            return 'bit-errors:input-modified', tag
    return None


def o_forms(case):
    """R8 argument forms (keyword / positional, axis absent / None / given / negative), R9 scalar arguments of
    every integer type incl. values above 256, R10 array against scalar"""
    conv, misc, _ = _impl()
    n = int(case['n'])
    g = n ^ (n >> 1)
    forms = [('int', n), ('np.int64', np.int64(n)), ('np.uint64', np.uint64(n)), ('0-d', np.array(n, dtype=np.int64))]
    if n < 2 ** 31:
        forms += [('np.int32', np.int32(n)), ('np.uint32', np.uint32(n))]
    if n < 2 ** 15:
        forms += [('np.int16', np.int16(n)), ('np.uint16', np.uint16(n))]
    if n < 2 ** 7:
        forms += [('np.int8', np.int8(n)), ('np.uint8', np.uint8(n))]
    for name, v in forms:
        for tag, got in (('binary2gray(v)', conv.binary2gray(v)), ('binary2gray(num=v)', conv.binary2gray(num=v))):
            if np.shape(got) != () or int(got) != g:
                return 'forms:%s:%s' % (tag, name), 'n=%d: got %r, n xor n>>1 = %d' % (n, got, g)
        gv = type(v)(g) if not isinstance(v, np.ndarray) else np.array(g, dtype=v.dtype)
        for tag, got in (('gray2binary(v)', conv.gray2binary(gv)), ('gray2binary(num=v)', conv.gray2binary(num=gv))):
            if np.shape(got) != () or int(got) != n:
                return 'forms:%s:%s' % (tag, name), 'gray %d: got %r, expected %d' % (g, got, n)
    a = np.array(case['a'], dtype=np.int64).reshape(case['shape'])
    b = np.array(case['b'], dtype=np.int64).reshape(case['shape'])
    x = a ^ b
    pc = np.vectorize(popcount)(x) if x.size else np.zeros(x.shape, dtype=int)
    tot = int(pc.sum())
    calls = [('(a, b)', lambda: misc.count_bit_errors(a, b), tot),
             ('(a, b, None)', lambda: misc.count_bit_errors(a, b, None), tot),
             ('(a, b, axis=None)', lambda: misc.count_bit_errors(a, b, axis=None), tot),
             ('(first=a, second=b)', lambda: misc.count_bit_errors(first=a, second=b), tot),
             ('(second=b, first=a)', lambda: misc.count_bit_errors(second=b, first=a), tot),
             ('(copies)', lambda: misc.count_bit_errors(np.array(a.tolist(), dtype=int).reshape(a.shape),
                                                        np.array(b.tolist(), dtype=int).reshape(b.shape)), tot)]
    for ax in range(-a.ndim, a.ndim):
        calls.append(('(a, b, %d)' % ax, (lambda ax=ax: misc.count_bit_errors(a, b, ax)), pc.sum(axis=ax)))
        calls.append(('(a, b, axis=%d)' % ax, (lambda ax=ax: misc.count_bit_errors(a, b, axis=ax)), pc.sum(axis=ax)))
    sc = int(case['scalar'])
    pcs = np.vectorize(popcount)(a ^ sc) if a.size else np.zeros(a.shape, dtype=int)
    calls += [('(a, int)', lambda: misc.count_bit_errors(a, sc), int(pcs.sum())),
              ('(int, a)', lambda: misc.count_bit_errors(sc, a), int(pcs.sum())),
              ('(a, np.int64)', lambda: misc.count_bit_errors(a, np.int64(sc)), int(pcs.sum())),
              ('(int, int)', lambda: misc.count_bit_errors(n, sc), popcount(n ^ sc)),
              ('(np.int64, np.int32)', lambda: misc.count_bit_errors(np.int64(n), np.int32(sc)), popcount(n ^ sc))]
    for name, fcall, want in calls:
        try:
            got = fcall()
        except Exception as e:
            return 'forms:raises:count_bit_errors%s' % name, repr(e)[:200]
        if np.shape(got) != np.shape(want) or not np.array_equal(np.asarray(got), np.asarray(want)):
            return 'forms:count_bit_errors%s' % name, 'shape %s: got %r, Hamming distance %r' % (
                a.shape, np.asarray(got).tolist(), np.asarray(want).tolist())
    return None


ORACLES = {
    'forms': o_forms,
    'conversions.arrays': o_conv_arrays,
    'count_bit_errors.mixed': o_biterrors_mixed,
    'gray2binary': o_roundtrip,
    'binary2gray.consecutive': o_consecutive,
    'count_bit_errors': o_biterrors,
    'QPSK.__init__': o_qpsk,
    'count_bit_errors.long': o_biterrors_long,
    'PSK.__init__': o_psk_init,
    'PSK.setPhaseOffset': o_psk_offset,
    'QAM.__init__': o_qam,
}


from harness.props import c15_robust  # noqa: E402  (R15 / R16 classes)

ORACLES.update(c15_robust.ORACLES)


def run_oracle(ctx, call, case, key=None, nontrivial=True):
    ctx.count((call, key if key is not None else repr(case)), nontrivial)
    try:
        r = ORACLES[call](case)
    except Exception as e:  # an exception where the property promises a value
        r = ('exception:' + type(e).__name__, repr(e)[:300])
    if r is not None:
        ctx.fail(call, r[0], case, r[1])
        ctx.branch('oracle-fail:' + call)
    else:
        ctx.branch('oracle-ok:' + call)
    return r


def replay(ctx, rep):
    r = ORACLES[rep['call']](rep['case'])
    return r is not None


# ---------------------------------------------------------------- inputs
def integer_inputs(ctx, n_small, n_rand):
    xs = list(range(n_small))
    for k in range(1, 63):
        for d in (-1, 0, 1):
            v = (1 << k) + d
            if 0 <= v < (1 << 62):
                xs.append(v)
    xs.append((1 << 62) - 1)
    for _ in range(n_rand):
        bits = ctx.rng.randint(1, 62)
        xs.append(ctx.rng.below(1 << bits))
    return xs


def correspondence(ctx, n_small, n_rand, psk_max, qam_max):
    conv, misc, f = _impl()
    drv = core.Driver(DRIVER)
    xs = integer_inputs(ctx, n_small, n_rand)
    lines = []
    for n in xs:
        lines += ['b2g %d' % n, 'g2b %d' % n]
    out = drv.ask(lines)
    arr = np.array(xs, dtype=np.int64)
    ib2g = conv.binary2gray(arr)
    ig2b = conv.gray2binary(arr)
    for i, n in enumerate(xs):
        # scalar path for a sample of the values, array path for all
        ctx.corr('binary2gray', n, str(int(ib2g[i])), out[2 * i], nontrivial=n > 1, key=('b2g', n))
        ctx.corr('gray2binary', n, str(int(ig2b[i])), out[2 * i + 1], nontrivial=n > 1, key=('g2b', n))
    scal = xs[:64] + xs[n_small:n_small + 200]
    for n in scal:
        j = xs.index(n)
        ctx.corr('binary2gray', ('scalar', n), str(conv.binary2gray(n)), out[2 * j], key=('b2g-s', n))
        ctx.corr('gray2binary', ('scalar', n), str(conv.gray2binary(n)), out[2 * j + 1], key=('g2b-s', n))
    small = [x for x in xs if x < (1 << 31)][:3000]
    a32 = np.array(small, dtype=np.int32)
    o32 = conv.gray2binary(a32)
    for n, v in zip(small, o32.tolist()):
        ctx.corr('gray2binary', ('int32', n), str(v), out[2 * xs.index(n) + 1] if n < n_small else
                 drv.ask(['g2b %d' % n])[0], key=('g2b32', n))
    ctx.branch('ints>=2^16', sum(1 for x in xs if x >= 1 << 16))
    ctx.branch('ints>=2^32', sum(1 for x in xs if x >= 1 << 32))
    # bit helpers
    ys = list(range(0, 300)) + [x for x in xs[n_small:n_small + 300]]
    lines = []
    for n in ys:
        lines += ['bits %d' % n, 'level %d' % n, 'count %d' % n]
    out = drv.ask(lines)
    cb = misc.count_bits(np.array(ys, dtype=np.int64))
    for i, n in enumerate(ys):
        ctx.corr('int2bits', n, str(misc.int2bits(n)), out[3 * i], key=('bits', n))
        try:
            lv = str(misc.level2bits(n))
        except ValueError:
            lv = 'error:ValueError'
        ctx.corr('level2bits', n, lv, out[3 * i + 1], key=('level', n))
        ctx.corr('count_bits', n, str(int(cb[i])), out[3 * i + 2], key=('count', n))
    # label maps: symbols[l] must be the natural point the model's index names
    M = 2
    while M <= psk_max:
        phase = ctx.rng.uniform(-7.0, 7.0)
        idx = [int(t) for t in drv.ask(['pskidx %d' % M])[0].split(',')]
        nat = f.PSK._createConstellation(M, phase)
        p = f.PSK(M, phase)
        ok = all(i < M for i in idx) and np.array_equal(p.symbols, nat[idx])
        ctx.corr('PSK.__init__.labelmap', {'M': M, 'phase': phase}, 'equal' if ok else 'differs', 'equal',
                 key=('pskmap', M))
        ph2 = ctx.rng.uniform(-7.0, 7.0)
        p.setPhaseOffset(ph2)
        nat2 = f.PSK._createConstellation(M, ph2)
        ok = np.array_equal(p.symbols, nat2)   # model: pskPosAfterSetOffset = id
        ctx.corr('PSK.setPhaseOffset.labelmap', {'M': M, 'phase': ph2}, 'equal' if ok else 'differs', 'equal',
                 key=('pskoff', M))
        M *= 2
    L = 2
    while L * L <= qam_max:
        idx = [int(t) for t in drv.ask(['qamidx %d' % L])[0].split(',')]
        q = f.QAM(L * L)
        nat = f.QAM._createConstellation(L * L)
        ok = all(i < L * L for i in idx) and np.array_equal(q.symbols, nat[idx])
        ctx.corr('QAM.__init__.labelmap', {'M': L * L}, 'equal' if ok else 'differs', 'equal', key=('qammap', L))
        # the natural grid itself: cell ii*L+jj is at (-(L-1)+2jj, (L-1)-2ii)/sqrt(2(M-1)/3)
        ii, jj = np.divmod(np.arange(L * L), L)
        grid = (-(L - 1) + 2 * jj) + 1j * ((L - 1) - 2 * ii)
        ok = np.allclose(nat * np.sqrt((L * L - 1) * 2.0 / 3.0), grid, rtol=1e-12, atol=1e-12)
        ctx.corr('QAM._createConstellation.grid', {'M': L * L}, 'grid' if ok else 'other', 'grid', key=('qamgrid', L))
        L *= 2


def oracles(ctx, n_small, n_rand, psk_max, qam_max):
    for n in integer_inputs(ctx, n_small, n_rand):
        run_oracle(ctx, 'gray2binary', {'n': n, 'kind': 'int'}, nontrivial=n > 1)
        if n < (1 << 62) - 1:
            run_oracle(ctx, 'binary2gray.consecutive', {'n': n})
    for n in integer_inputs(ctx, 64, 200):
        run_oracle(ctx, 'gray2binary', {'n': n, 'kind': 'int64'})
        if n < (1 << 31):
            run_oracle(ctx, 'gray2binary', {'n': n, 'kind': 'int32'})
    for _ in range(60):
        ln = ctx.rng.randint(1, 40)
        bits = ctx.rng.randint(1, 62)
        a = [ctx.rng.below(1 << bits) for _ in range(ln)]
        b = [ctx.rng.below(1 << bits) for _ in range(ln)]
        run_oracle(ctx, 'count_bit_errors', {'a': a, 'b': b})
    dts = ['uint8', 'int8', 'uint16', 'int16', 'uint32', 'int32', 'uint64', 'int64']
    for dt in dts:
        bits = np.dtype(dt).itemsize * 8 - (1 if np.dtype(dt).kind == 'i' else 0)
        bits = min(bits, 62)
        for shape in ([12], [3, 4], [2, 3, 2], [0], [0, 3]):
            n = int(np.prod(shape))
            vals = [ctx.rng.below(1 << ctx.rng.randint(1, bits)) for _ in range(n)]
            if n:
                vals[0] = (1 << bits) - 1
            run_oracle(ctx, 'conversions.arrays', {'dtype': dt, 'shape': shape, 'values': vals},
                       key=('arr', dt, tuple(shape)))
    for da in dts:
        for db in dts:
            ba = min(np.dtype(da).itemsize * 8 - (1 if np.dtype(da).kind == 'i' else 0), 62)
            bb = min(np.dtype(db).itemsize * 8 - (1 if np.dtype(db).kind == 'i' else 0), 62)
            n = ctx.rng.randint(1, 6)
            a = [ctx.rng.below(1 << ba) for _ in range(n)]
            b = [ctx.rng.below(1 << bb) for _ in range(n)]
            a[0], b[0] = (1 << ba) - 1, (1 << bb) - 1
            run_oracle(ctx, 'count_bit_errors.mixed', {'a': a, 'b': b, 'da': da, 'db': db}, key=('mixed', da, db))
    for i in range(40):
        bits = ctx.rng.choice([3, 7, 9, 12, 15, 20, 31, 40, 62])
        n = [255, 256, 257, 300, 65535, 65536][i] if i < 6 else ctx.rng.below(1 << bits)
        shape = ctx.rng.choice([[5], [2, 3], [2, 2, 2], [1], [0], [3, 0]])
        k = int(np.prod(shape))
        run_oracle(ctx, 'forms', {'n': n, 'shape': shape, 'a': [ctx.rng.below(1 << 20) for _ in range(k)],
                                  'b': [ctx.rng.below(1 << 20) for _ in range(k)], 'scalar': ctx.rng.below(1 << 20)},
                   key=('forms', i))
    run_oracle(ctx, 'QPSK.__init__', {}, key='qpsk')
    for shape in ([65535], [65536], [65537], [131072], [196608], [512, 256], [3, 65536], [100000]):
        run_oracle(ctx, 'count_bit_errors.long', {'shape': shape, 'seed': ctx.rng.below(1 << 30)}, key=('long', tuple(shape)))
    M = 2
    while M <= psk_max:
        for _ in range(2 if M <= 256 else 1):
            ph = ctx.rng.uniform(-7, 7)
            run_oracle(ctx, 'PSK.__init__', {'M': M, 'phase': ph}, key=('psk', M))
        run_oracle(ctx, 'PSK.__init__', {'M': M, 'phase': 0.0}, key=('psk0', M))
        offs = [ctx.rng.uniform(-7, 7) for _ in range(ctx.rng.randint(1, 3))]
        run_oracle(ctx, 'PSK.setPhaseOffset', {'M': M, 'phase': 0.0, 'offsets': offs}, key=('pskoff', M))
        M *= 2
    L = 2
    while L * L <= qam_max:
        run_oracle(ctx, 'QAM.__init__', {'M': L * L}, key=('qam', L))
        L *= 2


def check(ctx):
    ctx.rule = ('integers: all n < N_small, 2^k-1/2^k/2^k+1 for k<=62, seeded random values of random bit '
                'length <= 62 (scalar, int32 and int64 array paths); constellations: PSK 2..2^k with seeded '
                'phase offsets, QAM 4..4^k; non-trivial = distinct (function, input) with input > 1 / distinct '
                '(class, M); R15: deterministic + seeded sets of close-but-distinct phase offsets (1e-9..3e-15, adjacent '
                'doubles, relative 1e-6, 12th decimal, below 1e-8; clear of the 1e-15 snap threshold by a factor 3) and '
                'index values (n/n+1 above 2^53, relative 1e-5..1e-17); R16: histories of 2-4 calls per entry point on '
                'ONE preallocated array per role refilled in place, the same array in both roles, the argument '
                'overwritten after the call, a 0-d offset buffer, two modulators of one order alive at once')
    quick = ctx.tier == 'quick'
    n_small, n_rand = (1 << 12, 2000) if quick else (1 << 17, 200000)
    psk_max, qam_max = (1 << 10, 4 ** 5) if quick else (1 << 12, 4 ** 6)
    core.prove(ctx, MODULE, generated=['Conversion'], drivers=[DRIVER], scratch=ctx.scratch)
    ctx.required_branches = ['ints>=2^16', 'ints>=2^32'] + c15_robust.CORR_BRANCHES + c15_robust.ORACLE_BRANCHES
    try:
        correspondence(ctx, n_small, n_rand, psk_max, qam_max)
        c15_robust.correspondence(ctx, quick)
    except core.Infra as e:
        # driver unavailable because the regenerated model no longer builds
        if not ctx.broken:
            raise
        ctx.notes.append('correspondence skipped: %s' % e)
        ctx.required_branches = list(c15_robust.ORACLE_BRANCHES)
    oracles(ctx, n_small, n_rand if quick else 20000, psk_max, qam_max)
    c15_robust.oracles(ctx, run_oracle, quick)
    ctx.sample({'call': 'gray2binary', 'n': 98304})
    ctx.sample({'call': 'PSK.__init__', 'M': 16, 'check': 'min-distance pairs differ in one label bit'})
    ctx.sample({'call': 'QAM.__init__.labelmap', 'M': 64, 'compare': 'symbols == natural[model index]'})


def search(ctx):
    """deeper failing-input search, used when a proof / correspondence broke"""
    for k in range(1, 63):
        for _ in range(200):
            n = (1 << (k - 1)) + ctx.rng.below(1 << (k - 1)) if k > 1 else 1
            run_oracle(ctx, 'gray2binary', {'n': n, 'kind': 'int'})
            run_oracle(ctx, 'binary2gray.consecutive', {'n': n})
    # R15 / R16 at thorough size (a broken history correspondence usually has a concrete input there)
    c15_robust.oracles(ctx, run_oracle, False)
