"""C18 — robustness classes R15 and R16 (helper module of harness/props/c18.py; not a property module).

R15  distinct values that are merely close: observations / channel taps / pilots /
     raw reference arrays / cover codes that `np.isclose` / `np.allclose` (atol 1e-8,
     rtol 1e-5), a rounded key or an absolute threshold would identify — relative
     1e-6 (2^-20), one unit in the last place, 13th decimal, absolute 1e-9, tiny
     magnitudes 1e-9 … 1e-15 that differ by a factor, 2.4e9 vs 2.4e9 + 2e4, a Gram
     matrix that is nearly a multiple of the identity, nearly parallel pilot rows
     (margin: the condition number, computed here), taps 2^-30 below the main tap.
     Every value must get exactly ITS result: bitwise the result of a fresh object on
     a copy, and the first-principles value (own DFT sums / the true response / H).
R16  argument identity and buffer reuse: ONE preallocated array refilled in place
     between 2–4 calls on one object / function, equal-content arrays that are other
     objects, the argument scribbled over right after the call, the same array object
     in two roles, for every public entry point that takes an array: both estimators
     (1-D / 2-D / 3-D, extra_dimension on / off, raw-array reference),
     compute_ls_estimation (2-D, 3-D shared, 3-D own), get_extended_ZF,
     get_shifted_root_seq / get_srs_seq / get_dmrs_seq, the + * [] helpers of
     RootSequence / UeSequence, DmrsUeSequence(cover_code=…) and the constructor
     CazacBasedChannelEstimator(<ndarray>).

Each class has a correspondence part (`corr:R15`, `corr:R16`: the real objects vs the
model on the contents at call time — for R16 the model is `Cazac.BufState.run`, driver
op `buf`) and an oracle part (`oracle:R15`, `oracle:R16`), required branches per object
kind, and failure classes computed from the input.  All comparisons are relative.
"""
import math

import numpy as np

from harness import core


def B():
    from harness.props import c18
    return c18


def R():
    from harness.props import c18_robust
    return c18_robust


def R2():
    from harness.props import c18_robust2
    return c18_robust2


EPS = 2.0 ** -52
P20 = 2.0 ** -20          # ~ 0.95e-6: inside rtol = 1e-5 of np.isclose, far outside every tolerance used here
P18 = 2.0 ** -18
P30 = 2.0 ** -30
TINY = [1e-9, 4e-12, 4e-13, 1e-15]
LARGE = [2.4e9, 2.4e9 + 2e4]


def same(a, b_):
    return R2().same(a, b_)


def rel(a, b_, tol):
    return R().rel_close(a, b_, tol)


# ------------------------------------------------------------------ first principles
def fp_estimate(ref, normalized, m, y, k):
    """the estimator written out with the defining DFT sums (no np.fft): de-rotate by conj(ref), N-point
    inverse DFT, keep taps 0..K, (m N)-point DFT, times N when the reference is flagged normalised"""
    b = B()
    ref = np.asarray(ref).astype(complex)
    n = ref.size
    y2 = np.atleast_2d(np.asarray(y).astype(complex))
    z = np.conj(ref)[None, :] * y2
    k1 = min(int(k) + 1, n)
    taps = z @ b.dft_matrix(k1, n, n, sign=1.0).T / n
    out = taps @ b.dft_matrix(m * n, k1, m * n).T
    if normalized:
        out = out * n
    return out if np.ndim(y) == 2 else out[0]


def fp_occ(rows, cover, normalized, y, k, extra):
    """cover-code estimator: reference = first slot times its code, observation = mean over the slots of
    slot * code"""
    rows = np.atleast_2d(np.asarray(rows))
    cc = np.asarray(cover).astype(complex)
    nc, ne = rows.shape
    y = np.asarray(y).astype(complex)
    if not extra:
        y = y.reshape(y.shape[:-1] + (nc, ne))
    ym = np.mean(y * cc[:, None], axis=-2)
    return fp_estimate(rows[0] * cc[0], normalized, 1, ym, k)


def fp_shift(arr, ncs, d):
    n = np.arange(arr.size)
    ph = ((int(ncs) * n) % d) / float(d)
    return np.exp(2j * np.pi * ph) * arr


# ------------------------------------------------------------------ estimator objects of a case
EST_KINDS = ['plain', 'comb', 'occ', 'occ-flat', 'raw']


def est_spec(rng, kind, sizes=(12, 24, 36, 48, 60, 72, 96)):
    b = B()
    size = rng.choice(list(sizes))
    d = 12 if kind in ('occ', 'occ-flat') else rng.choice([8, 12])
    lim = b.largest_prime_le(size) if size > 24 else 30
    cover = None
    if kind in ('occ', 'occ-flat'):
        cover = [rng.choice([1, -1]) for _ in range(rng.randint(1, 3))]
    return {'u': rng.randint(1, lim - 1), 'size': size, 'nzc': None, 'ncs': rng.below(d), 'D': d, 'cover': cover,
            'norm': 0 if kind == 'raw' else rng.below(2)}


def raw_reference(spec, mode):
    """a raw reference ARRAY derived from a user sequence (R15 modes: close to normalised / to unit modulus)"""
    b = B()
    x = np.array(b.impl_ue(dict(spec, norm=0, cover=None)).seq_array(), copy=True)
    n = x.size
    if mode in (None, 'unit'):
        return x
    if mode == 'norm-exact':
        return x / np.linalg.norm(x)                       # exactly normalised, but NOT flagged: no factor N
    if mode == 'norm+1e-6':
        return x / np.linalg.norm(x) * (1.0 + P20)
    if mode == 'ripple':
        return x * (1.0 + P20 * np.where(np.arange(n) % 2 == 0, 1.0, -1.0))
    if mode == 'tiny':
        return x * 1e-9
    if mode == 'large':
        return x * 2.4e9
    raise ValueError(mode)


def make_est(ec):
    """(estimator, first-principles closure fp(y, K), observation shape for nr)"""
    b = B()
    ce = b._impl()[4]
    kind, spec, m = ec['kind'], ec['ue'], int(ec.get('m', 1))
    if kind == 'raw':
        ref = raw_reference(spec, ec.get('refmode'))
        est = ce.CazacBasedChannelEstimator(ref, size_multiplier=m)
        refc = np.array(ref, copy=True)
        return est, (lambda y, k: fp_estimate(refc, False, m, y, k)), (lambda nr: (refc.size,) if nr == 0 else (nr, refc.size))
    ue = b.impl_ue(spec)
    n = ue.size
    if kind in ('occ', 'occ-flat'):
        est = ce.CazacBasedWithOCCChannelEstimator(ue)
        rows = np.array(ue.seq_array(), copy=True)
        cc = np.array(spec['cover'])
        extra = kind == 'occ'
        nc = len(spec['cover'])

        def shape(nr):
            if extra:
                return (nc, n) if nr == 0 else (nr, nc, n)
            return (nc * n,) if nr == 0 else (nr, nc * n)
        return est, (lambda y, k: fp_occ(rows, cc, bool(spec['norm']), y, k, extra)), shape
    est = ce.CazacBasedChannelEstimator(ue, size_multiplier=m)
    refc = np.array(ue.seq_array(), copy=True)
    return est, (lambda y, k: fp_estimate(refc, bool(spec['norm']), m, y, k)), (lambda nr: (n,) if nr == 0 else (nr, n))


def call_est(est, ec, y, k):
    if ec['kind'] in ('occ', 'occ-flat'):
        return est.estimate_channel_freq_domain(y, int(k), extra_dimension=(ec['kind'] == 'occ'))
    return est.estimate_channel_freq_domain(y, int(k))


def gen_est_case(rng, kind=None):
    kind = kind or rng.choice(EST_KINDS)
    spec = est_spec(rng, kind)
    ec = {'kind': kind, 'ue': spec, 'm': 1}
    if kind == 'comb':
        ec['m'] = rng.choice([2, 2, 3])
    elif kind == 'raw':
        ec['m'] = rng.choice([1, 2])
        ec['refmode'] = 'unit'
    return ec


# ------------------------------------------------------------------ R15: close values
OBS_MODES = ['rel', 'elem', 'ulp', 'dec13', 'abs1e-9']


def obs_variant(y0, mode, seed):
    """a DISTINCT observation that np.allclose(., y0) identifies with y0"""
    rr = np.random.RandomState(seed % (2 ** 31))
    if mode == 'base':
        return np.array(y0, copy=True)
    if mode == 'rel':
        return y0 * (1.0 + P20)
    if mode == 'elem':
        y = np.array(y0, copy=True)
        y.flat[int(rr.randint(0, y.size))] *= (1.0 + P20)
        return y
    if mode == 'ulp':
        return np.nextafter(y0.real, np.inf) + 1j * y0.imag
    if mode == 'dec13':
        return y0 + 3e-13 * np.abs(y0) * np.where(rr.randint(0, 2, size=y0.shape) == 0, 1.0, -1.0)
    if mode == 'abs1e-9':
        return y0 + 1e-9 * (rr.randn(*y0.shape) + 1j * rr.randn(*y0.shape))
    raise ValueError(mode)


def call_contents(case, shape, call):
    y0 = R().rnd_y(case['seed'], shape, 'complex128')
    return obs_variant(y0, call['mode'], case['seed'] + 17) * float(call.get('scale', 1.0))


def o_close_calls(case):
    """R15: ONE estimator object is called with observations that are close but distinct (and with adjacent K):
    every result is bitwise the result of a fresh estimator on a copy of THAT observation and agrees with the
    defining DFT sums"""
    ec = case['est']
    est, fp, shape = make_est(ec)
    shp = shape(case['nr'])
    hist = []
    for i, call in enumerate(case['calls']):           # the history as the caller runs it
        y = call_contents(case, shp, call)
        snap = np.array(y, copy=True)
        out = np.asarray(call_est(est, ec, y, call['K']))
        if not same(y, snap):
            return 'input-modified:R15:close-observation:' + ec['kind'], 'call %d changed its observation' % i
        hist.append((call, snap, out, np.array(out, copy=True)))
    for i, (call, snap, out, cp) in enumerate(hist):
        cls = 'R15:close-observation:%s:%s%s' % (ec['kind'], call['mode'],
                                                 ':scale' if float(call.get('scale', 1.0)) != 1.0 else '')
        if not same(out, cp):
            return 'R15:earlier-result-changed:' + ec['kind'], 'result of call %d changed later' % i
        fresh = np.asarray(call_est(make_est(ec)[0], ec, np.array(snap, copy=True), call['K']))
        if not same(out, fresh):
            return cls + ':differs-from-fresh', 'call %d (K=%d): %s to a fresh estimator on a copy of the same values' % (
                i, call['K'], R2().diff_txt(out, fresh))
        want = fp(snap, call['K'])
        ok, d, mag = rel(out, want, 1e-11)
        if not ok:
            return cls + ':differs-from-dft-sums', 'call %d (K=%d): max diff %.3e (magnitude %.3e)' % (i, call['K'], d, mag)
    return None


TAP_MODES = ['tiny-tap', 'dynamic', 'pair', 'tiny-all-pair', 'large-pair']


def taps_of(case):
    """list of tap arrays (Nr x L, complex) the SAME estimator is asked about, one after the other"""
    rr = np.random.RandomState(case['seed'] % (2 ** 31))
    nr, ntaps, mode = max(1, case['nr']), case['ntaps'], case['mode']
    h = (rr.randint(-4, 5, size=(nr, ntaps)) + 1j * rr.randint(-4, 5, size=(nr, ntaps))).astype(complex)
    h[:, 0] += 5
    h[:, -1] += 1 + 1j
    if mode == 'tiny-tap':
        h2 = h.copy()
        h2[:, -1] *= P30
        return [h2]
    if mode == 'dynamic':
        return [h * (2.0 ** (-30.0 * np.arange(ntaps) / max(1, ntaps - 1)))[None, :]]
    if mode == 'pair':
        h2 = h.copy()
        h2[:, int(rr.randint(0, ntaps))] *= (1.0 + P20)
        return [h, h2, h]
    if mode == 'tiny-all-pair':
        return [h * 4e-12, h * 4e-13, h * 1e-15]
    if mode == 'large-pair':
        return [h * LARGE[0], h * LARGE[1]]
    raise ValueError(mode)


def o_close_taps(case):
    """R15: noise-free observations of channels that are close to each other / have taps far below the main
    tap / are tiny as a whole: the SAME estimator returns each channel's own frequency response (1e-11 of its
    magnitude) and separates close channels (the difference of two estimates is the response of the difference)"""
    b = B()
    ec = case['est']
    est, _, _ = make_est(ec)
    spec = ec['ue']
    ue = b.impl_ue(spec)
    x = np.asarray(ue.seq_array())
    n = ue.size
    m = int(ec.get('m', 1))
    nsc = m * n
    comb = np.arange(0, nsc, m)
    cls = 'R15:close-taps:%s:%s' % (ec['kind'], case['mode'])
    outs, truths = [], []
    for i, h in enumerate(taps_of(case)):
        tr = b.true_response(h, nsc)
        hf = tr[:, comb]
        y = hf[:, None, :] * x[None, :, :] if x.ndim == 2 else hf * x[None, :]
        if ec['kind'] == 'occ-flat':
            y = y.reshape(y.shape[0], -1)
        if case['nr'] == 0:
            y, tr = y[0], tr[0]
        out = np.asarray(call_est(est, ec, np.ascontiguousarray(y), case['K']))
        mag = float(np.max(np.abs(tr)))
        d = float(np.max(np.abs(out - tr))) if out.shape == tr.shape else float('inf')
        if not d <= 1e-11 * mag:
            return cls + ':estimate-inexact', 'channel %d: max |H_est - H| = %.3e (|H| <= %.3e)' % (i, d, mag)
        outs.append(out)
        truths.append(tr)
    if case['mode'] == 'pair':
        dt = truths[1] - truths[0]
        do = outs[1] - outs[0]
        dm = float(np.max(np.abs(dt)))
        if not float(np.max(np.abs(do - dt))) <= 1e-3 * dm:
            return cls + ':not-separated', 'estimates of two channels that differ by %.3e differ by %.3e' % (
                dm, float(np.max(np.abs(do))))
    return None


LS_MODES = ['near-orthogonal', 'near-parallel', 'close-channels', 'close-pilots-pair', 'tiny-pilots-pair', 'large-pilots-pair']
F4 = np.array([[1, 1, 1, 1], [1, -1j, -1, 1j], [1, -1, 1, -1], [1, 1j, -1, -1j]], dtype=complex)
H8 = np.array([[1 if bin(i & j).count('1') % 2 == 0 else -1 for j in range(8)] for i in range(8)], dtype=complex)


def gi(rr, r, c, lo=-3, hi=3):
    return (rr.randint(lo, hi + 1, size=(r, c)) + 1j * rr.randint(lo, hi + 1, size=(r, c))).astype(complex)


def ls_pilots(rr, mode, nt, npil, flavour=None):
    """one pilot matrix of the mode and the condition number of its Gram matrix (the margin of the near-tie).
    near-orthogonal: orthogonal rows of equal power plus a perturbation of 2^-20 (inside rtol = 1e-5 on the
    diagonal of the Gram matrix) or 2^-32 (off-diagonal entries of the Gram matrix below atol = 1e-8);
    near-parallel: second row = first row + 2^-18 e (np.allclose identifies the rows, cond ~ 1e12) or + 2^-14 e
    (cond ~ 1e9..1e10: still beyond 1 / 1e-8)"""
    while True:
        if mode == 'near-orthogonal':
            base = F4 if npil == 4 else H8
            rows = list(range(base.shape[0]))
            rr.shuffle(rows)
            delta = P20 if (rr.randint(0, 2) if flavour is None else flavour) else 2.0 ** -32
            s = base[rows[:nt]] * np.array([1, 1j, -1, -1j])[rr.randint(0, 4, size=(nt, 1))] + delta * gi(rr, nt, npil, -2, 2)
        elif mode == 'near-parallel':
            s = gi(rr, nt, npil)
            s[0, 0] += 4
            s[1] = s[0] + (P18 if (rr.randint(0, 2) if flavour is None else flavour) else 2.0 ** -14) * gi(rr, 1, npil)[0]
        else:
            s = gi(rr, nt, npil)
        g = s @ s.conj().T
        cond = float(np.linalg.cond(g))
        if mode == 'near-parallel':
            if nt >= 2 and 1e8 < cond < 2e12:
                return s, cond
        elif mode == 'near-orthogonal':
            if cond < 1.001 and not np.array_equal(g, g[0, 0] * np.eye(nt)):
                return s, cond
        elif cond < 1e3:
            return s, cond


def ls_case_arrays(case):
    """list of (Y, S, H) the estimator is asked about, and the largest Gram condition number"""
    rr = np.random.RandomState(case['seed'] % (2 ** 31))
    mode, shape = case['mode'], case['shape']
    nt, npil, nr, reps = case['nt'], case['npil'], case['nr'], case['reps']
    conds = []

    def one_s():
        s, c = ls_pilots(rr, mode, nt, npil, case.get('flavour'))
        conds.append(c)
        return s

    def build(hs, ss, fs=1.0):
        if shape == '2d':
            return hs[0] @ (ss[0] * fs), ss[0] * fs, hs[0]
        if shape == '3d-shared':
            return np.array([h @ (ss[0] * fs) for h in hs]), ss[0] * fs, np.array(hs)
        return np.array([h @ (s * fs) for h, s in zip(hs, ss)]), np.array(ss) * fs, np.array(hs)
    nrep = 1 if shape == '2d' else reps
    ss = [one_s() for _ in range(nrep if shape == '3d-own' else 1)]
    hs = [gi(rr, nr, nt) for _ in range(nrep)]
    for h in hs:
        h[0, 0] += 4
    if mode == 'close-channels':
        hs2 = [h + P20 * gi(rr, nr, nt, -1, 1) for h in hs]
        hs2[0][0, 0] += P20
        return [build(hs, ss), build(hs2, ss), build(hs, ss)], max(conds)
    if mode == 'close-pilots-pair':
        ss2 = [s + P20 * gi(rr, nt, npil, -1, 1) for s in ss]
        ss2[0][0, 0] += P20
        return [build(hs, ss), build(hs, ss2), build(hs, ss)], max(conds)
    if mode == 'tiny-pilots-pair':
        return [build(hs, ss, f) for f in (4e-12, 4e-13, 1e-15)], max(conds)
    if mode == 'large-pilots-pair':
        return [build(hs, ss, f) for f in LARGE], max(conds)
    return [build(hs, ss)], max(conds)


def o_close_ls(case):
    """R15: pilot matrices of full row rank whose Gram matrix is NEARLY a multiple of the identity, whose rows
    are NEARLY parallel (tolerance = 64 eps cond(S S^H), the margin of the near-tie; the library stays below 2 eps cond), channel matrices that
    differ by 1e-6, pilot matrices that differ by 1e-6, pilots of tiny / large magnitude that differ by a factor,
    one after the other: Y = H S gives back H"""
    est = B()._impl()[5]
    arrs, cond = ls_case_arrays(case)
    cls = 'R15:ls:%s%s:%s' % (case['mode'], {'near-orthogonal': [':2^-32', ':2^-20'], 'near-parallel': [':2^-14', ':2^-18']}.get(
        case['mode'], ['', ''])[int(case.get('flavour') or 0)], case['shape'])
    tol = max(1e-12, 64 * EPS * cond)
    outs = []
    for i, (y, s, h) in enumerate(arrs):
        snap = B().Snap(Y=y, S=s)
        out = np.asarray(est.compute_ls_estimation(y, s))
        if snap.changed():
            return 'input-modified:' + cls, 'compute_ls_estimation changed %s' % snap.changed()
        ok, d, mag = rel(out, h, tol)
        if not ok:
            return cls + ':ls-inexact', 'problem %d: max |H_est - H| = %.3e (|H| <= %.3e, cond(S S^H) = %.3e, tol %.1e)' % (
                i, d, mag, cond, tol)
        outs.append((out, h))
    if case['mode'] == 'close-channels':
        do, dh = outs[1][0] - outs[0][0], outs[1][1] - outs[0][1]
        if not float(np.max(np.abs(do - dh))) <= 1e-3 * float(np.max(np.abs(dh))):
            return cls + ':not-separated', 'estimates of channels that differ by %.3e differ by %.3e' % (
                float(np.max(np.abs(dh))), float(np.max(np.abs(do))))
    return None


REF_MODES = ['norm-exact', 'norm+1e-6', 'ripple', 'tiny', 'large']


def o_close_reference(case):
    """R15: a RAW reference array whose norm is (nearly) 1 / whose modulus is nearly 1 / that is tiny is what
    the caller passed: never treated as 'normalised', never re-normalised: result = the defining DFT sums"""
    ec = dict(case['est'], kind='raw', refmode=case['mode'])
    est, fp, shape = make_est(ec)
    cls = 'R15:close-reference:' + case['mode']
    for i, call in enumerate(case['calls']):
        y = call_contents(case, shape(case['nr']), call)
        out = np.asarray(call_est(est, ec, y, call['K']))
        ok, d, mag = rel(out, fp(y, call['K']), 1e-11)
        if not ok:
            return cls, 'call %d: max diff %.3e to the DFT sums (magnitude %.3e)' % (i, d, mag)
    return None


COVER_MODES = {'second-off-1e-6': [1.0, -(1.0 + P20)], 'both-off-1e-6': [1.0 + P20, 1.0 - P20],
               'second-off-1ulp': [1.0, 1.0 + EPS], 'tiny': [1e-9, -1e-9], 'third-off-1e-6': [1.0, -1.0, 1.0 + P20],
               'tiny-pair': [4e-12, 4e-13]}
COVERS = list(COVER_MODES.values())


def cover_mode(cc):
    for k_, v_ in COVER_MODES.items():
        if list(cc) == v_:
            return k_
    return 'other'


def o_close_cover(case):
    """R15: cover codes that are close to +-1 (or tiny) but are not: the slots carry exactly these factors and
    the cover-code estimator uses exactly them"""
    b = B()
    ce = b._impl()[4]
    spec = dict(case['ue'], cover=None)
    cc = np.array(case['cover'], dtype=float)
    root = b.impl_root(spec['u'], spec['size'], spec['nzc'])
    dm = b._impl()[3]
    ue = dm.DmrsUeSequence(root, spec['ncs'], cover_code=np.array(cc, copy=True), normalize=bool(spec['norm']))
    cls = 'R15:close-cover:' + cover_mode(case['cover'])
    x = fp_shift(np.asarray(root.seq_array()), spec['ncs'], 12)
    want = x[None, :] * cc[:, None]
    if spec['norm']:
        want = want / (abs(cc[0]) * math.sqrt(x.size))
    ok, d, mag = rel(np.asarray(ue.seq_array()), want, 1e-11)
    if not ok:
        return cls + ':sequence', 'slots differ from x * cover by %.3e (magnitude %.3e)' % (d, mag)
    if not same(np.asarray(ue.cover_code), cc):
        return cls + ':cover_code', 'cover_code reads %r' % (ue.cover_code,)
    est = ce.CazacBasedWithOCCChannelEstimator(ue)
    rows = np.array(ue.seq_array(), copy=True)
    for i, call in enumerate(case['calls']):
        shp = (len(cc), x.size) if case['nr'] == 0 else (case['nr'], len(cc), x.size)
        y = call_contents(case, shp, call)
        out = np.asarray(est.estimate_channel_freq_domain(y, call['K']))
        ok, d, mag = rel(out, fp_occ(rows, cc, bool(spec['norm']), y, call['K'], True), 1e-11)
        if not ok:
            return cls + ':estimate', 'call %d: max diff %.3e to the DFT sums (magnitude %.3e)' % (i, d, mag)
    return None


def gen_calls(rng, n, nmodes=None, scales=False):
    ks = [0, 1, 2, 3, 5, max(1, n // 8), n // 2, n - 1]
    k = rng.choice(ks)
    calls = [{'mode': 'base', 'K': k}]
    for _ in range(rng.randint(1, 3)):
        mode = rng.choice(nmodes or OBS_MODES)
        calls.append({'mode': mode, 'K': k})
    if scales:
        sc = rng.choice([TINY, LARGE])
        calls = [dict(c, scale=s) for c, s in zip(calls * 2, sc)]
        for c in calls[1:]:
            c['mode'] = 'base' if rng.chance(0.5) else c['mode']
    if rng.chance(0.3):
        # adjacent K on the same observation
        calls += [{'mode': calls[-1]['mode'], 'K': k + 1, 'scale': calls[-1].get('scale', 1.0)},
                  {'mode': calls[-1]['mode'], 'K': max(0, k - 1), 'scale': calls[-1].get('scale', 1.0)}]
    return calls


def gen_close_calls(rng, kind=None, scales=None):
    ec = gen_est_case(rng, kind)
    n = ec['ue']['size']
    return {'est': ec, 'nr': rng.choice([0, 0, 2, 3]), 'seed': rng.below(2 ** 31),
            'calls': gen_calls(rng, n, scales=rng.chance(0.35) if scales is None else scales)}


def gen_close_taps(rng, kind=None, mode=None):
    kind = kind or rng.choice(['plain', 'comb', 'occ', 'occ-flat'])
    ec = gen_est_case(rng, kind)
    n = ec['ue']['size']
    ntaps = rng.randint(2, max(2, min(12, n // 4)))
    return {'est': ec, 'nr': rng.choice([0, 2]), 'seed': rng.below(2 ** 31), 'ntaps': ntaps,
            'K': rng.choice([ntaps - 1, ntaps, n // 2]), 'mode': mode or rng.choice(TAP_MODES)}


def gen_close_ls(rng, mode=None, shape=None, flavour=None):
    mode = mode or rng.choice(LS_MODES)
    flavour = rng.below(2) if flavour is None else flavour
    npil = rng.choice([4, 8]) if mode == 'near-orthogonal' else rng.randint(3, 7)
    nt = rng.randint(2, 3) if mode in ('near-parallel', 'near-orthogonal') else rng.randint(1, 3)
    return {'mode': mode, 'shape': shape or rng.choice(['2d', '3d-shared', '3d-own']), 'nt': min(nt, npil),
            'npil': npil, 'nr': rng.randint(1, 3), 'reps': rng.randint(2, 3), 'seed': rng.below(2 ** 31),
            'flavour': flavour}


def gen_close_ref(rng, mode=None):
    ec = gen_est_case(rng, 'raw')
    return {'est': ec, 'mode': mode or rng.choice(REF_MODES), 'nr': rng.choice([0, 2]), 'seed': rng.below(2 ** 31),
            'calls': gen_calls(rng, ec['ue']['size'], scales=False)[:3]}


def gen_close_cover(rng, cover=None):
    spec = est_spec(rng, 'occ', sizes=(12, 24, 36, 48))
    return {'ue': spec, 'cover': cover or rng.choice(COVERS), 'nr': rng.choice([0, 2]), 'seed': rng.below(2 ** 31),
            'calls': gen_calls(rng, spec['size'], nmodes=['rel', 'elem'])[:2]}


# ------------------------------------------------------------------ R16: one buffer, many calls
def scribble(a):
    """what a caller may do with ITS array right after the call"""
    if a.flags.writeable:
        a[...] = (np.nan if a.dtype.kind in 'fc' else -77)


def run_buffer_history(cls, make, contents, steps, fp=None, fp_rel=1e-11, exact_fresh=True):
    """ONE long-lived callee `f = make()`; `contents[i]` = tuple of arrays (one per array parameter).
    step = {'i': which contents, 'via': per-parameter 'buffer' | 'copy', + whatever the callee reads}.
    (i)  'buffer': the caller's preallocated array is refilled in place and handed over again,
    (iv) 'copy':   an equal-content array that is another object,
    (iii) the buffer is scribbled over right after the call, before anybody looks at the result.
    Every result must be bitwise the result of a fresh callee on private copies, agree with first principles,
    share no memory with the arguments or earlier results, and stay what it was."""
    f = make()
    bufs = [np.empty_like(a) for a in contents[0]]
    hist = []
    # phase 1: the history exactly as the caller runs it — nothing of the library is called in between
    for j, st in enumerate(steps):
        cont = contents[st['i']]
        args = []
        for p, c in enumerate(cont):
            if st.get('via', ['buffer'] * len(cont))[p] == 'copy' or c.shape != bufs[p].shape:
                args.append(np.array(c, copy=True))
            else:
                np.copyto(bufs[p], c)
                args.append(bufs[p])
        snaps = [np.array(a, copy=True) for a in args]
        out = f(args, st)
        outs = list(out) if isinstance(out, (list, tuple)) else [out]
        for p, (a, s_) in enumerate(zip(args, snaps)):
            if not same(a, s_):
                return cls + ':argument-modified', 'call %d changed its array argument %d' % (j, p)
        for o in outs:
            if isinstance(o, np.ndarray) and any(np.shares_memory(o, a) for a in args):
                return cls + ':result-aliases-argument', 'call %d: the result shares memory with an argument' % j
        for a in args:
            scribble(a)
        for o_prev, _, jj in [(o_, c_, j_) for h_ in hist for (o_, c_, j_) in h_['kept']]:
            if any(isinstance(o, np.ndarray) and np.shares_memory(o, o_prev) for o in outs):
                return cls + ':result-aliases-earlier-result', 'results of calls %d and %d share memory' % (jj, j)
        hist.append({'st': st, 'snaps': snaps, 'outs': outs,
                     'kept': [(o, np.array(o, copy=True), j) for o in outs if isinstance(o, np.ndarray)]})
    # phase 2: every result against a fresh callee on private copies and against first principles
    alive = []
    for j, h_ in enumerate(hist):
        st, snaps, outs = h_['st'], h_['snaps'], h_['outs']
        for o_prev, cp_prev, jj in h_['kept']:
            if not same(o_prev, cp_prev):
                return cls + ':earlier-result-changed', 'the result of call %d changed during a later call' % jj
        private = [np.array(s_, copy=True) for s_ in snaps]
        alive.append(private)
        fresh = make()(private, st)
        fresh = list(fresh) if isinstance(fresh, (list, tuple)) else [fresh]
        for o, w in zip(outs, fresh):
            if exact_fresh and not same(o, w):
                return cls + ':differs-from-fresh', 'call %d (contents %d): %s to a fresh object on private copies of ' \
                    'the contents' % (j, st['i'], R2().diff_txt(o, w))
        if fp is not None:
            want = fp(snaps, st)
            want = list(want) if isinstance(want, (list, tuple)) else [want]
            for o, w in zip(outs, want):
                ok, d, mag = rel(np.asarray(o), np.asarray(w), fp_rel)
                if not ok:
                    return cls + ':differs-from-first-principles', 'call %d (contents %d): max diff %.3e (magnitude %.3e)' % (
                        j, st['i'], d, mag)
    return None


BUF_KINDS = ['est-plain', 'est-comb', 'est-occ', 'est-occ-flat', 'est-raw', 'ls-2d', 'ls-3d-shared', 'ls-3d-own',
             'ext', 'shift', 'helpers']


def buffer_contents(case):
    """the successive contents of the caller's buffer(s): tuples of arrays, all of one shape per parameter"""
    kind = case['kind']
    rr = np.random.RandomState(case['seed'] % (2 ** 31))
    nc = case['ncontents']
    if kind.startswith('est-'):
        _, _, shape = make_est(case['est'])
        shp = shape(case['nr'])
        return [(rr.randn(*shp) + 1j * rr.randn(*shp),) for _ in range(nc)]
    if kind.startswith('ls-'):
        nt, npil, nr, reps = case['nt'], case['npil'], case['nr'], case['reps']
        out = []
        for _ in range(nc):
            def s1():
                return ls_pilots(rr, 'generic', nt, npil)[0]
            if kind == 'ls-2d':
                s, h = s1(), gi(rr, nr, nt)
                out.append((h @ s, s, h))
            elif kind == 'ls-3d-shared':
                s, h = s1(), np.array([gi(rr, nr, nt) for _ in range(reps)])
                out.append((h @ s, s, h))
            else:
                s, h = np.array([s1() for _ in range(reps)]), np.array([gi(rr, nr, nt) for _ in range(reps)])
                out.append((h @ s, s, h))
        return out
    if kind == 'ext':
        n = case['n']
        return [(rr.randint(-99, 100, size=n),) for _ in range(nc)]
    if kind == 'shift':
        n = case['n']
        return [(np.exp(2j * np.pi * rr.randint(0, 16, size=n) / 16.0),) for _ in range(nc)]
    if kind == 'helpers':
        n = B().impl_root(case['root']['u'], case['root']['size'], None).size
        return [(rr.randn(n) + 1j * rr.randn(n),) for _ in range(nc)]
    raise ValueError(kind)


def o_buffer_reuse(case):
    """R16: one preallocated argument array refilled in place between the calls on ONE object / function
    (see run_buffer_history)"""
    b = B()
    _, zc, srs, dmrs, ce, est_mod = b._impl()
    kind = case['kind']
    cls = 'R16:' + kind
    contents = buffer_contents(case)
    steps = case['steps']
    if kind.startswith('est-'):
        ec = case['est']
        fp = make_est(ec)[1]

        def make():
            e = make_est(ec)[0]
            return lambda args, st: np.asarray(call_est(e, ec, args[0], st['K']))
        return run_buffer_history(cls, make, contents, steps, fp=lambda snaps, st: fp(snaps[0], st['K']))
    if kind.startswith('ls-'):
        cont2 = [c[:2] for c in contents]

        def make():
            return lambda args, st: np.asarray(est_mod.compute_ls_estimation(args[0], args[1]))
        return run_buffer_history(cls, make, cont2, steps, fp=lambda snaps, st: contents[st['i']][2], fp_rel=1e-9)
    if kind == 'ext':
        def make():
            return lambda args, st: zc.get_extended_ZF(args[0], st['size'])
        return run_buffer_history(cls, make, contents, steps, exact_fresh=True,
                                  fp=lambda snaps, st: snaps[0][np.arange(st['size']) % snaps[0].size], fp_rel=0.0)
    if kind == 'shift':
        def make():
            def f(args, st):
                if st['fn'] == 'srs':
                    return srs.get_srs_seq(args[0], st['ncs'])
                if st['fn'] == 'dmrs':
                    return dmrs.get_dmrs_seq(args[0], st['ncs'])
                return zc.get_shifted_root_seq(args[0], st['ncs'], st['D'])
            return f
        return run_buffer_history(cls, make, contents, steps,
                                  fp=lambda snaps, st: fp_shift(snaps[0], st['ncs'], st['D']))
    if kind == 'helpers':
        rs = case['root']

        def make():
            root = b.impl_root(rs['u'], rs['size'], None)
            ue = b.make_ue(root, {'D': 8, 'ncs': 3, 'norm': 1, 'cover': None})

            def f(args, st):
                o = root if st['on'] == 'root' else ue
                a = args[0]
                if st['op'] == 'getitem':
                    return o[np.abs(a.real * 1000).astype(np.intp) % o.size]
                return {'add': lambda: o + a, 'radd': lambda: a + o, 'mul': lambda: o * a, 'rmul': lambda: a * o}[st['op']]()
            return f

        def fp(snaps, st):
            root = b.impl_root(rs['u'], rs['size'], None)
            seq = np.asarray(root.seq_array() if st['on'] == 'root' else
                             b.make_ue(root, {'D': 8, 'ncs': 3, 'norm': 1, 'cover': None}).seq_array())
            if st['op'] == 'getitem':
                return np.array([seq[int(abs(v.real * 1000)) % seq.size] for v in snaps[0]])
            return seq + snaps[0] if st['op'] in ('add', 'radd') else seq * snaps[0]
        return run_buffer_history(cls, make, contents, steps, fp=fp, fp_rel=1e-15)
    raise ValueError(kind)


def o_two_roles(case):
    """R16: the SAME array object handed over in two roles.
    ls:  compute_ls_estimation(A, A) = identity for every A of full row rank (2-D and 3-D);
    est: CazacBasedChannelEstimator(A, m).estimate_channel_freq_domain(A, K) = the flat response (all ones) for
         every unit-modulus A;
    cover: ONE cover-code array object for two users (and the same values in another object)."""
    b = B()
    _, zc, srs, dmrs, ce, est_mod = b._impl()
    rr = np.random.RandomState(case['seed'] % (2 ** 31))
    what = case['what']
    cls = 'R16:two-roles:' + what
    if what.startswith('ls'):
        n, k, reps = case['n'], case['k'], case['reps']
        if what == 'ls-2d':
            a = ls_pilots(rr, 'generic', n, k)[0]
            want = np.eye(n)
        else:
            a = np.array([ls_pilots(rr, 'generic', n, k)[0] for _ in range(reps)])
            want = np.array([np.eye(n)] * reps)
        snap = np.array(a, copy=True)
        out = np.asarray(est_mod.compute_ls_estimation(a, a))
        if not same(a, snap):
            return cls + ':argument-modified', 'compute_ls_estimation(A, A) changed A'
        if np.shares_memory(out, a):
            return cls + ':result-aliases-argument', 'the result shares memory with A'
        ok, d, mag = rel(out, want.astype(out.dtype), 1e-9)
        if not ok:
            return cls, 'compute_ls_estimation(A, A) differs from the identity by %.3e' % d
        w2 = np.asarray(est_mod.compute_ls_estimation(np.array(snap, copy=True), np.array(snap, copy=True)))
        if not same(out, w2):
            return cls + ':differs-from-two-objects', R2().diff_txt(out, w2)
        return None
    if what == 'est':
        n, m, k = case['n'], case['m'], case['K']
        a = np.exp(2j * np.pi * rr.randint(0, 16, size=n) / 16.0) * float(case.get('scale', 1.0))
        snap = np.array(a, copy=True)
        est = ce.CazacBasedChannelEstimator(a, size_multiplier=m)
        out = np.asarray(est.estimate_channel_freq_domain(a, k))
        if not same(a, snap):
            return cls + ':argument-modified', 'the estimator changed the array that is its reference and its observation'
        if np.shares_memory(out, a):
            return cls + ':result-aliases-argument', 'the result shares memory with the array'
        s2 = float(case.get('scale', 1.0)) ** 2
        ok, d, mag = rel(out, np.full(m * n, s2, dtype=complex), 1e-12)
        if not ok:
            return cls, 'observation = reference (unit modulus): the estimate differs from the flat response by %.3e' % d
        w2 = np.asarray(ce.CazacBasedChannelEstimator(np.array(snap, copy=True), size_multiplier=m)
                        .estimate_channel_freq_domain(np.array(snap, copy=True), k))
        if not same(out, w2):
            return cls + ':differs-from-two-objects', R2().diff_txt(out, w2)
        return None
    if what == 'cover':
        spec = case['ue']
        root = b.impl_root(spec['u'], spec['size'], spec['nzc'])
        cc = np.array(spec['cover'])
        snap = np.array(cc, copy=True)
        u1 = dmrs.DmrsUeSequence(root, spec['ncs'], cover_code=cc, normalize=bool(spec['norm']))
        u2 = dmrs.DmrsUeSequence(root, (spec['ncs'] + 5) % 12, cover_code=cc, normalize=bool(spec['norm']))
        u3 = dmrs.DmrsUeSequence(root, spec['ncs'], cover_code=np.array(snap, copy=True), normalize=bool(spec['norm']))
        if not same(cc, snap):
            return cls + ':argument-modified', 'the cover-code values changed'
        if not same(u1.seq_array(), u3.seq_array()):
            return cls + ':differs-from-two-objects', R2().diff_txt(u1.seq_array(), u3.seq_array())
        for u_, sh in ((u1, spec['ncs']), (u2, (spec['ncs'] + 5) % 12)):
            want = fp_shift(np.asarray(root.seq_array()), sh, 12)[None, :] * snap[:, None]
            if spec['norm']:
                want = want / math.sqrt(root.size)
            ok, d, mag = rel(np.asarray(u_.seq_array()), want, 1e-11)
            if not ok:
                return cls, 'user on shift %d: slots differ from x * cover by %.3e' % (sh, d)
            if np.shares_memory(u_.seq_array(), cc):
                return cls + ':result-aliases-argument', 'the user sequence shares memory with the cover code'
        return None
    raise ValueError(what)


def o_constructor_argument(case):
    """R16: a caller builds estimators in a loop from ONE reference buffer that it refills between the
    constructions (and scribbles over afterwards).  Every estimator must keep estimating with the reference
    it was built from."""
    b = B()
    ce = b._impl()[4]
    rr = np.random.RandomState(case['seed'] % (2 ** 31))
    n, m, k = case['n'], case['m'], case['K']
    refs = [np.exp(2j * np.pi * rr.randint(0, 16, size=n) / 16.0) for _ in range(case['nest'])]
    y = rr.randn(n) + 1j * rr.randn(n)
    buf = np.empty(n, dtype=complex)
    ests, first = [], []
    for ref in refs:
        np.copyto(buf, ref)
        e = ce.CazacBasedChannelEstimator(buf, size_multiplier=m)
        ests.append(e)
        first.append(np.array(e.estimate_channel_freq_domain(y, k), copy=True))
        ok, d, mag = rel(first[-1], fp_estimate(ref, False, m, y, k), 1e-11)
        if not ok:
            return 'R16:constructor:raw-reference:differs-from-first-principles', 'max diff %.3e' % d
    if case.get('scribble'):
        scribble(buf)
    for i, (e, w) in enumerate(zip(ests, first)):
        again = np.asarray(e.estimate_channel_freq_domain(y, k))
        if not same(again, w):
            return 'R16:constructor-argument-retained:raw-reference', \
                'estimator %d of %d built from one refilled reference buffer: after the caller reused its buffer the ' \
                'estimator answers %s' % (i, len(ests), R2().diff_txt(again, w))
    return None


def gen_steps(rng, nc, extra=None, nparams=1):
    steps = []
    for j in range(rng.randint(2, 4)):
        st = {'i': j % nc if j < nc else rng.below(nc),
              'via': [('copy' if rng.chance(0.2) else 'buffer') for _ in range(nparams)]}
        if extra:
            st.update(extra(j))
        steps.append(st)
    if rng.chance(0.5) and len(steps) < 4:
        # the same contents once more, through the buffer: (old contents, old K) must give the old result again
        steps.append(dict(steps[0], via=['buffer'] * nparams))
    return steps


def gen_buffer_case(rng, kind=None):
    kind = kind or rng.choice(BUF_KINDS)
    case = {'kind': kind, 'seed': rng.below(2 ** 31), 'ncontents': rng.randint(2, 3)}
    nc = case['ncontents']
    if kind.startswith('est-'):
        ec = gen_est_case(rng, kind[4:])
        n = ec['ue']['size']
        case.update({'est': ec, 'nr': rng.choice([0, 0, 2, 3])})
        k0 = rng.choice([0, 2, n // 8 + 1, n - 1])
        # mostly the SAME K for every call (what a Monte Carlo loop does), sometimes adjacent ones
        case['steps'] = gen_steps(rng, nc, lambda j: {'K': k0 + (j % 2 if rng.chance(0.25) else 0)})
    elif kind.startswith('ls-'):
        case.update({'nt': rng.randint(1, 3), 'npil': rng.randint(3, 6), 'nr': rng.randint(1, 3), 'reps': rng.randint(2, 3)})
        case['steps'] = gen_steps(rng, nc, nparams=2)
        if rng.chance(0.4):
            for st in case['steps']:              # pilots fixed in their buffer, only the observation refilled
                st['via'] = [st['via'][0], 'buffer']
    elif kind == 'ext':
        n = rng.randint(2, 30)
        size = rng.choice([n + 1, 2 * n, 2 * n + 1, 3 * n + 2, rng.randint(n, 5 * n)])
        case['n'] = n
        case['steps'] = gen_steps(rng, nc, lambda j: {'size': size})
    elif kind == 'shift':
        case['n'] = rng.choice([12, 24, 36, 48])
        fn = rng.choice(['srs', 'dmrs', 'generic'])
        d = {'srs': 8, 'dmrs': 12, 'generic': rng.choice([8, 12])}[fn]
        ncs = rng.below(d)
        case['steps'] = gen_steps(rng, nc, lambda j: {'fn': fn, 'D': d, 'ncs': ncs})
    else:
        size = rng.choice([12, 24, 36, 48])
        lim = B().largest_prime_le(size) if size > 24 else 30
        case['root'] = {'u': rng.randint(1, lim - 1), 'size': size}
        on, op = rng.choice(['root', 'ue']), rng.choice(['add', 'radd', 'mul', 'rmul', 'getitem'])
        case['steps'] = gen_steps(rng, nc, lambda j: {'on': on, 'op': op})
    return case


def gen_two_roles(rng, what=None):
    what = what or rng.choice(['ls-2d', 'ls-3d', 'est', 'cover'])
    case = {'what': what, 'seed': rng.below(2 ** 31)}
    if what.startswith('ls'):
        n = rng.randint(1, 4)
        case.update({'n': n, 'k': rng.randint(n, n + 3), 'reps': rng.randint(2, 3)})
    elif what == 'est':
        n = rng.choice([12, 24, 31, 48, 96])
        case.update({'n': n, 'm': rng.choice([1, 2, 3]), 'K': rng.choice([0, 1, n // 4, n - 1]),
                     'scale': rng.choice([1.0, 1.0, 1e-6, 1e6])})
    else:
        spec = est_spec(rng, 'occ', sizes=(12, 24, 36, 48))
        case['ue'] = spec
    return case


def gen_constructor_case(rng):
    n = rng.choice([12, 24, 31, 48])
    return {'n': n, 'm': rng.choice([1, 2]), 'K': rng.choice([0, 2, n // 4, n - 1]), 'nest': rng.randint(2, 4),
            'seed': rng.below(2 ** 31), 'scribble': rng.chance(0.3)}


ORACLES = {
    'close observations': o_close_calls,
    'close channels': o_close_taps,
    'close pilots': o_close_ls,
    'close reference array': o_close_reference,
    'close cover code': o_close_cover,
    'argument buffer reuse': o_buffer_reuse,
    'one array in two roles': o_two_roles,
    'constructor argument reuse': o_constructor_argument,
}

R15_ORACLE_KINDS = ['est:' + k for k in EST_KINDS] + ['taps:' + m_ for m_ in TAP_MODES] + ['ls:' + m_ for m_ in LS_MODES] \
    + ['ref', 'cover']
R16_ORACLE_KINDS = BUF_KINDS + ['two-roles:ls-2d', 'two-roles:ls-3d', 'two-roles:est', 'two-roles:cover', 'constructor']


# ------------------------------------------------------------------ oracle runs
def oracle_runs(ctx, quick):
    b = B()
    rng = ctx.rng
    run = b.run_oracle
    # R15 — deterministic coverage of every kind / mode first, then random
    for kind in EST_KINDS:
        for scales in (False, True):
            run(ctx, 'close observations', gen_close_calls(rng, kind, scales))
            ctx.branch('oracle:R15:est:' + kind)
            ctx.branch('oracle:R15')
    for mode in TAP_MODES:
        for kind in (['plain', 'occ'] if quick else ['plain', 'comb', 'occ', 'occ-flat']):
            run(ctx, 'close channels', gen_close_taps(rng, kind, mode))
        ctx.branch('oracle:R15:taps:' + mode)
    for mode in LS_MODES:
        for shape in ('2d', '3d-shared', '3d-own'):
            for flavour in ((0, 1) if mode.startswith('near-') else (0,)):
                run(ctx, 'close pilots', gen_close_ls(rng, mode, shape, flavour))
        ctx.branch('oracle:R15:ls:' + mode)
    for mode in REF_MODES:
        run(ctx, 'close reference array', gen_close_ref(rng, mode))
        ctx.branch('oracle:R15:ref')
    for cover in COVERS:
        run(ctx, 'close cover code', gen_close_cover(rng, cover))
        ctx.branch('oracle:R15:cover')
    for _ in range(20 if quick else 600):
        run(ctx, 'close observations', gen_close_calls(rng))
        run(ctx, 'close channels', gen_close_taps(rng))
        run(ctx, 'close pilots', gen_close_ls(rng))
    for _ in range(6 if quick else 150):
        run(ctx, 'close reference array', gen_close_ref(rng))
        run(ctx, 'close cover code', gen_close_cover(rng))
    # R16
    for kind in BUF_KINDS:
        for _ in range(3 if quick else 60):
            run(ctx, 'argument buffer reuse', gen_buffer_case(rng, kind))
        ctx.branch('oracle:R16:' + kind)
        ctx.branch('oracle:R16')
    for what in ('ls-2d', 'ls-3d', 'est', 'cover'):
        for _ in range(3 if quick else 60):
            run(ctx, 'one array in two roles', gen_two_roles(rng, what))
        ctx.branch('oracle:R16:two-roles:' + what)
    for _ in range(3 if quick else 40):
        run(ctx, 'constructor argument reuse', gen_constructor_case(rng))
    ctx.branch('oracle:R16:constructor')
    for _ in range(15 if quick else 500):
        run(ctx, 'argument buffer reuse', gen_buffer_case(rng))


# ------------------------------------------------------------------ correspondence
def est_line_tokens(ec, dim):
    b = B()
    if ec['kind'] == 'raw':
        ref = raw_reference(ec['ue'], ec.get('refmode'))
        return 'est', 'ref=%s m=%d dim=%d' % (b.clist(ref), ec.get('m', 1), dim)
    if ec['kind'] in ('occ', 'occ-flat'):
        return 'occ', '%s dim=%d extra=%d' % (b.ue_tokens(ec['ue']), dim, 1 if ec['kind'] == 'occ' else 0)
    return 'est', '%s m=%d dim=%d' % (b.ue_tokens(ec['ue']), ec.get('m', 1), dim)


def compare_est(ctx, name, case, u, res, mo, extra_rel=0.0):
    b = B()
    res = np.asarray(res)
    if mo.startswith('error:') or mo == 'bad-op':
        return ctx.corr(name, case, 'value', mo[:60])
    mv = b.parse_clist(mo) if res.ndim == 1 else b.parse_crows(mo)
    ok, d, mag = rel(res, mv, 1e-9 + 64 * b.seq_tol(u, res.shape[-1]) + extra_rel)
    return ctx.corr(name, case, 'close' if ok else 'maxdiff=%.3e magnitude=%.3e' % (d, mag), 'close')


def corr_close(ctx, drv, n):
    """R15: one long-lived estimator object called with close-but-distinct observations; the model gets each
    observation's own values.  LS with nearly orthogonal / nearly parallel pilots against the exact rational model."""
    b = B()
    est_mod = b._impl()[5]
    rng = ctx.rng
    lines, todo = [], []
    for i in range(n):
        case = gen_close_calls(rng, EST_KINDS[i % len(EST_KINDS)])
        ec = case['est']
        est, _, shape = make_est(ec)
        shp = shape(case['nr'])
        op, toks = est_line_tokens(ec, len(shp))
        for call in case['calls']:
            y = call_contents(case, shp, call)
            lines.append('%s %s K=%d Y=%s' % (op, toks, call['K'], R().y_line(y)))
            todo.append((case, call, est, ec, y))
    out = []
    for i in range(0, len(lines), 60):
        out += drv.ask(lines[i:i + 60])
    for (case, call, est, ec, y), mo in zip(todo, out):
        ctx.branch('corr:R15')
        ctx.branch('corr:R15:est:' + ec['kind'])
        name = 'R15:estimate_channel_freq_domain:close-observations'
        small = {'est': ec, 'nr': case['nr'], 'seed': case['seed'], 'call': call}
        try:
            res = call_est(est, ec, y, call['K'])
        except Exception as e:
            ctx.corr(name, small, b.err_name(e), mo[:60])
            continue
        compare_est(ctx, name, small, ec['ue']['u'], res, mo)
    # least squares, exact model
    from fractions import Fraction
    lines, todo = [], []
    for i in range(max(8, n // 2)):
        case = gen_close_ls(rng, LS_MODES[i % 4], '2d', (i // 4) % 2)
        arrs, cond = ls_case_arrays(case)
        for y, s, h in arrs:
            lines.append('ls nr=%d nt=%d np=%d Y=%s S=%s' % (
                y.shape[0], s.shape[0], s.shape[1],
                '|'.join(','.join(R().frac(z.real) + ':' + R().frac(z.imag) for z in row) for row in y),
                '|'.join(','.join(R().frac(z.real) + ':' + R().frac(z.imag) for z in row) for row in s)))
            todo.append((case, y, s, cond))
    out = drv.ask(lines)
    for (case, y, s, cond), mo in zip(todo, out):
        ctx.branch('corr:R15')
        ctx.branch('corr:R15:ls:' + case['mode'])
        name = 'R15:compute_ls_estimation:close-pilots'
        try:
            res = np.asarray(est_mod.compute_ls_estimation(y, s))
        except Exception as e:
            ctx.corr(name, case, b.err_name(e), mo[:40])
            continue
        if not mo.startswith('inv-ok '):
            ctx.corr(name, case, 'regular', mo[:40])
            continue
        mv = np.array([[complex(Fraction(t.split(':')[0]), Fraction(t.split(':')[1])) for t in r.split(',')]
                       for r in mo[len('inv-ok '):].split('|')])
        ok, d, mag = rel(res, mv, max(1e-12, 64 * EPS * cond))
        ctx.corr(name, case, 'close' if ok else 'maxdiff=%.3e magnitude=%.3e cond=%.3e' % (d, mag, cond), 'close')


def corr_buffer(ctx, drv, n):
    """R16: the real object / function called with ONE refilled numpy array vs `Cazac.BufState.run` (driver op `buf`)
    with the single-call model as callee, output by output"""
    b = B()
    _, zc, srs, dmrs, ce, est_mod = b._impl()
    rng = ctx.rng
    kinds = ['est-plain', 'est-comb', 'est-occ', 'est-occ-flat', 'est-raw', 'ls-2d', 'ext', 'shift']
    lines, todo = [], []
    for i in range(n):
        kind = kinds[i % len(kinds)]
        case = gen_buffer_case(rng, kind)
        contents = buffer_contents(case)
        steps = case['steps']
        if kind.startswith('est-'):
            ec = case['est']
            est, _, shape = make_est(ec)
            op, toks = est_line_tokens(ec, len(shape(case['nr'])))
            ops = ';'.join('r%s;c%d' % (R().y_line(contents[st['i']][0]), st['K']) for st in steps)
            lines.append('buf %s %s slot=Y ops=%s' % (op, toks, ops))
            f = (lambda est=est, ec=ec: lambda arr, st: call_est(est, ec, arr, st['K']))()
            u = ec['ue']['u']
        elif kind == 'ls-2d':
            # pilots fixed, the observation buffer refilled (and the other way round every second time)
            slot = 'Y' if (i // len(kinds)) % 2 == 0 else 'S'
            fix = contents[0]
            cont = [(c[0], fix[1]) if slot == 'Y' else (fix[0], c[1]) for c in contents]

            def fr(a):
                return '|'.join(','.join(R().frac(z.real) + ':' + R().frac(z.imag) for z in row) for row in a)
            other = 'S=%s' % fr(fix[1]) if slot == 'Y' else 'Y=%s' % fr(fix[0])
            ops = ';'.join('r%s;c' % fr(cont[st['i']][0 if slot == 'Y' else 1]) for st in steps)
            lines.append('buf ls nr=%d nt=%d np=%d %s slot=%s ops=%s' % (
                fix[0].shape[0], fix[1].shape[0], fix[1].shape[1], other, slot, ops))
            contents = [(c[0],) if slot == 'Y' else (c[1],) for c in cont]
            f = (lambda slot=slot, fix=fix: lambda arr, st: est_mod.compute_ls_estimation(
                arr if slot == 'Y' else np.array(fix[0]), np.array(fix[1]) if slot == 'Y' else arr))()
            u = None
        elif kind == 'ext':
            size = steps[0]['size']
            ops = ';'.join('r%s;c' % ','.join(str(int(v)) for v in contents[st['i']][0]) for st in steps)
            lines.append('buf extl size=%d slot=l ops=%s' % (size, ops))
            f = lambda arr, st: zc.get_extended_ZF(arr, st['size'])
            u = 'int'
        else:
            # unit-modulus contents with exact phases k/16
            rr = np.random.RandomState(case['seed'] % (2 ** 31))
            phs = [rr.randint(0, 16, size=case['n']) for _ in range(case['ncontents'])]
            contents = [(np.exp(2j * np.pi * p / 16.0),) for p in phs]
            st0 = steps[0]
            ops = ';'.join('r%s;c' % ','.join('%d/16' % int(v) for v in phs[st['i']]) for st in steps)
            lines.append('buf shiftph ncs=%d D=%d slot=ph ops=%s' % (st0['ncs'], st0['D'], ops))
            f = lambda arr, st: (srs.get_srs_seq(arr, st['ncs']) if st['fn'] == 'srs' else
                                 dmrs.get_dmrs_seq(arr, st['ncs']) if st['fn'] == 'dmrs' else
                                 zc.get_shifted_root_seq(arr, st['ncs'], st['D']))
            u = 'phase'
        todo.append((kind, case, contents, steps, f, u))
    out = []
    for i in range(0, len(lines), 20):
        out += drv.ask(lines[i:i + 20])
    from fractions import Fraction
    for (kind, case, contents, steps, f, u), mo in zip(todo, out):
        ctx.branch('corr:R16')
        ctx.branch('corr:R16:' + kind)
        name = 'R16:buffer-history:' + kind
        small = {k_: v_ for k_, v_ in case.items()}
        mouts = mo.split(' ; ')
        if len(mouts) != len(steps):
            ctx.corr(name, small, '%d calls' % len(steps), mo[:80])
            continue
        buf = np.empty_like(contents[0][0])
        results = []
        try:
            for st in steps:
                np.copyto(buf, contents[st['i']][0])
                res = np.asarray(f(buf, st))
                scribble(buf)                       # the caller reuses its array at once
                results.append(res)
        except Exception as e:
            ctx.corr(name, small, b.err_name(e), mo[:60])
            continue
        for j, (res, m1) in enumerate(zip(results, mouts)):
            sm = dict(small, call=j)
            if kind.startswith('est-'):
                compare_est(ctx, name, sm, u, res, m1)
            elif kind == 'ls-2d':
                if not m1.startswith('inv-ok '):
                    ctx.corr(name, sm, 'regular', m1[:40])
                    continue
                mv = np.array([[complex(Fraction(t.split(':')[0]), Fraction(t.split(':')[1])) for t in r.split(',')]
                               for r in m1[len('inv-ok '):].split('|')])
                ok, d, mag = rel(res, mv, 1e-9)
                ctx.corr(name, sm, 'close' if ok else 'maxdiff=%.3e magnitude=%.3e' % (d, mag), 'close')
            elif kind == 'ext':
                ctx.corr(name, sm, ','.join(str(int(v)) for v in res), m1)
            else:
                mv = b.phases_to_values(m1.split(','))
                ok, d, mag = rel(res, mv, 1e-11)
                ctx.corr(name, sm, 'close' if ok else 'maxdiff=%.3e' % d, 'close')


def correspondence(ctx, drv, quick):
    corr_close(ctx, drv, 15 if quick else 300)
    corr_buffer(ctx, drv, 24 if quick else 480)


REQUIRED = ['corr:R15', 'corr:R16', 'oracle:R15', 'oracle:R16'] \
    + ['oracle:R15:' + k for k in R15_ORACLE_KINDS] + ['oracle:R16:' + k for k in R16_ORACLE_KINDS] \
    + ['corr:R15:est:' + k for k in EST_KINDS] + ['corr:R15:ls:' + m_ for m_ in LS_MODES[:4]] \
    + ['corr:R16:' + k for k in ('est-plain', 'est-comb', 'est-occ', 'est-occ-flat', 'est-raw', 'ls-2d', 'ext', 'shift')]


def search(ctx):
    rng = ctx.rng
    b = B()
    for name, gen, n in (('close observations', gen_close_calls, 300), ('close channels', gen_close_taps, 200),
                         ('close pilots', gen_close_ls, 200), ('close reference array', gen_close_ref, 60),
                         ('close cover code', gen_close_cover, 40), ('argument buffer reuse', gen_buffer_case, 400),
                         ('one array in two roles', gen_two_roles, 100),
                         ('constructor argument reuse', gen_constructor_case, 30)):
        for _ in range(n):
            b.run_oracle(ctx, name, gen(rng))
