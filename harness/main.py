"""./check Cxx [--tier quick|thorough] [--replay file]   (see DESIGN.md §3.4)"""
import argparse
import importlib
import json
import os
import shutil
import sys
import tempfile
import traceback

from harness import core


def main():
    ap = argparse.ArgumentParser()
    ap.add_argument('prop')
    ap.add_argument('--tier', default=os.environ.get('VERIF_TIER', 'quick'), choices=['quick', 'thorough'])
    ap.add_argument('--replay')
    a = ap.parse_args()
    prop = a.prop.upper()
    seed = int(os.environ.get('VERIF_SEED', '0') or 0)
    scratch = os.environ.get('VERIF_SCRATCH') or tempfile.mkdtemp(prefix='verif_%s_' % prop)
    own_scratch = 'VERIF_SCRATCH' not in os.environ
    rc = 2
    try:
        core.import_repo()
        mod = importlib.import_module('harness.props.' + prop.lower())
        ctx = core.Ctx(prop, a.tier, seed)
        ctx.scratch = scratch
        if a.replay:
            with open(a.replay) as f:
                rep = json.load(f)
            if rep.get('kind') == 'input':
                still = mod.replay(ctx, rep)
                print('replay: %s' % ('still fails' if still else 'passes'))
                if still:
                    print('VIOLATION property=%s replay=%s' % (prop, a.replay))
                return 1 if still else 0
            # theorem / correspondence replays: re-run the whole check
        try:
            mod.check(ctx)
        except core.Infra:
            raise
        except Exception as e:
            # an exception that comes out of the LIBRARY (innermost frame inside the checked-out repo) while the
            # harness was driving it on a generated input is not an infrastructure problem: the code raised where
            # the unchanged code does not.  It is recorded as a broken correspondence (the search below looks for a
            # concrete input; the traceback goes into the replay file).  Exceptions raised by the harness itself
            # stay infrastructure errors.
            tb = traceback.extract_tb(e.__traceback__)
            inner = tb[-1].filename if tb else ''
            if not os.path.realpath(inner).startswith(os.path.realpath(core.REPO) + os.sep):
                raise
            where = next((f for f in reversed(tb) if '/harness/' in f.filename), None)
            ctx.tie_broken('correspondence', 'library-raised:%s' % type(e).__name__,
                           '%s: %s at %s:%d (driven from %s:%d)' % (
                               type(e).__name__, str(e)[:200], os.path.relpath(inner, core.REPO), tb[-1].lineno,
                               os.path.basename(where.filename) if where else '?', where.lineno if where else 0))
            ctx.required_branches = []
        missing = [b for b in ctx.required_branches if ctx.branches.get(b, 0) == 0]
        if missing and not ctx.broken:
            # the seeded generators did not reach every required branch: draw a second batch of cases from a
            # derived seed (the rule "every required branch must be reached" is kept; a run that still misses one
            # after the second batch ends as exit 2)
            ctx2 = core.Ctx(prop, a.tier, seed + 1000003)
            ctx2.scratch = scratch
            mod.check(ctx2)
            ctx.evaluations += ctx2.evaluations
            ctx.distinct |= ctx2.distinct
            ctx.traces += ctx2.traces
            for k, v in ctx2.branches.items():
                ctx.branches[k] = ctx.branches.get(k, 0) + v
            ctx.failures.extend(ctx2.failures)
            ctx.broken.extend(ctx2.broken)
            ctx.notes.append('second batch of cases (seed %d) because the first did not reach %s'
                             % (seed + 1000003, missing))
            print('second batch of cases drawn: first batch did not reach %s' % missing)
        if ctx.broken and not ctx.failures and hasattr(mod, 'search'):
            print('proof/correspondence broken (%s); searching for a failing input ...'
                  % ', '.join(sorted({b['name'] for b in ctx.broken}))[:300])
            mod.search(ctx)
        rc = core.finish(ctx, mod.MODULE)
        print('%s %s seed=%d: obligations=%d discharged=%d evaluations=%d distinct=%d exit=%d (%.1fs)'
              % (prop, a.tier, seed, ctx.obligations, ctx.discharged, ctx.evaluations,
                 len(ctx.distinct), rc, __import__('time').time() - ctx.t0))
        return rc
    except core.Infra as e:
        print('INFRA: %s' % e)
        return 2
    except Exception:
        traceback.print_exc()
        print('INFRA: harness exception')
        return 2
    finally:
        if own_scratch:
            shutil.rmtree(scratch, ignore_errors=True)


if __name__ == '__main__':
    sys.exit(main())
