"""Translator plugin: constellation formulas of fundamental.py -> Lean (Generated/C01Formulas.lean).

Extracted by AST pattern (anything unexpected raises => tie broken):
  QAM._createConstellation : the two coordinates passed to complex(..), the index
      expression of `symbols[...] = symbol`, the average-energy expression and the
      final `symbols / math.sqrt(average_energy)`
  PSK._createConstellation : the phase expression, cos/sin parts and `realPart + 1j*imagPart`
      (the parts may be spelled `np.exp(1j * phases).real/.imag`; snapping of values below 1e-15 to 0, by
      masked assignment or `np.where`, is recognised and left out as before)
  BPSK.__init__            : the literal constellation `np.array([1, -1])`
"""
import ast
import os

from harness.translate import HEADER, TranslateError, find_fn, parse_file, strip_doc
from harness.gen.c16 import lit
from harness.gen import norm


def int_expr(e, names):
    if isinstance(e, ast.Name) and e.id in names:
        return e.id
    if isinstance(e, ast.Constant) and isinstance(e.value, int):
        return '(%d : Int)' % e.value
    if isinstance(e, ast.UnaryOp) and isinstance(e.op, ast.USub):
        return '(-%s)' % int_expr(e.operand, names)
    if isinstance(e, ast.BinOp) and type(e.op) in (ast.Add, ast.Sub, ast.Mult):
        op = {ast.Add: '+', ast.Sub: '-', ast.Mult: '*'}[type(e.op)]
        return '(%s %s %s)' % (int_expr(e.left, names), op, int_expr(e.right, names))
    raise TranslateError('unsupported integer expression ' + ast.unparse(e))


def real_expr(e, env):
    if isinstance(e, ast.Name) and e.id in env:
        return env[e.id]
    if isinstance(e, ast.Name) and e.id == 'PI':
        return 'Trig.pi'
    if isinstance(e, ast.Constant) and isinstance(e.value, (int, float)):
        return lit(e.value)
    if isinstance(e, ast.BinOp) and type(e.op) in (ast.Add, ast.Sub, ast.Mult, ast.Div):
        op = {ast.Add: '+', ast.Sub: '-', ast.Mult: '*', ast.Div: '/'}[type(e.op)]
        return '(%s %s %s)' % (real_expr(e.left, env), op, real_expr(e.right, env))
    if isinstance(e, ast.Call) and ast.unparse(e.func) == 'np.arange' and ast.unparse(e.args[0]) == '0' \
            and ast.unparse(e.args[1]) == 'M':
        return '(k : α)'
    raise TranslateError('unsupported real expression ' + ast.unparse(e))


def _is_np(e, name):
    return isinstance(e, ast.Attribute) and e.attr == name and isinstance(e.value, ast.Name) and e.value.id == 'np'


def _is_abs_of(e, what):
    return (isinstance(e, ast.Call) and len(e.args) == 1 and not e.keywords
            and ((isinstance(e.func, ast.Name) and e.func.id == 'abs') or _is_np(e.func, 'abs'))
            and ast.unparse(e.args[0]) == what)


def _small(e):
    return isinstance(e, ast.Constant) and isinstance(e.value, float) and 0 < e.value <= 1e-12


def _zero(e):
    return isinstance(e, ast.Constant) and not isinstance(e.value, bool) and e.value in (0, 0.0)


def psk_check_parts(stmts, phases):
    """PSK._createConstellation must return `cos(phases) + 1j * sin(phases)` (each part possibly with values below
    a tiny threshold snapped to 0, which the model abstracts: `v[abs(v) < eps] = 0` or `np.where(abs(v) < eps, 0, v)`).
    The locals are substituted in order; `np.exp(1j * x).real` / `.imag` are `cos x` / `sin x` (Euler's formula,
    x real)."""
    env = {}
    for st in stmts[:-1]:
        if isinstance(st, ast.Assign) and len(st.targets) == 1 and isinstance(st.targets[0], ast.Name):
            env[st.targets[0].id] = norm.subst(st.value, env)
            continue
        if (isinstance(st, ast.Assign) and len(st.targets) == 1 and isinstance(st.targets[0], ast.Subscript)
                and isinstance(st.targets[0].value, ast.Name) and st.targets[0].value.id in env and _zero(st.value)):
            v = st.targets[0].value.id
            m = st.targets[0].slice
            if isinstance(m, ast.Compare) and len(m.ops) == 1 and isinstance(m.ops[0], ast.Lt) and _is_abs_of(m.left, v) \
                    and _small(m.comparators[0]):
                continue                        # snap-to-zero of tiny values: not part of the model
        if isinstance(st, ast.Assert):
            continue
        raise TranslateError('PSK: unsupported statement ' + ast.unparse(st)[:80])
    ret = stmts[-1]
    if not (isinstance(ret, ast.Return) and ret.value is not None):
        raise TranslateError('PSK: no return value')
    e = norm.subst(ret.value, env)

    def unsnap(x):
        # np.where(abs(X) < eps, 0, X) -> X
        while (isinstance(x, ast.Call) and _is_np(x.func, 'where') and len(x.args) == 3 and not x.keywords
               and _zero(x.args[1]) and isinstance(x.args[0], ast.Compare) and len(x.args[0].ops) == 1
               and isinstance(x.args[0].ops[0], ast.Lt) and _small(x.args[0].comparators[0])
               and _is_abs_of(x.args[0].left, ast.unparse(x.args[2]))):
            x = x.args[2]
        return x

    def trig(x):
        x = unsnap(x)
        if isinstance(x, ast.Call) and len(x.args) == 1 and not x.keywords and (_is_np(x.func, 'cos') or _is_np(x.func, 'sin')):
            return x.func.attr, ast.unparse(x.args[0])
        if isinstance(x, ast.Attribute) and x.attr in ('real', 'imag') and isinstance(x.value, ast.Call) \
                and _is_np(x.value.func, 'exp') and len(x.value.args) == 1 and not x.value.keywords:
            a = x.value.args[0]
            if isinstance(a, ast.BinOp) and isinstance(a.op, ast.Mult):
                for j, th in ((a.left, a.right), (a.right, a.left)):
                    if isinstance(j, ast.Constant) and j.value == 1j:
                        return ('cos' if x.attr == 'real' else 'sin'), ast.unparse(th)
        raise TranslateError('PSK: a coordinate is not cos / sin of the phases: ' + ast.unparse(x)[:80])

    want = ast.unparse(norm.subst(phases, {}))
    if not (isinstance(e, ast.BinOp) and isinstance(e.op, ast.Add) and isinstance(e.right, ast.BinOp)
            and isinstance(e.right.op, ast.Mult)):
        raise TranslateError('PSK: the result is not `real + 1j * imag`')
    j, im = e.right.left, e.right.right
    if not (isinstance(j, ast.Constant) and j.value == 1j):
        j, im = im, j
    if not (isinstance(j, ast.Constant) and j.value == 1j):
        raise TranslateError('PSK: the result is not `real + 1j * imag`')
    if trig(e.left) != ('cos', want) or trig(im) != ('sin', want):
        raise TranslateError('PSK: the result is not `cos(phases) + 1j * sin(phases)`')


def gen(repo):
    fund = parse_file(os.path.join(repo, 'pyphysim/modulators/fundamental.py'))
    out = []
    # ---- QAM grid
    f = find_fn(fund, '_createConstellation', 'QAM')
    stmts = strip_doc(f.body)
    loops = [s for s in stmts if isinstance(s, ast.For)]
    if len(loops) != 1 or ast.unparse(loops[0].iter) != 'range(0, L)':
        raise TranslateError('QAM grid: outer loop')
    outer = loops[0]
    if not (len(outer.body) == 1 and isinstance(outer.body[0], ast.For)
            and ast.unparse(outer.body[0].iter) == 'range(0, L)'):
        raise TranslateError('QAM grid: inner loop')
    inner = outer.body[0]
    vo, vi = outer.target.id, inner.target.id
    if len(inner.body) != 2:
        raise TranslateError('QAM grid: loop body')
    a, b = inner.body
    if not (isinstance(a, ast.Assign) and isinstance(a.value, ast.Call) and ast.unparse(a.value.func) == 'complex'
            and len(a.value.args) == 2):
        raise TranslateError('QAM grid: complex(...)')
    if not (isinstance(b, ast.Assign) and isinstance(b.targets[0], ast.Subscript)
            and ast.unparse(b.targets[0].value) == 'symbols' and ast.unparse(b.value) == a.targets[0].id):
        raise TranslateError('QAM grid: symbols[...] = symbol')
    if vo == vi or 'L' in (vo, vi):
        raise TranslateError('QAM grid: loop variables shadow each other')
    names = {'L', vo, vi}
    sig = '(L %s %s : Int)' % (vo, vi)
    out.append('def qamRe %s : Int := %s\n' % (sig, int_expr(a.value.args[0], names)))
    out.append('def qamIm %s : Int := %s\n' % (sig, int_expr(a.value.args[1], names)))
    out.append('def qamIndex %s : Int := %s\n' % (sig, int_expr(b.targets[0].slice, names)))
    out.append('-- loop variables: outer `%s`, inner `%s`\n' % (vo, vi))
    lsrc = [s for s in stmts if isinstance(s, ast.Assign) and ast.unparse(s.targets[0]) == 'L']
    if not lsrc or ast.unparse(lsrc[0].value) != 'int(round(math.sqrt(M)))':
        raise TranslateError('QAM grid: L')
    en = [s for s in stmts if isinstance(s, ast.Assign) and ast.unparse(s.targets[0]) == 'average_energy']
    if len(en) != 1:
        raise TranslateError('QAM grid: average_energy')
    cls = '{α : Type} [Add α] [Sub α] [Mul α] [Div α] [NatCast α]'
    out.append('def qamAvgEnergy %s (M : α) : α := %s\n' % (cls, real_expr(en[0].value, {'M': 'M'})))
    if ast.unparse(stmts[-1]) != 'return symbols / math.sqrt(average_energy)':
        raise TranslateError('QAM grid: final scaling')
    # ---- PSK phases
    f = find_fn(fund, '_createConstellation', 'PSK')
    stmts = strip_doc(f.body)
    src = [ast.unparse(s) for s in stmts]
    ph = [s for s in stmts if isinstance(s, ast.Assign) and ast.unparse(s.targets[0]) == 'phases']
    if len(ph) != 1:
        raise TranslateError('PSK: phases')
    cls2 = '{α : Type} [Add α] [Mul α] [Div α] [NatCast α] [Trig α]'
    out.append('def pskPhase %s (M k : Nat) (phaseOffset : α) : α :=\n  let M : α := (M : α)\n  %s\n'
               % (cls2, real_expr(ph[0].value, {'M': 'M', 'phaseOffset': 'phaseOffset'})))
    psk_check_parts(stmts, ph[0].value)
    # ---- BPSK literal
    f = find_fn(fund, '__init__', 'BPSK')
    calls = [s for s in strip_doc(f.body) if 'setConstellation' in ast.unparse(s)]
    if len(calls) != 1:
        raise TranslateError('BPSK: setConstellation')
    arg = calls[0].value.args[0]
    if not (isinstance(arg, ast.Call) and ast.unparse(arg.func) == 'np.array'):
        raise TranslateError('BPSK: literal')
    vals = []
    for e in arg.args[0].elts:
        v = ast.literal_eval(e)
        vals.append('(%d : Int)' % v)
    out.append('def bpskPoints : List Int := [%s]\n' % ', '.join(vals))
    return (HEADER % 'pyphysim/modulators/fundamental.py (constellation formulas)'
            + 'import PyPhysim.Model.C01\nset_option linter.unusedVariables false\n'
            + 'namespace PyPhysim.Generated.C01\nopen PyPhysim.C01 (Trig)\n\n'
            + '\n'.join(out) + '\nend PyPhysim.Generated.C01\n')


TARGETS = {'C01Formulas': gen}
