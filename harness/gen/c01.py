"""Translator plugin: constellation formulas of fundamental.py -> Lean (Generated/C01Formulas.lean).

Extracted by AST pattern (anything unexpected raises => tie broken):
  QAM._createConstellation : the two coordinates passed to complex(..), the index
      expression of `symbols[...] = symbol`, the average-energy expression and the
      final `symbols / math.sqrt(average_energy)`; a construction WITHOUT loops (np.arange / tile / repeat /
      meshgrid / reshape / broadcasting into `.real` / `.imag`) is evaluated symbolically (class QamVec) to the
      element at flat index `ii * L + jj`, its shape requirements being emitted as `qamShapeOk`
  PSK._createConstellation : the phase expression, cos/sin parts and `realPart + 1j*imagPart`
      (the parts may be spelled `np.exp(1j * phases).real/.imag`; snapping of values below 1e-15 to 0, by
      masked assignment or `np.where`, is recognised and left out as before)
  BPSK.__init__            : the literal constellation `np.array([1, -1])`
"""
import ast
import os

from harness.translate import HEADER, TranslateError, find_fn, parse_file, strip_doc
from harness.gen.c16 import lit
from harness.gen import norm


def int_expr(e, names):
    if isinstance(e, ast.Name) and e.id in names:
        return e.id
    if isinstance(e, ast.Constant) and isinstance(e.value, int):
        return '(%d : Int)' % e.value
    if isinstance(e, ast.UnaryOp) and isinstance(e.op, ast.USub):
        return '(-%s)' % int_expr(e.operand, names)
    if isinstance(e, ast.BinOp) and type(e.op) in (ast.Add, ast.Sub, ast.Mult):
        op = {ast.Add: '+', ast.Sub: '-', ast.Mult: '*'}[type(e.op)]
        return '(%s %s %s)' % (int_expr(e.left, names), op, int_expr(e.right, names))
    raise TranslateError('unsupported integer expression ' + ast.unparse(e))


def real_expr(e, env):
    if isinstance(e, ast.Name) and e.id in env:
        return env[e.id]
    if isinstance(e, ast.Name) and e.id == 'PI':
        return 'Trig.pi'
    if isinstance(e, ast.Constant) and isinstance(e.value, (int, float)):
        return lit(e.value)
    if isinstance(e, ast.BinOp) and type(e.op) in (ast.Add, ast.Sub, ast.Mult, ast.Div):
        op = {ast.Add: '+', ast.Sub: '-', ast.Mult: '*', ast.Div: '/'}[type(e.op)]
        return '(%s %s %s)' % (real_expr(e.left, env), op, real_expr(e.right, env))
    if isinstance(e, ast.Call) and ast.unparse(e.func) == 'np.arange' and ast.unparse(e.args[0]) == '0' \
            and ast.unparse(e.args[1]) == 'M':
        return '(k : α)'
    raise TranslateError('unsupported real expression ' + ast.unparse(e))


def qam_grid_loops(stmts):
    """the two nested `for .. in range(0, L)` loops writing `symbols[<index>] = complex(<re>, <im>)`"""
    out = []
    loops = [s for s in stmts if isinstance(s, ast.For)]
    if len(loops) != 1 or ast.unparse(loops[0].iter) != 'range(0, L)':
        raise TranslateError('QAM grid: outer loop')
    outer = loops[0]
    if not (len(outer.body) == 1 and isinstance(outer.body[0], ast.For)
            and ast.unparse(outer.body[0].iter) == 'range(0, L)'):
        raise TranslateError('QAM grid: inner loop')
    inner = outer.body[0]
    vo, vi = outer.target.id, inner.target.id
    if len(inner.body) != 2:
        raise TranslateError('QAM grid: loop body')
    a, b = inner.body
    if not (isinstance(a, ast.Assign) and isinstance(a.value, ast.Call) and ast.unparse(a.value.func) == 'complex'
            and len(a.value.args) == 2):
        raise TranslateError('QAM grid: complex(...)')
    if not (isinstance(b, ast.Assign) and isinstance(b.targets[0], ast.Subscript)
            and ast.unparse(b.targets[0].value) == 'symbols' and ast.unparse(b.value) == a.targets[0].id):
        raise TranslateError('QAM grid: symbols[...] = symbol')
    if vo == vi or 'L' in (vo, vi):
        raise TranslateError('QAM grid: loop variables shadow each other')
    names = {'L', vo, vi}
    sig = '(L %s %s : Int)' % (vo, vi)
    out.append('def qamRe %s : Int := %s\n' % (sig, int_expr(a.value.args[0], names)))
    out.append('def qamIm %s : Int := %s\n' % (sig, int_expr(a.value.args[1], names)))
    out.append('def qamIndex %s : Int := %s\n' % (sig, int_expr(b.targets[0].slice, names)))
    out.append('-- loop variables: outer `%s`, inner `%s`\n' % (vo, vi))
    out.append('/-- shape obligations of a vectorised construction (none for the explicit loops) -/\n'
               'def qamShapeOk (L : Int) : Prop := True\n')
    return out


class S:
    """integer scalar: Lean text + its value as a function of L (used only to GUESS simplifications, which are
    then emitted as proof obligations)"""

    def __init__(self, text, fn):
        self.text, self.fn = text, fn


class V1:
    def __init__(self, n, f):
        self.n, self.f = n, f          # length (S), element function: Lean index text -> Lean value text


class V2:
    def __init__(self, r, c, f):
        self.r, self.c, self.f = r, c, f   # shape (S, S), element function of two index texts


class Buf:
    def __init__(self, shape):
        self.shape, self.re, self.im = shape, None, None


class QamVec:
    """Symbolic evaluation of a vectorised QAM._createConstellation (numpy on small integer arrays).

    Arrays are (shape, element function) pairs over Lean `Int` terms in `L`; `M` stands for `L * L` (the
    documented precondition: M is a perfect square, L its root).  numpy semantics used (the trusted part, as
    the list idioms of the C02 plugin):
      np.arange(a, b, s), s a positive literal : element k is a + k*s, length ceil((b - a) / s) for a <= b
      np.arange(n) / np.arange(0, n[, dtype=int]) : element k is k, length n
      scalar (+ - *) array, array (+ - *) scalar, -array : elementwise
      v[::-1]                 : element k is v[n - 1 - k]
      v.reshape(1, n) / v.reshape(n, 1) / w.reshape(r * c) : row-major, same number of elements
      np.tile(v, k)           : element p is v[p % n], length n * k
      np.repeat(v, k)         : element p is v[p / k], length n * k
      np.meshgrid(x, y)       : both of shape (len y, len x); X[i, j] = x[j], Y[i, j] = y[i]
      buf = np.empty(shape, dtype=complex); buf.real = E; buf.imag = E : E is broadcast to the shape of buf
                                (a dimension written as the literal 1 is stretched, any other must be equal)
    Every size equality the code relies on, and every simplification of a length (guessed from its values for
    L = 1..8), is EMITTED as a conjunct of `qamShapeOk L` and proved in Lean for all L >= 1
    (`generated_constellation_matches_model`); nothing is simplified on trust."""

    def __init__(self):
        self.env = {}
        self.obl = []              # (lhs text, relation, rhs text)

    # ---- scalars
    def sc(self, e):
        if isinstance(e, ast.Name) and e.id == 'L':
            return S('L', lambda L: L)
        if isinstance(e, ast.Name) and e.id == 'M':
            return S('(L * L)', lambda L: L * L)
        if isinstance(e, ast.Name) and isinstance(self.env.get(e.id), S):
            return self.env[e.id]
        if isinstance(e, ast.Constant) and isinstance(e.value, int) and not isinstance(e.value, bool):
            v = e.value
            return S('(%d : Int)' % v, lambda L: v)
        if isinstance(e, ast.UnaryOp) and isinstance(e.op, ast.USub):
            a = self.sc(e.operand)
            return S('(-%s)' % a.text, lambda L: -a.fn(L))
        if isinstance(e, ast.BinOp) and type(e.op) in (ast.Add, ast.Sub, ast.Mult):
            a, b = self.sc(e.left), self.sc(e.right)
            if isinstance(e.op, ast.Pow):
                raise TranslateError('power')
            op, fn = {ast.Add: ('+', lambda x, y: x + y), ast.Sub: ('-', lambda x, y: x - y),
                      ast.Mult: ('*', lambda x, y: x * y)}[type(e.op)]
            return S('(%s %s %s)' % (a.text, op, b.text), lambda L: fn(a.fn(L), b.fn(L)))
        if isinstance(e, ast.BinOp) and isinstance(e.op, ast.Pow) and isinstance(e.right, ast.Constant) and e.right.value == 2:
            a = self.sc(e.left)
            return S('(%s * %s)' % (a.text, a.text), lambda L: a.fn(L) ** 2)
        raise TranslateError('QAM grid (vectorised): unsupported integer expression ' + ast.unparse(e)[:60])

    def is_scalar(self, e):
        try:
            self.sc(e)
            return True
        except TranslateError:
            return False

    def simplify(self, s, extra=None):
        """a linear form c1*L + c0 taking the same values for L = 1..8, with the equality as an obligation"""
        vals = [s.fn(L) for L in range(1, 9)]
        c1 = vals[1] - vals[0]
        c0 = vals[0] - c1
        if any(v != c1 * L + c0 for L, v in zip(range(1, 9), vals)) or c1 < 0:
            return s
        if (c1, c0) == (1, 0):
            t = S('L', lambda L: L)
        elif c1 == 0:
            t = S('(%d : Int)' % c0, lambda L: c0) if c0 >= 0 else s
        else:
            t = S('(((%d : Int) * L) + (%d : Int))' % (c1, c0), lambda L: c1 * L + c0) if c0 >= 0 else s
        if t is not s and t.text != s.text:
            self.obl.append((s.text, '=', t.text))
        return t

    def same(self, a, b, what):
        if a.text != b.text:
            if any(a.fn(L) != b.fn(L) for L in range(1, 9)):
                raise TranslateError('QAM grid (vectorised): %s: sizes differ' % what)
            self.obl.append((a.text, '=', b.text))

    # ---- arrays
    def ev(self, e):
        if isinstance(e, ast.Name) and e.id in self.env:
            return self.env[e.id]
        if isinstance(e, ast.UnaryOp) and isinstance(e.op, ast.USub) and not self.is_scalar(e):
            v = self.ev(e.operand)
            return self.map(v, lambda t: '(-%s)' % t)
        if isinstance(e, ast.BinOp) and type(e.op) in (ast.Add, ast.Sub, ast.Mult) and not self.is_scalar(e):
            op = {ast.Add: '+', ast.Sub: '-', ast.Mult: '*'}[type(e.op)]
            if self.is_scalar(e.left):
                a, v = self.sc(e.left), self.ev(e.right)
                return self.map(v, lambda t: '(%s %s %s)' % (a.text, op, t))
            if self.is_scalar(e.right):
                v, a = self.ev(e.left), self.sc(e.right)
                return self.map(v, lambda t: '(%s %s %s)' % (t, op, a.text))
            raise TranslateError('QAM grid (vectorised): array (op) array')
        if isinstance(e, ast.Subscript) and isinstance(e.slice, ast.Slice) and e.slice.lower is None \
                and e.slice.upper is None and ast.unparse(e.slice.step or ast.Constant(1)) == '-1':
            v = self.ev(e.value)
            if not isinstance(v, V1):
                raise TranslateError('QAM grid (vectorised): [::-1] of a non-vector')
            return V1(v.n, lambda k, v=v: v.f('((%s - (1 : Int)) - %s)' % (v.n.text, k)))
        if isinstance(e, ast.Call):
            f = e.func
            kws = {k.arg: k.value for k in e.keywords}
            if _is_np(f, 'arange'):
                if set(kws) - {'dtype'} or ('dtype' in kws and ast.unparse(kws['dtype']) != 'int') or not 1 <= len(e.args) <= 3:
                    raise TranslateError('QAM grid (vectorised): np.arange form')
                a = self.sc(e.args[0]) if len(e.args) > 1 else S('(0 : Int)', lambda L: 0)
                b = self.sc(e.args[1] if len(e.args) > 1 else e.args[0])
                st = 1
                if len(e.args) == 3:
                    if not (isinstance(e.args[2], ast.Constant) and isinstance(e.args[2].value, int)
                            and not isinstance(e.args[2].value, bool) and e.args[2].value > 0):
                        raise TranslateError('QAM grid (vectorised): np.arange step must be a positive literal')
                    st = e.args[2].value
                if any(a.fn(L) > b.fn(L) for L in range(1, 9)):
                    raise TranslateError('QAM grid (vectorised): np.arange with start > stop')
                if a.text != '(0 : Int)':
                    self.obl.append((a.text, '≤', b.text))
                else:
                    self.obl.append(('(0 : Int)', '≤', b.text))
                n = S('(((%s - %s) + (%d : Int)) / (%d : Int))' % (b.text, a.text, st - 1, st),
                      lambda L: -((a.fn(L) - b.fn(L)) // st))
                n = self.simplify(n)
                if a.text == '(0 : Int)' and st == 1:
                    return V1(n, lambda k: k)
                return V1(n, lambda k: '(%s + (%s * (%d : Int)))' % (a.text, k, st))
            if _is_np(f, 'empty'):
                if ast.unparse(kws.get('dtype', ast.Name(id='float'))) != 'complex' or set(kws) != {'dtype'} or len(e.args) != 1:
                    raise TranslateError('QAM grid (vectorised): np.empty form')
                sh = e.args[0]
                if isinstance(sh, (ast.List, ast.Tuple)):
                    if len(sh.elts) != 2:
                        raise TranslateError('QAM grid (vectorised): buffer rank')
                    return Buf(tuple(self.sc(x) for x in sh.elts))
                return Buf((self.sc(sh),))
            if (_is_np(f, 'tile') or _is_np(f, 'repeat')) and len(e.args) == 2 and not kws:
                v, k = self.ev(e.args[0]), self.sc(e.args[1])
                if not isinstance(v, V1):
                    raise TranslateError('QAM grid (vectorised): tile / repeat of a non-vector')
                n = S('(%s * %s)' % (v.n.text, k.text), lambda L: v.n.fn(L) * k.fn(L))
                if f.attr == 'tile':
                    return V1(n, lambda p, v=v: v.f('(%s %% %s)' % (p, v.n.text)))
                return V1(n, lambda p, v=v, k=k: v.f('(%s / %s)' % (p, k.text)))
            if isinstance(f, ast.Attribute) and f.attr == 'reshape' and not kws:
                v = self.ev(f.value)
                args = e.args[0].elts if len(e.args) == 1 and isinstance(e.args[0], (ast.Tuple, ast.List)) else e.args
                dims = [self.sc(x) for x in args]
                if isinstance(v, Buf):
                    if v.re is None or v.im is None:
                        raise TranslateError('QAM grid (vectorised): reshape of a partly filled buffer')
                    if len(v.shape) != 2 or len(dims) != 1:
                        raise TranslateError('QAM grid (vectorised): buffer reshape form')
                    out = Buf((dims[0],))
                    out.re, out.im = self.reshape(v.re, dims), self.reshape(v.im, dims)
                    return out
                return self.reshape(v, dims)
        raise TranslateError('QAM grid (vectorised): unsupported expression ' + ast.unparse(e)[:60])

    def map(self, v, g):
        if isinstance(v, V1):
            return V1(v.n, lambda k, v=v: g(v.f(k)))
        if isinstance(v, V2):
            return V2(v.r, v.c, lambda i, j, v=v: g(v.f(i, j)))
        raise TranslateError('QAM grid (vectorised): elementwise operation on a non-array')

    def reshape(self, v, dims):
        if isinstance(v, V1) and len(dims) == 2:
            one = [d.text == '(1 : Int)' for d in dims]
            if one == [True, False]:
                self.same(v.n, dims[1], 'reshape(1, n)')
                return V2(dims[0], dims[1], lambda i, j, v=v: v.f(j))
            if one == [False, True]:
                self.same(v.n, dims[0], 'reshape(n, 1)')
                return V2(dims[0], dims[1], lambda i, j, v=v: v.f(i))
        if isinstance(v, V2) and len(dims) == 1:
            self.same(S('(%s * %s)' % (v.r.text, v.c.text), lambda L: v.r.fn(L) * v.c.fn(L)), dims[0], 'reshape(r * c)')
            return V1(dims[0], lambda p, v=v: v.f('(%s / %s)' % (p, v.c.text), '(%s %% %s)' % (p, v.c.text)))
        raise TranslateError('QAM grid (vectorised): unsupported reshape')

    def broadcast(self, v, shape, what):
        if len(shape) == 1:
            if not isinstance(v, V1):
                raise TranslateError('QAM grid (vectorised): %s: a vector is expected' % what)
            self.same(v.n, shape[0], what)
            return v
        if isinstance(v, V2):
            fi = (lambda i: '(0 : Int)') if v.r.text == '(1 : Int)' else (lambda i: i)
            fj = (lambda j: '(0 : Int)') if v.c.text == '(1 : Int)' else (lambda j: j)
            if v.r.text != '(1 : Int)':
                self.same(v.r, shape[0], what)
            if v.c.text != '(1 : Int)':
                self.same(v.c, shape[1], what)
            # (a stretched dimension has one element; its element function ignores that index)
            return V2(shape[0], shape[1], lambda i, j, v=v: v.f(fi(i), fj(j)))
        raise TranslateError('QAM grid (vectorised): %s: unsupported broadcast' % what)

    def run(self, stmts):
        for st in stmts:
            if not (isinstance(st, ast.Assign) and len(st.targets) == 1):
                raise TranslateError('QAM grid (vectorised): unsupported statement ' + ast.unparse(st)[:60])
            t = st.targets[0]
            if isinstance(t, ast.Name) and t.id == 'L':
                if ast.unparse(st.value) != 'int(round(math.sqrt(M)))':
                    raise TranslateError('QAM grid: L')
                continue
            if isinstance(t, ast.Name):
                if t.id in ('M', 'L'):
                    raise TranslateError('QAM grid (vectorised): M / L rebound')
                self.env[t.id] = self.sc(st.value) if self.is_scalar(st.value) else self.ev(st.value)
                continue
            if isinstance(t, ast.Tuple) and len(t.elts) == 2 and all(isinstance(x, ast.Name) for x in t.elts) \
                    and isinstance(st.value, ast.Call) and _is_np(st.value.func, 'meshgrid') and len(st.value.args) == 2 \
                    and not st.value.keywords:
                x, y = self.ev(st.value.args[0]), self.ev(st.value.args[1])
                if not (isinstance(x, V1) and isinstance(y, V1)):
                    raise TranslateError('QAM grid (vectorised): meshgrid of non-vectors')
                self.env[t.elts[0].id] = V2(y.n, x.n, lambda i, j, x=x: x.f(j))
                self.env[t.elts[1].id] = V2(y.n, x.n, lambda i, j, y=y: y.f(i))
                continue
            if isinstance(t, ast.Attribute) and t.attr in ('real', 'imag') and isinstance(t.value, ast.Name) \
                    and isinstance(self.env.get(t.value.id), Buf):
                buf = self.env[t.value.id]
                v = self.broadcast(self.ev(st.value), buf.shape, '%s.%s = ...' % (t.value.id, t.attr))
                if t.attr == 'real':
                    buf.re = v
                else:
                    buf.im = v
                continue
            raise TranslateError('QAM grid (vectorised): unsupported statement ' + ast.unparse(st)[:60])


def qam_grid_vectorised(stmts):
    """QAM._createConstellation without explicit loops: the element stored at flat index `ii * L + jj`"""
    k = [i for i, s in enumerate(stmts) if isinstance(s, ast.Assign) and ast.unparse(s.targets[0]) == 'average_energy']
    if len(k) != 1:
        raise TranslateError('QAM grid: average_energy')
    q = QamVec()
    q.run(stmts[:k[0]])
    sym = q.env.get('symbols')
    if not (isinstance(sym, Buf) and len(sym.shape) == 1 and sym.re is not None and sym.im is not None):
        raise TranslateError('QAM grid (vectorised): `symbols` is not a completely filled 1-D complex buffer')
    q.same(sym.shape[0], S('(L * L)', lambda L: L * L), 'number of symbols')
    p = '((ii * L) + jj)'
    sig = '(L jj ii : Int)'
    obl = ' ∧ '.join('(%s %s %s)' % o for o in q.obl)
    return ['def qamRe %s : Int := %s\n' % (sig, sym.re.f(p)),
            'def qamIm %s : Int := %s\n' % (sig, sym.im.f(p)),
            'def qamIndex %s : Int := %s\n' % (sig, p),
            '-- vectorised construction: the element at flat (row-major) index `ii * L + jj`\n',
            '/-- shape obligations of the vectorised construction: every size equality numpy needs, and every\n'
            '    simplification of a length the translator used -/\n'
            'def qamShapeOk (L : Int) : Prop := %s\n' % (obl + ' ∧ True' if obl else 'True')]


def _is_np(e, name):
    return isinstance(e, ast.Attribute) and e.attr == name and isinstance(e.value, ast.Name) and e.value.id == 'np'


def _is_abs_of(e, what):
    return (isinstance(e, ast.Call) and len(e.args) == 1 and not e.keywords
            and ((isinstance(e.func, ast.Name) and e.func.id == 'abs') or _is_np(e.func, 'abs'))
            and ast.unparse(e.args[0]) == what)


def _small(e):
    return isinstance(e, ast.Constant) and isinstance(e.value, float) and 0 < e.value <= 1e-12


def _zero(e):
    return isinstance(e, ast.Constant) and not isinstance(e.value, bool) and e.value in (0, 0.0)


def psk_check_parts(stmts, phases):
    """PSK._createConstellation must return `cos(phases) + 1j * sin(phases)` (each part possibly with values below
    a tiny threshold snapped to 0, which the model abstracts: `v[abs(v) < eps] = 0` or `np.where(abs(v) < eps, 0, v)`).
    The locals are substituted in order; `np.exp(1j * x).real` / `.imag` are `cos x` / `sin x` (Euler's formula,
    x real)."""
    env = {}
    for st in stmts[:-1]:
        if isinstance(st, ast.Assign) and len(st.targets) == 1 and isinstance(st.targets[0], ast.Name):
            env[st.targets[0].id] = norm.subst(st.value, env)
            continue
        if (isinstance(st, ast.Assign) and len(st.targets) == 1 and isinstance(st.targets[0], ast.Subscript)
                and isinstance(st.targets[0].value, ast.Name) and st.targets[0].value.id in env and _zero(st.value)):
            v = st.targets[0].value.id
            m = st.targets[0].slice
            if isinstance(m, ast.Compare) and len(m.ops) == 1 and isinstance(m.ops[0], ast.Lt) and _is_abs_of(m.left, v) \
                    and _small(m.comparators[0]):
                continue                        # snap-to-zero of tiny values: not part of the model
        if isinstance(st, ast.Assert):
            continue
        raise TranslateError('PSK: unsupported statement ' + ast.unparse(st)[:80])
    ret = stmts[-1]
    if not (isinstance(ret, ast.Return) and ret.value is not None):
        raise TranslateError('PSK: no return value')
    e = norm.subst(ret.value, env)

    def unsnap(x):
        # np.where(abs(X) < eps, 0, X) -> X
        while (isinstance(x, ast.Call) and _is_np(x.func, 'where') and len(x.args) == 3 and not x.keywords
               and _zero(x.args[1]) and isinstance(x.args[0], ast.Compare) and len(x.args[0].ops) == 1
               and isinstance(x.args[0].ops[0], ast.Lt) and _small(x.args[0].comparators[0])
               and _is_abs_of(x.args[0].left, ast.unparse(x.args[2]))):
            x = x.args[2]
        return x

    def trig(x):
        x = unsnap(x)
        if isinstance(x, ast.Call) and len(x.args) == 1 and not x.keywords and (_is_np(x.func, 'cos') or _is_np(x.func, 'sin')):
            return x.func.attr, ast.unparse(x.args[0])
        if isinstance(x, ast.Attribute) and x.attr in ('real', 'imag') and isinstance(x.value, ast.Call) \
                and _is_np(x.value.func, 'exp') and len(x.value.args) == 1 and not x.value.keywords:
            a = x.value.args[0]
            if isinstance(a, ast.BinOp) and isinstance(a.op, ast.Mult):
                for j, th in ((a.left, a.right), (a.right, a.left)):
                    if isinstance(j, ast.Constant) and j.value == 1j:
                        return ('cos' if x.attr == 'real' else 'sin'), ast.unparse(th)
        raise TranslateError('PSK: a coordinate is not cos / sin of the phases: ' + ast.unparse(x)[:80])

    want = ast.unparse(norm.subst(phases, {}))
    if not (isinstance(e, ast.BinOp) and isinstance(e.op, ast.Add) and isinstance(e.right, ast.BinOp)
            and isinstance(e.right.op, ast.Mult)):
        raise TranslateError('PSK: the result is not `real + 1j * imag`')
    j, im = e.right.left, e.right.right
    if not (isinstance(j, ast.Constant) and j.value == 1j):
        j, im = im, j
    if not (isinstance(j, ast.Constant) and j.value == 1j):
        raise TranslateError('PSK: the result is not `real + 1j * imag`')
    if trig(e.left) != ('cos', want) or trig(im) != ('sin', want):
        raise TranslateError('PSK: the result is not `cos(phases) + 1j * sin(phases)`')


def gen(repo):
    fund = parse_file(os.path.join(repo, 'pyphysim/modulators/fundamental.py'))
    out = []
    # ---- QAM grid
    f = find_fn(fund, '_createConstellation', 'QAM')
    stmts = strip_doc(f.body)
    if any(isinstance(s, ast.For) for s in stmts):
        out += qam_grid_loops(stmts)
    else:
        out += qam_grid_vectorised(stmts)
    lsrc = [s for s in stmts if isinstance(s, ast.Assign) and ast.unparse(s.targets[0]) == 'L']
    if not lsrc or ast.unparse(lsrc[0].value) != 'int(round(math.sqrt(M)))':
        raise TranslateError('QAM grid: L')
    en = [s for s in stmts if isinstance(s, ast.Assign) and ast.unparse(s.targets[0]) == 'average_energy']
    if len(en) != 1:
        raise TranslateError('QAM grid: average_energy')
    cls = '{α : Type} [Add α] [Sub α] [Mul α] [Div α] [NatCast α]'
    out.append('def qamAvgEnergy %s (M : α) : α := %s\n' % (cls, real_expr(en[0].value, {'M': 'M'})))
    if ast.unparse(stmts[-1]) != 'return symbols / math.sqrt(average_energy)':
        raise TranslateError('QAM grid: final scaling')
    # ---- PSK phases
    f = find_fn(fund, '_createConstellation', 'PSK')
    stmts = strip_doc(f.body)
    src = [ast.unparse(s) for s in stmts]
    ph = [s for s in stmts if isinstance(s, ast.Assign) and ast.unparse(s.targets[0]) == 'phases']
    if len(ph) != 1:
        raise TranslateError('PSK: phases')
    cls2 = '{α : Type} [Add α] [Mul α] [Div α] [NatCast α] [Trig α]'
    out.append('def pskPhase %s (M k : Nat) (phaseOffset : α) : α :=\n  let M : α := (M : α)\n  %s\n'
               % (cls2, real_expr(ph[0].value, {'M': 'M', 'phaseOffset': 'phaseOffset'})))
    psk_check_parts(stmts, ph[0].value)
    # ---- BPSK literal
    f = find_fn(fund, '__init__', 'BPSK')
    calls = [s for s in strip_doc(f.body) if 'setConstellation' in ast.unparse(s)]
    if len(calls) != 1:
        raise TranslateError('BPSK: setConstellation')
    arg = calls[0].value.args[0]
    if not (isinstance(arg, ast.Call) and ast.unparse(arg.func) == 'np.array'):
        raise TranslateError('BPSK: literal')
    vals = []
    for e in arg.args[0].elts:
        v = ast.literal_eval(e)
        vals.append('(%d : Int)' % v)
    out.append('def bpskPoints : List Int := [%s]\n' % ', '.join(vals))
    return (HEADER % 'pyphysim/modulators/fundamental.py (constellation formulas)'
            + 'import PyPhysim.Model.C01\nset_option linter.unusedVariables false\n'
            + 'namespace PyPhysim.Generated.C01\nopen PyPhysim.C01 (Trig)\n\n'
            + '\n'.join(out) + '\nend PyPhysim.Generated.C01\n')


TARGETS = {'C01Formulas': gen}
