"""Translator plugin: constellation formulas of fundamental.py -> Lean (Generated/C01Formulas.lean).

Extracted by AST pattern (anything unexpected raises => tie broken):
  QAM._createConstellation : the two coordinates passed to complex(..), the index
      expression of `symbols[...] = symbol`, the average-energy expression and the
      final `symbols / math.sqrt(average_energy)`
  PSK._createConstellation : the phase expression, cos/sin parts and `realPart + 1j*imagPart`
  BPSK.__init__            : the literal constellation `np.array([1, -1])`
"""
import ast
import os

from harness.translate import HEADER, TranslateError, find_fn, parse_file, strip_doc
from harness.gen.c16 import lit


def int_expr(e, names):
    if isinstance(e, ast.Name) and e.id in names:
        return e.id
    if isinstance(e, ast.Constant) and isinstance(e.value, int):
        return '(%d : Int)' % e.value
    if isinstance(e, ast.UnaryOp) and isinstance(e.op, ast.USub):
        return '(-%s)' % int_expr(e.operand, names)
    if isinstance(e, ast.BinOp) and type(e.op) in (ast.Add, ast.Sub, ast.Mult):
        op = {ast.Add: '+', ast.Sub: '-', ast.Mult: '*'}[type(e.op)]
        return '(%s %s %s)' % (int_expr(e.left, names), op, int_expr(e.right, names))
    raise TranslateError('unsupported integer expression ' + ast.unparse(e))


def real_expr(e, env):
    if isinstance(e, ast.Name) and e.id in env:
        return env[e.id]
    if isinstance(e, ast.Name) and e.id == 'PI':
        return 'Trig.pi'
    if isinstance(e, ast.Constant) and isinstance(e.value, (int, float)):
        return lit(e.value)
    if isinstance(e, ast.BinOp) and type(e.op) in (ast.Add, ast.Sub, ast.Mult, ast.Div):
        op = {ast.Add: '+', ast.Sub: '-', ast.Mult: '*', ast.Div: '/'}[type(e.op)]
        return '(%s %s %s)' % (real_expr(e.left, env), op, real_expr(e.right, env))
    if isinstance(e, ast.Call) and ast.unparse(e.func) == 'np.arange' and ast.unparse(e.args[0]) == '0' \
            and ast.unparse(e.args[1]) == 'M':
        return '(k : α)'
    raise TranslateError('unsupported real expression ' + ast.unparse(e))


def gen(repo):
    fund = parse_file(os.path.join(repo, 'pyphysim/modulators/fundamental.py'))
    out = []
    # ---- QAM grid
    f = find_fn(fund, '_createConstellation', 'QAM')
    stmts = strip_doc(f.body)
    loops = [s for s in stmts if isinstance(s, ast.For)]
    if len(loops) != 1 or ast.unparse(loops[0].iter) != 'range(0, L)':
        raise TranslateError('QAM grid: outer loop')
    outer = loops[0]
    if not (len(outer.body) == 1 and isinstance(outer.body[0], ast.For)
            and ast.unparse(outer.body[0].iter) == 'range(0, L)'):
        raise TranslateError('QAM grid: inner loop')
    inner = outer.body[0]
    vo, vi = outer.target.id, inner.target.id
    if len(inner.body) != 2:
        raise TranslateError('QAM grid: loop body')
    a, b = inner.body
    if not (isinstance(a, ast.Assign) and isinstance(a.value, ast.Call) and ast.unparse(a.value.func) == 'complex'
            and len(a.value.args) == 2):
        raise TranslateError('QAM grid: complex(...)')
    if not (isinstance(b, ast.Assign) and isinstance(b.targets[0], ast.Subscript)
            and ast.unparse(b.targets[0].value) == 'symbols' and ast.unparse(b.value) == a.targets[0].id):
        raise TranslateError('QAM grid: symbols[...] = symbol')
    if vo == vi or 'L' in (vo, vi):
        raise TranslateError('QAM grid: loop variables shadow each other')
    names = {'L', vo, vi}
    sig = '(L %s %s : Int)' % (vo, vi)
    out.append('def qamRe %s : Int := %s\n' % (sig, int_expr(a.value.args[0], names)))
    out.append('def qamIm %s : Int := %s\n' % (sig, int_expr(a.value.args[1], names)))
    out.append('def qamIndex %s : Int := %s\n' % (sig, int_expr(b.targets[0].slice, names)))
    out.append('-- loop variables: outer `%s`, inner `%s`\n' % (vo, vi))
    lsrc = [s for s in stmts if isinstance(s, ast.Assign) and ast.unparse(s.targets[0]) == 'L']
    if not lsrc or ast.unparse(lsrc[0].value) != 'int(round(math.sqrt(M)))':
        raise TranslateError('QAM grid: L')
    en = [s for s in stmts if isinstance(s, ast.Assign) and ast.unparse(s.targets[0]) == 'average_energy']
    if len(en) != 1:
        raise TranslateError('QAM grid: average_energy')
    cls = '{α : Type} [Add α] [Sub α] [Mul α] [Div α] [NatCast α]'
    out.append('def qamAvgEnergy %s (M : α) : α := %s\n' % (cls, real_expr(en[0].value, {'M': 'M'})))
    if ast.unparse(stmts[-1]) != 'return symbols / math.sqrt(average_energy)':
        raise TranslateError('QAM grid: final scaling')
    # ---- PSK phases
    f = find_fn(fund, '_createConstellation', 'PSK')
    stmts = strip_doc(f.body)
    src = [ast.unparse(s) for s in stmts]
    ph = [s for s in stmts if isinstance(s, ast.Assign) and ast.unparse(s.targets[0]) == 'phases']
    if len(ph) != 1:
        raise TranslateError('PSK: phases')
    cls2 = '{α : Type} [Add α] [Mul α] [Div α] [NatCast α] [Trig α]'
    out.append('def pskPhase %s (M k : Nat) (phaseOffset : α) : α :=\n  let M : α := (M : α)\n  %s\n'
               % (cls2, real_expr(ph[0].value, {'M': 'M', 'phaseOffset': 'phaseOffset'})))
    for need in ('realPart = np.cos(phases)', 'imagPart = np.sin(phases)', 'return realPart + 1j * imagPart'):
        if need not in src:
            raise TranslateError('PSK: missing `%s`' % need)
    # ---- BPSK literal
    f = find_fn(fund, '__init__', 'BPSK')
    calls = [s for s in strip_doc(f.body) if 'setConstellation' in ast.unparse(s)]
    if len(calls) != 1:
        raise TranslateError('BPSK: setConstellation')
    arg = calls[0].value.args[0]
    if not (isinstance(arg, ast.Call) and ast.unparse(arg.func) == 'np.array'):
        raise TranslateError('BPSK: literal')
    vals = []
    for e in arg.args[0].elts:
        v = ast.literal_eval(e)
        vals.append('(%d : Int)' % v)
    out.append('def bpskPoints : List Int := [%s]\n' % ', '.join(vals))
    return (HEADER % 'pyphysim/modulators/fundamental.py (constellation formulas)'
            + 'import PyPhysim.Model.C01\nset_option linter.unusedVariables false\n'
            + 'namespace PyPhysim.Generated.C01\nopen PyPhysim.C01 (Trig)\n\n'
            + '\n'.join(out) + '\nend PyPhysim.Generated.C01\n')


TARGETS = {'C01Formulas': gen}
