"""Translator plugin for C12: `doWF` (pyphysim/comm/waterfilling.py) -> Generated/C12WaterFilling.lean.

The body of `doWF` is *symbolically executed* on a small value domain and re-emitted in a normal form;
`Properties/C12.lean: generated_wf_matches_model` proves the emitted text equal to the hand model
(`Model/C12.lean: doWFWith`) for ALL inputs.  A semantic edit of the source therefore changes the emitted text
(the bridge proof fails) or leaves the fragment (TranslateError => tie broken); harmless rewrites (helper
extraction, renamed locals, `[:k]` instead of `np.arange(0, k)` fancy indexing, aliases such as
`dNoise = float(noiseVar)`, a `for ... range(n, -1, -1) ... break` loop instead of the `while` with a duplicated
body) give the same text.

Value domain
  int     linear forms  a*n + b*r + c  over  n = vtChannels.size  and  r = the loop counter (canonical printing)
  scalar  trees over P (2nd parameter), N (3rd), Es (4th): + - * / (operands of + and * in a fixed order),
          `float(x)`, `arr[int]`, `sum(arr)`, int -> scalar
  array   the gains, `np.argsort(gains)` (ascending) and its reversal `[::-1]`, `gains[sortidx]`, prefixes
          `a[np.arange(0, k)]` / `a[np.arange(k)]` / `a[:k]`, elementwise `array op scalar`, `np.zeros(n)` and
          the scattered array `z[idx] = vals`
Normal form of the loop: every variable the loop assigns, except one counter `r` (`r += 1`), must be recomputed
in the body as a function of the new `r` only, by the SAME expression (as a function of `r`) that computed it
before the loop; then the whole loop state is a function of `r`:
    r = r0;  while test(r): r += 1;      finish(r)
(`loopTest`, `removed0`, `finish` below; `loop` / `doWFGen` are the fixed skeleton).  A `for u in range(A, B, -1):
body; if c: break` loop is the same thing with `u = A - r`, r0 = 0, test = not c and "there is a next u".
Anything else raises TranslateError.
"""
import ast
import os

from harness.translate import HEADER, TranslateError, parse_file, strip_doc

FILE = 'pyphysim/comm/waterfilling.py'
FN = 'doWF'


def fail(msg, node=None):
    where = ' (line %d)' % node.lineno if node is not None and hasattr(node, 'lineno') else ''
    raise TranslateError('C12WaterFilling: ' + msg + where)


# ---------------------------------------------------------------------------------------------- linear forms
class Lin:
    SYMS = ('n', 'r')

    def __init__(self, n=0, r=0, c=0):
        self.co = {'n': n, 'r': r}
        self.c = c

    def key(self):
        return ('lin', self.co['n'], self.co['r'], self.c)

    def add(self, o, sign=1):
        return Lin(self.co['n'] + sign * o.co['n'], self.co['r'] + sign * o.co['r'], self.c + sign * o.c)

    def scale(self, k):
        return Lin(self.co['n'] * k, self.co['r'] * k, self.c * k)

    def is_const(self):
        return self.co['n'] == 0 and self.co['r'] == 0

    def subst_r(self, o):
        """r := o"""
        return Lin(self.co['n'], 0, self.c).add(o.scale(self.co['r']))

    def lean(self):
        parts = []
        for s in self.SYMS:
            k = self.co[s]
            if k == 0:
                continue
            t = '(%s : Int)' % s
            if abs(k) != 1:
                t = '%d * %s' % (abs(k), t)
            parts.append(('-' if k < 0 else '+', t))
        if self.c != 0 or not parts:
            parts.append(('-' if self.c < 0 else '+', str(abs(self.c))))
        out = ''
        for i, (sg, t) in enumerate(parts):
            if i == 0:
                out = t if sg == '+' else '-' + t
            else:
                out += ' %s %s' % (sg, t)
        return '(%s : Int)' % out


def is_lin(v):
    return isinstance(v, Lin)


def key(v):
    if isinstance(v, Lin):
        return v.key()
    if isinstance(v, tuple):
        return tuple(key(x) for x in v)
    if isinstance(v, list):
        return ('list',) + tuple(key(x) for x in v)
    return v


SC = ('P', 'N', 'Es', 'div', 'mul', 'add', 'sub', 'neg', 'cast', 'get', 'sum', 'x')
ARR = ('sorted', 'prefix', 'map')
IDX = ('sortidx',)


def kind(v):
    if v is None:
        return "none"
    if isinstance(v, Lin):
        return 'int'
    if isinstance(v, tuple) and v:
        h = v[0]
        if h in SC:
            return 'sc'
        if h in ARR:
            return kind_arr(v)
        if h in IDX:
            return 'idx'
        return h          # gains, zeros, scatter, tuple, old, none
    return '?'


def kind_arr(v):
    if v[0] == 'prefix':
        return kind(v[1])
    return 'arr'


def subst_r(v, o):
    if isinstance(v, Lin):
        return v.subst_r(o)
    if isinstance(v, tuple):
        return tuple(subst_r(x, o) for x in v)
    if isinstance(v, list):
        return [subst_r(x, o) for x in v]
    return v


def mentions(v, head):
    if isinstance(v, tuple):
        if v and v[0] == head:
            return True
        return any(mentions(x, head) for x in v)
    if isinstance(v, list):
        return any(mentions(x, head) for x in v)
    return False


# ---------------------------------------------------------------------------------------------- execution
class Exec:
    def __init__(self, module):
        self.module = module
        self.depth = 0
        self.loop = None          # (r0, conds)

    # ------------------------------------------------------------------ expressions
    def ev(self, e, env):
        if isinstance(e, ast.Constant):
            if isinstance(e.value, bool) or e.value is None:
                fail('unsupported literal %r' % (e.value,), e)
            if isinstance(e.value, int):
                return Lin(c=e.value)
            fail('unsupported literal %r (only integer literals occur in the translated fragment)' % (e.value,), e)
        if isinstance(e, ast.Name):
            if e.id not in env:
                fail('unknown name %s' % e.id, e)
            return env[e.id]
        if isinstance(e, ast.Tuple):
            return ('tuple', [self.ev(x, env) for x in e.elts])
        if isinstance(e, ast.UnaryOp) and isinstance(e.op, ast.USub):
            v = self.ev(e.operand, env)
            if is_lin(v):
                return v.scale(-1)
            if kind(v) == 'sc':
                return ('neg', v)
            fail('unsupported negation', e)
        if isinstance(e, ast.BinOp):
            return self.binop(e.op, self.ev(e.left, env), self.ev(e.right, env), e)
        if isinstance(e, ast.Attribute):
            if e.attr == 'size' and (kind(self.ev(e.value, env)) == 'gains' or self.ev(e.value, env)[0] in ('sorted', 'sortidx')):
                return Lin(n=1)         # the sorted gains and the sort indexes have one entry per channel
            fail('unsupported attribute %s' % ast.unparse(e), e)
        if isinstance(e, ast.Subscript):
            return self.subscript(e, env)
        if isinstance(e, ast.Call):
            return self.call(e, env)
        fail('unsupported expression %s' % ast.unparse(e)[:70], e)

    def to_sc(self, v, node):
        if is_lin(v):
            return ('cast', v)
        if kind(v) == 'sc':
            return v
        fail('a scalar is required here, found %s' % kind(v), node)

    def binop(self, op, l, r, node):
        name = {ast.Add: 'add', ast.Sub: 'sub', ast.Mult: 'mul', ast.Div: 'div'}.get(type(op))
        if name is None:
            fail('unsupported operator %s' % type(op).__name__, node)
        kl, kr = kind(l), kind(r)
        if kl == 'int' and kr == 'int':
            if name == 'add':
                return l.add(r)
            if name == 'sub':
                return l.add(r, -1)
            if name == 'mul' and (l.is_const() or r.is_const()):
                return r.scale(l.c) if l.is_const() else l.scale(r.c)
            fail('unsupported integer arithmetic (%s)' % name, node)
        if kl == 'arr' and kr in ('sc', 'int'):
            base, body = (l[1], l[2]) if l[0] == 'map' else (l, ('x',))      # maps are fused
            return ('map', base, self.mk(name, body, self.to_sc(r, node)))
        if kr == 'arr' and kl in ('sc', 'int'):
            base, body = (r[1], r[2]) if r[0] == 'map' else (r, ('x',))
            return ('map', base, self.mk(name, self.to_sc(l, node), body))
        if kl in ('sc', 'int') and kr in ('sc', 'int'):
            return self.mk(name, self.to_sc(l, node), self.to_sc(r, node))
        fail('unsupported operands %s %s %s' % (kl, name, kr), node)

    RANK = ('P', 'N', 'Es', 'cast', 'get', 'sum', 'neg', 'div', 'mul', 'add', 'sub', 'x')

    @classmethod
    def mk(cls, name, a, b):
        """scalar `a op b`; the operands of the commutative + and * (commutative in binary64 too) in a fixed order"""
        if name in ('add', 'mul'):
            ka, kb = (cls.RANK.index(a[0]), repr(key(a))), (cls.RANK.index(b[0]), repr(key(b)))
            if kb < ka:
                a, b = b, a
        return (name, a, b)

    def arange_bound(self, e, env):
        """k if `e` is np.arange(0, k) / np.arange(k)"""
        if isinstance(e, ast.Call) and ast.unparse(e.func) in ('np.arange', 'numpy.arange') and not e.keywords \
                and 'np' not in env:
            args = [self.ev(a, env) for a in e.args]
            if len(args) == 1 and is_lin(args[0]):
                return args[0]
            if len(args) == 2 and is_lin(args[0]) and args[0].key() == Lin().key() and is_lin(args[1]):
                return args[1]
            fail('unsupported np.arange call %s' % ast.unparse(e), e)
        return None

    def subscript(self, e, env):
        base = self.ev(e.value, env)
        kb = kind(base)
        sl = e.slice
        if isinstance(sl, ast.Slice):
            if sl.lower is None and sl.upper is None and sl.step is not None:
                st = self.ev(sl.step, env)
                if is_lin(st) and st.key() == Lin(c=-1).key() and kb == 'idx':
                    return ('sortidx', not base[1])
                fail('unsupported reversal of %s' % kb, e)
            if sl.lower is None and sl.step is None and sl.upper is not None:
                k = self.ev(sl.upper, env)
                if is_lin(k) and kb in ('arr', 'idx'):
                    return ('prefix', base, k)
            if sl.lower is not None and sl.step is None and sl.upper is not None:
                lo, k = self.ev(sl.lower, env), self.ev(sl.upper, env)
                if is_lin(lo) and lo.key() == Lin().key() and is_lin(k) and kb in ('arr', 'idx'):
                    return ('prefix', base, k)
            fail('unsupported slice %s' % ast.unparse(e), e)
        k = self.arange_bound(sl, env)
        if k is not None:
            if kb in ('arr', 'idx'):
                return ('prefix', base, k)
            fail('fancy indexing of %s' % kb, e)
        i = self.ev(sl, env)
        if kb == 'gains' and kind(i) == 'idx' and i[0] == 'sortidx':
            return ('sorted', i[1])
        if kb == 'arr' and is_lin(i):
            return ('get', base, i)
        fail('unsupported subscript %s (%s indexed by %s)' % (ast.unparse(e)[:60], kb, kind(i)), e)

    def helper(self, name):
        found = [n for n in self.module.body if isinstance(n, ast.FunctionDef) and n.name == name]
        if len(found) != 1 or name == FN:
            return None
        if found[0].decorator_list:
            fail('helper %s is decorated' % name)
        return found[0]

    def call(self, e, env):
        f = ast.unparse(e.func)
        shadow = lambda nm: nm in env           # noqa: E731  a local that hides a builtin / module name
        if f == 'float' and len(e.args) == 1 and not e.keywords and not shadow('float'):
            v = self.ev(e.args[0], env)
            if kind(v) == 'sc':
                return v
            fail('float() of %s' % kind(v), e)
        if f in ('np.asarray', 'np.array', 'np.asfarray') and not shadow('np') and len(e.args) >= 1:
            v = self.ev(e.args[0], env)
            extra = [ast.unparse(a) for a in e.args[1:]] + ['%s=%s' % (k.arg, ast.unparse(k.value)) for k in e.keywords]
            if kind(v) == 'gains' and extra in (['dtype=float'], ['float'], ['dtype=np.float64'], ['np.float64']):
                return v
            fail('unsupported conversion %s' % ast.unparse(e), e)
        if f == 'np.argsort' and not shadow('np') and len(e.args) == 1 and not e.keywords:
            if kind(self.ev(e.args[0], env)) == 'gains':
                return ('sortidx', False)
            fail('argsort of something else than the gains', e)
        if (f in ('sum', 'np.sum') and not shadow(f.split('.')[0]) and len(e.args) == 1 and not e.keywords) or \
                (isinstance(e.func, ast.Attribute) and e.func.attr == 'sum' and not e.args and not e.keywords
                 and f != 'np.sum'):
            v = self.ev(e.args[0] if e.args else e.func.value, env)
            if kind(v) == 'arr':
                return ('sum', v)
            fail('sum of %s' % kind(v), e)
        if f == 'len' and not shadow('len') and len(e.args) == 1 and not e.keywords:
            if kind(self.ev(e.args[0], env)) == 'gains':
                return Lin(n=1)
            fail('len() of something else than the gains', e)
        if f == 'np.zeros' and not shadow('np') and len(e.args) == 1 and not e.keywords:
            a = e.args[0]
            if isinstance(a, (ast.List, ast.Tuple)) and len(a.elts) == 1:
                a = a.elts[0]
            v = self.ev(a, env)
            if is_lin(v):
                return ('zeros', v)
            fail('unsupported np.zeros shape', e)
        if isinstance(e.func, ast.Name) and not shadow(f):
            fn = self.helper(f)
            if fn is not None:
                return self.inline(fn, e, env)
        fail('unsupported call %s' % ast.unparse(e)[:70], e)

    def inline(self, fn, call, env):
        if self.depth > 3:
            fail('helper nesting too deep / recursive: %s' % fn.name, call)
        a = fn.args
        if a.vararg or a.kwarg or a.kwonlyargs or a.posonlyargs or any(isinstance(x, ast.Starred) for x in call.args):
            fail('unsupported signature of helper %s' % fn.name, call)
        params = [p.arg for p in a.args]
        bound = {}
        if len(call.args) > len(params):
            fail('too many arguments for %s' % fn.name, call)
        for p, x in zip(params, call.args):
            bound[p] = self.ev(x, env)
        for k in call.keywords:
            if k.arg is None or k.arg not in params or k.arg in bound:
                fail('bad keyword argument of %s' % fn.name, call)
            bound[k.arg] = self.ev(k.value, env)
        dflt = dict(zip(params[len(params) - len(a.defaults):], a.defaults))
        for p in params:
            if p not in bound:
                if p not in dflt:
                    fail('missing argument %s of %s' % (p, fn.name), call)
                bound[p] = self.ev(dflt[p], {})
        self.depth += 1
        try:
            r = self.block(strip_doc(fn.body), bound, top=False)
        finally:
            self.depth -= 1
        if r is None:
            fail('helper %s does not return a value' % fn.name, call)
        return r

    # ------------------------------------------------------------------ tests
    def conds(self, e, env):
        """list of conjuncts: ('lt', a, b) a < b | ('le', a, b) | ('ipos', L) 0 < L | ('inn', L) 0 <= L | ('not', c)"""
        if isinstance(e, ast.BoolOp) and isinstance(e.op, ast.And):
            out = []
            for v in e.values:
                out += self.conds(v, env)
            return out
        if isinstance(e, ast.UnaryOp) and isinstance(e.op, ast.Not):
            cs = self.conds(e.operand, env)
            if len(cs) != 1:
                fail('negation of a conjunction in a test', e)
            return [self.negate(cs[0])]
        if isinstance(e, ast.Compare) and len(e.ops) == 1:
            l, r = self.ev(e.left, env), self.ev(e.comparators[0], env)
            op = type(e.ops[0])
            if op in (ast.Lt, ast.Gt, ast.LtE, ast.GtE):
                if op in (ast.Gt, ast.GtE):
                    l, r = r, l
                strict = op in (ast.Lt, ast.Gt)
                if is_lin(l) and is_lin(r):
                    return [('ipos' if strict else 'inn', r.add(l, -1))]
                if kind(l) in ('sc', 'int') and kind(r) in ('sc', 'int'):
                    return [('lt' if strict else 'le', self.to_sc(l, e), self.to_sc(r, e))]
        fail('unsupported test %s' % ast.unparse(e)[:70], e)

    @staticmethod
    def negate(c):
        return c[1] if c[0] == 'not' else ('not', c)

    # ------------------------------------------------------------------ statements
    def assign(self, tgt, v, env, node):
        if isinstance(tgt, ast.Name):
            env[tgt.id] = v
            return
        if isinstance(tgt, ast.Tuple):
            if kind(v) != 'tuple' or len(v[1]) != len(tgt.elts):
                fail('unsupported unpacking', node)
            for t, x in zip(tgt.elts, v[1]):
                self.assign(t, x, env, node)
            return
        if isinstance(tgt, ast.Subscript) and isinstance(tgt.value, ast.Name):
            base = env.get(tgt.value.id)
            if base is not None and kind(base) == 'zeros':
                idx = self.ev(tgt.slice, env)
                if kind(idx) == 'idx' and kind(v) == 'arr':
                    env[tgt.value.id] = ('scatter', base[1], idx, v)
                    return
            fail('unsupported indexed assignment %s' % ast.unparse(tgt)[:60], node)
        fail('unsupported assignment target %s' % ast.unparse(tgt)[:60], node)

    @staticmethod
    def assigned(stmts):
        out = []
        for s in stmts:
            for n in ast.walk(s):
                tg = []
                if isinstance(n, ast.Assign):
                    tg = n.targets
                elif isinstance(n, (ast.AugAssign, ast.AnnAssign)):
                    tg = [n.target]
                elif isinstance(n, (ast.For, ast.While, ast.With, ast.Try, ast.FunctionDef, ast.NamedExpr,
                                    ast.Delete, ast.Global, ast.Nonlocal, ast.Import, ast.ImportFrom)):
                    fail('unsupported statement inside a loop body', n)
                for t in tg:
                    for m in ast.walk(t):
                        if isinstance(m, ast.Name) and isinstance(m.ctx, ast.Store) and m.id not in out:
                            out.append(m.id)
                        if isinstance(m, ast.Subscript) and isinstance(m.value, ast.Name) and m.value.id not in out:
                            out.append(m.value.id)
        return out

    def block(self, stmts, env, top):
        """executes the statements; the value of `return`, or None"""
        for i, s in enumerate(stmts):
            if isinstance(s, ast.Expr) and isinstance(s.value, ast.Constant):
                continue
            if isinstance(s, ast.Pass):
                continue
            if isinstance(s, ast.Assert):
                t = s.test
                if isinstance(t, ast.Call) and ast.unparse(t.func) == 'isinstance' and len(t.args) == 2 \
                        and ast.unparse(t.args[1]) == 'np.ndarray' and isinstance(t.args[0], ast.Name) \
                        and kind(env.get(t.args[0].id)) in ('arr', 'gains', 'idx', 'zeros', 'scatter'):
                    continue            # true of every array value of the domain
                fail('unsupported assert %s' % ast.unparse(t)[:60], s)
            if isinstance(s, ast.Assign):
                if len(s.targets) != 1:
                    fail('multiple assignment targets', s)
                self.assign(s.targets[0], self.ev(s.value, env), env, s)
                continue
            if isinstance(s, ast.AnnAssign):
                if s.value is not None:
                    self.assign(s.target, self.ev(s.value, env), env, s)
                continue
            if isinstance(s, ast.AugAssign):
                if not isinstance(s.target, ast.Name):
                    fail('unsupported augmented assignment', s)
                cur = self.ev(ast.Name(id=s.target.id, ctx=ast.Load()), env)
                env[s.target.id] = self.binop(s.op, cur, self.ev(s.value, env), s)
                continue
            if isinstance(s, ast.Return):
                if s.value is None:
                    fail('return without a value', s)
                if i != len(stmts) - 1:
                    fail('statements after return', s)
                return self.ev(s.value, env)
            if isinstance(s, ast.While) and top:
                self.exec_while(s, env)
                continue
            if isinstance(s, ast.For) and top:
                self.exec_for(s, env)
                continue
            fail('unsupported statement %s' % ast.unparse(s)[:60], s)
        return None

    def set_loop(self, r0, conds, node):
        if self.loop is not None:
            fail('more than one loop', node)
        sc = [c for c in conds if c[0] in ('lt', 'le') or (c[0] == 'not' and c[1][0] in ('lt', 'le'))]
        ic = [c for c in conds if c not in sc]
        self.loop = (r0, sc + ic)

    def exec_while(self, s, env):
        if s.orelse:
            fail('while ... else', s)
        body = strip_doc(s.body)
        names = self.assigned(body)
        for v in names:
            if v not in env:
                fail('%s is first assigned inside the loop (unbound when the loop does not run)' % v, s)
        counters = [v for v in names if is_lin(env[v])
                    and any(isinstance(b, ast.AugAssign) and isinstance(b.target, ast.Name) and b.target.id == v
                            for b in body)]
        if len(counters) != 1:
            fail('the loop must have exactly one integer counter updated by `+= 1` (found %r)' % (counters,), s)
        c = counters[0]
        if not env[c].is_const():
            fail('the initial value of the loop counter %s is not an integer literal' % c, s)
        r0 = env[c]
        eb = dict(env)
        for v in names:
            eb[v] = ('old', v)
        eb[c] = Lin(r=1, c=-1)
        if self.block(body, eb, top=False) is not None:
            fail('return inside the loop', s)
        if not (is_lin(eb[c]) and eb[c].key() == Lin(r=1).key()):
            fail('the loop counter %s is not advanced by exactly 1 per iteration' % c, s)
        for v in names:
            if v == c:
                continue
            if mentions(eb[v], 'old'):
                fail('the loop body computes %s from values of the previous iteration (not a function of the '
                     'counter alone)' % v, s)
            if key(subst_r(eb[v], r0)) != key(env[v]):
                fail('the loop body recomputes %s by another expression than the code before the loop' % v, s)
        et = dict(env)
        for v in names:
            et[v] = eb[v]
        conds = self.conds(s.test, et)
        self.check_live(names, c, eb, conds, s)
        self.set_loop(r0, conds, s)
        for v in names:
            env[v] = eb[v]

    def check_live(self, names, c, eb, conds, node):
        """a recomputed variable whose computation may raise must be used by the loop test (the normal form
        evaluates the state where the test needs it)"""
        ck = repr(key(conds))
        for v in names:
            if v != c and (mentions(eb[v], 'get') or mentions(eb[v], 'prefix')) and repr(key(eb[v])) not in ck:
                fail('%s is recomputed in the loop but not used by the loop test' % v, node)

    def exec_for(self, s, env):
        if s.orelse or not isinstance(s.target, ast.Name):
            fail('unsupported for loop', s)
        it = s.iter
        if not (isinstance(it, ast.Call) and ast.unparse(it.func) == 'range' and 'range' not in env
                and len(it.args) == 3 and not it.keywords):
            fail('unsupported for loop (only `for u in range(A, B, -1)`)', s)
        a, b, st = [self.ev(x, env) for x in it.args]
        if not (is_lin(a) and is_lin(b) and is_lin(st) and st.key() == Lin(c=-1).key() and b.is_const()
                and a.co['r'] == 0 and a.co['n'] >= 0 and a.c - b.c >= 1):
            fail('unsupported range(%s) (a non-empty descending range is required)' % ast.unparse(it)[6:-1], s)
        body = strip_doc(s.body)
        if not body or not (isinstance(body[-1], ast.If) and not body[-1].orelse and len(body[-1].body) == 1
                            and isinstance(body[-1].body[0], ast.Break)):
            fail('the for loop must end with `if <test>: break`', s)
        if any(isinstance(n, (ast.Break, ast.Continue)) for b_ in body[:-1] for n in ast.walk(b_)):
            fail('break / continue elsewhere in the loop', s)
        u = s.target.id
        names = self.assigned(body[:-1])
        if u in names:
            fail('the loop variable is assigned in the body', s)
        eb = dict(env)
        for v in names:
            eb[v] = ('old', v)
        eb[u] = a.add(Lin(r=1), -1)
        if self.block(body[:-1], eb, top=False) is not None:
            fail('return inside the loop', s)
        for v in names:
            if mentions(eb[v], 'old'):
                fail('the loop body computes %s from values of the previous iteration' % v, s)
        stop = self.conds(body[-1].test, eb)
        if len(stop) != 1:
            fail('the break test must be a single comparison', s)
        conds = [self.negate(stop[0]), ('ipos', eb[u].add(Lin(c=1), -1).add(b, -1))]
        self.check_live(names, u, eb, conds, s)
        self.set_loop(Lin(c=0), conds, s)
        for v in names + [u]:
            env[v] = eb[v]


# ---------------------------------------------------------------------------------------------- emission
class Emit:
    """one `do` block: effects (`pyGet`, `pyPrefix`) hoisted in evaluation order, shared subterms bound once"""

    def __init__(self):
        self.lines = []
        self.memo = {}
        self.n = {'a': 0, 'v': 0, 'l': 0}
        self.desc = set()

    def fresh(self, p):
        self.n[p] += 1
        return '%s%d' % (p, self.n[p] - 1)

    def arr(self, v):
        k = repr(key(v))
        if k in self.memo:
            return self.memo[k]
        h = v[0]
        if h == 'sorted':
            self.desc.add(v[1])
            t = 'd'
        elif h == 'sortidx':
            self.desc.add(v[1])
            t = 'idx'
        elif h == 'prefix':
            b = self.arr(v[1])
            t = self.fresh('v')
            self.lines.append('let %s ← pyPrefix %s %s' % (t, b, v[2].lean()))
        elif h == 'map':
            b = self.arr(v[1])
            body = self.sc(v[2])
            t = self.fresh('l')
            self.lines.append('let %s := %s.map (fun x => %s)' % (t, b, body))
        else:
            fail('cannot emit array value %s' % h)
        self.memo[k] = t
        return t

    def sc(self, v):
        h = v[0]
        if h in ('P', 'N', 'Es', 'x'):
            return h
        if h in ('add', 'sub', 'mul', 'div'):
            a, b = self.sc(v[1]), self.sc(v[2])
            return '(%s %s %s)' % (a, {'add': '+', 'sub': '-', 'mul': '*', 'div': '/'}[h], b)
        if h == 'neg':
            return '(0 - %s)' % self.sc(v[1])
        if h == 'cast':
            return '(%s : α)' % v[1].lean()
        if h == 'sum':
            return '%s.sum' % self.arr(v[1])
        if h == 'get':
            k = repr(key(v))
            if k not in self.memo:
                b = self.arr(v[1])
                t = self.fresh('a')
                self.lines.append('let %s ← pyGet %s %s' % (t, b, v[2].lean()))
                self.memo[k] = t
            return self.memo[k]
        fail('cannot emit scalar value %s' % h)

    def cond(self, c):
        if c[0] == 'lt':
            return 'decide (%s < %s)' % (self.sc(c[1]), self.sc(c[2]))
        if c[0] == 'le':
            return 'decide (%s ≤ %s)' % (self.sc(c[1]), self.sc(c[2]))
        if c[0] == 'ipos':
            return 'decide ((0 : Int) < %s)' % c[1].lean()
        if c[0] == 'inn':
            return 'decide ((0 : Int) ≤ %s)' % c[1].lean()
        if c[0] == 'not':
            return '!(%s)' % self.cond(c[1])
        fail('cannot emit test %r' % (c,))

    def text(self, last):
        return '\n'.join('  ' + x for x in self.lines + [last])


SIG = '(d : List α) (idx : List Nat) (P N Es : α) (n r : Nat)'


def gen(repo):
    tree = parse_file(os.path.join(repo, FILE))
    fns = [n for n in tree.body if isinstance(n, ast.FunctionDef) and n.name == FN]
    if len(fns) != 1:
        fail('function %s not found exactly once' % FN)
    fn = fns[0]
    if fn.decorator_list:
        fail('%s is decorated' % FN)
    a = fn.args
    if a.vararg or a.kwarg or a.kwonlyargs or a.posonlyargs or len(a.args) != 4:
        fail('unexpected signature of %s' % FN)
    dfl = [ast.unparse(x) for x in a.defaults]
    if dfl not in (['1.0', '1.0'], ['1', '1']):
        fail('unexpected default values %r (the model has noiseVar=1, Es=1)' % (dfl,))
    g, p, nv, es = [x.arg for x in a.args]
    if [g, p, nv, es] != ['vtChannels', 'dPt', 'noiseVar', 'Es']:
        fail('the parameters of %s were renamed / reordered (keyword callers depend on them): %r' % (FN, [g, p, nv, es]))
    env = {g: ('gains',), p: ('P',), nv: ('N',), es: ('Es',)}
    ex = Exec(tree)
    ret = ex.block(strip_doc(fn.body), env, top=True)
    if ret is None:
        fail('%s does not end with a return' % FN)
    if ex.loop is None:
        fail('no loop found')
    if kind(ret) != 'tuple' or len(ret[1]) != 2 or kind(ret[1][0]) != 'scatter' or kind(ret[1][1]) != 'sc':
        fail('the returned value is not (scattered powers, level)')
    _, size, sidx, vals = ret[1][0]
    if size.key() != Lin(n=1).key():
        fail('the returned array does not have one entry per channel')
    r0, conds = ex.loop
    if not (r0.is_const() and r0.c >= 0):
        fail('negative initial number of removed channels')
    et = Emit()
    test = ' && '.join(et.cond(c) for c in conds)
    ef = Emit()
    ti, tv = ef.arr(sidx), ef.arr(vals)
    mu = ef.sc(ret[1][1])
    desc = et.desc | ef.desc
    if len(desc) != 1:
        fail('the sorted gains and the sort indexes are used in two different orders')
    view = 'asc.reverse' if desc.pop() else 'asc'
    return (HEADER % FILE + '''import PyPhysim.Model.C12Py
/-!
`doWF` as the source states it (normal form of `harness/gen/c12.py`): on the view `d` of the sorted gains and
`idx` of the sort indexes the code works on, `n = vtChannels.size`, `r` = number of removed channels
(the loop counter), Python integer index arithmetic in `Int`.  The whole loop state is a function of `r`:

    r = removed0;  while loopTest r: r += 1;   return finish r

* `sortView`  — which view of `np.argsort`'s (ascending) result the code indexes with
* `removed0`  — the initial number of removed channels
* `loopTest`  — the recomputed loop state (`minMu`, `Ps`) and the test of the loop, as a function of `r`
* `finish`    — the remainder split, the scatter back to the original order and the returned level
* `loop`, `doWFGen` — the fixed skeleton (fuel `n + 1`; `Properties/C12.lean` proves it suffices)
-/
namespace PyPhysim.Generated.C12WaterFilling
open PyPhysim.Proto PyPhysim.C12
set_option linter.unusedVariables false

variable {α : Type} [Add α] [Sub α] [Mul α] [Div α] [Zero α] [NatCast α] [IntCast α]
  [LT α] [DecidableLT α] [LE α] [DecidableLE α]

def sortView (asc : List (α × Nat)) : List (α × Nat) := %s

def removed0 : Nat := %d

def loopTest %s : Except PyErr Bool := do
%s

def finish %s : Except PyErr (List α × α) := do
%s

def loop (d : List α) (idx : List Nat) (P N Es : α) (n : Nat) : Nat → Nat → Except PyErr Nat
  | 0, _ => .error .Fuel
  | fuel + 1, r =>
    match loopTest d idx P N Es n r with
    | .error e => .error e
    | .ok true => loop d idx P N Es n fuel (r + 1)
    | .ok false => .ok r

def doWFGen (asc : List (α × Nat)) (n : Nat) (P N Es : α) : Except PyErr (List α × α) :=
  let d := (sortView asc).map (·.1)
  let idx := (sortView asc).map (·.2)
  match loop d idx P N Es n (n + 1) removed0 with
  | .error e => .error e
  | .ok r => finish d idx P N Es n r

end PyPhysim.Generated.C12WaterFilling
''' % (view, r0.c, SIG, et.text('pure (%s)' % test), SIG,
       ef.text('pure (pyScatter n %s %s, %s)' % (ti, tv, mu))))


TARGETS = {'C12WaterFilling': gen}
