"""Translator plugin for C06, container level: `SimulationResults.add_result`, `append_result`,
`add_new_result`, `merge_all_results` -> Generated/C06Sim.lean.

The control structure of these methods (which results are looked up, validated, merged, copied or
appended, in which order, what is raised when, the "empty self adopts copies" branch, the separate
treatment of 'num_skipped_reps') is re-emitted from the current AST as Lean functions on the
object-level machine `Mach` of Model/C06Heap.lean, written with the primitives of
Model/C06HeapOps.lean (`names`, `size`, `getList`, `last`, `first`, `deref`, `setEntryNewList`,
`listAppend`) and the heap operations of the hand model (`allocRes`, `copyElems`, `mergeR`,
`mergeGuard`, `mkRes`, `createRes`).  Properties/C06.lean proves them equal to the hand model's
`addResult`, `appendResult`, `addNewResult`, `mergeAll`.

Translation rules (compositional; anything else raises TranslateError => tie broken):
  self / other                      a `SimulationResults` address `s` / `o`
  X._results, X[key], len(X), X.get_result_names(), X._results.keys(), list(X._results), `key in …`
                                    `getList` / `size` / `names` / membership in `names`
                                    (`__getitem__`, `__len__`, `get_result_names` are inlined, they must
                                    be single `return` methods)
  L[-1], L[0]                       `last`, `first`  (IndexError on an empty list)
  R.name, R.type_code, R._update_type_code     attributes of the record at address R (`deref`)
  R1._assert_can_merge(R2)          `mergeGuard` of the two records (tied to the source by
                                    Generated/C06Result.lean); R1.merge(R2) = `mergeR`
  Result(name, T)                   `mkRes` (a temporary object: it is only allocated on the heap when it
                                    is stored in a list); Result.create(name, T, v, t) = `createRes`
  D[key] = [r, …]                   `setEntryNewList` (new list object)
  D[key] = [copy.deepcopy(v) for v in L]      `copyElems` (new objects, left to right) + `setEntryNewList`
  L.append(r)                       `listAppend`
  for v in <names>: body            a recursive function over the list of names, which is computed once
                                    before the loop (no break / continue / return inside); a loop directly over a
                                    dictionary / its keys only if the body stores into no dictionary
  [x for x in <names> if c(x)]      the same names with a filter that may only compare the name with literals;
                                    `for x in [y for y in L if c(y)]: B` is emitted as `for x in L: if c(x): B`
  b = <test>                        the test as evaluated on the machine of that moment, used by later `if b`
  if … (closed: no `return`, no local of it used afterwards)   a statement of its own, sequenced with what follows
  if / else, raise E(…), local assignments, calls of other methods of the class through self (inlined)
Convention: a method taking another result set starts by checking that both addresses are valid
(`AttributeError` otherwise, as in the hand model; it cannot happen in Python).
Not translated: `append_all_results` (its loops run over list objects that the body may extend; the hand
model treats that with a fuel / self-feeding test), `combine_simulation_results`, the parameter objects.
"""
import ast
import copy
import os

from harness.translate import HEADER, TranslateError, parse_file, strip_doc
from harness.gen.c06 import TYPES, PYERR, find_class, type_codes

FILE = 'pyphysim/simulations/results.py'
CLASS = 'SimulationResults'
NSR = 'num_skipped_reps'


def fail(msg, node=None):
    where = ' (line %d)' % node.lineno if node is not None and hasattr(node, 'lineno') else ''
    raise TranslateError('C06Sim: ' + msg + where)


def indent(text, n=1):
    pad = '  ' * n
    return '\n'.join(pad + l if l else l for l in text.split('\n'))


def mmatch(scrut, arms):
    return '(match %s with\n%s)' % (scrut, '\n'.join('| %s =>\n%s' % (p_, indent(b)) for p_, b in arms))


def ite(c, a, b):
    return '(if %s then\n%s\nelse\n%s)' % (c, indent(a), indent(b))


class SV:
    def __init__(self, kind, tx=None, py=None):
        self.kind, self.tx, self.py = kind, tx, py


class Cx:
    """translation context: local names, the current machine variable, where `return` goes"""

    def __init__(self, env, m, ret, derefs=None, depth=0):
        self.env, self.m, self.ret, self.derefs, self.depth = env, m, ret, derefs or {}, depth

    def with_m(self, m):
        return Cx(dict(self.env), m, self.ret, {}, self.depth)     # a new machine: cached records are stale

    def copy(self):
        return Cx(dict(self.env), self.m, self.ret, dict(self.derefs), self.depth)


class Gen:
    def __init__(self, cls, rcls, codes, fname):
        self.cls, self.rcls, self.codes, self.fname = cls, rcls, codes, fname
        self.n = 0
        self.loops = 0
        self.dict_writes = 0
        self.ifs = 0
        self.aux = []
        self.stack = []

    def fresh(self, base):
        self.n += 1
        return '%s%d' % (base, self.n)

    def method(self, name, cls=None):
        cls = cls or self.cls
        found = [n for n in cls.body if isinstance(n, ast.FunctionDef) and n.name == name]
        if len(found) != 1:
            fail('method %s.%s: %d definitions' % (cls.name, name, len(found)))
        return found[0]

    def has_method(self, name):
        return any(isinstance(n, ast.FunctionDef) and n.name == name for n in self.cls.body)

    # ------------------------------------------------------------------ Result interface
    def result_attr(self, attr, node):
        """which field of the record a Result attribute / property reads"""
        if attr == 'name':
            return 'name', 'name'
        if attr == '_update_type_code':
            return 'ty', 'ty'
        props = [n for n in self.rcls.body if isinstance(n, ast.FunctionDef) and n.name == attr]
        if len(props) == 1 and [ast.unparse(d) for d in props[0].decorator_list] == ['property']:
            body = strip_doc(props[0].body)
            if len(body) == 1 and isinstance(body[0], ast.Return) and body[0].value is not None:
                src = ast.unparse(body[0].value)
                if src == 'self._update_type_code':
                    return 'ty', 'ty'
                if src == 'self.name':
                    return 'name', 'name'
        fail('unsupported Result attribute %s' % attr, node)

    def record_of(self, v, cx, k, node):
        """Lean term of the attribute record of a Result value (an address is dereferenced once per machine)"""
        if v.kind == 'val':
            return k(v.tx)
        if v.kind != 'ref':
            fail('a Result object is required here, found %s' % v.kind, node)
        key = v.tx
        if key in cx.derefs:
            return k(cx.derefs[key])
        r = self.fresh('r')
        cx.derefs[key] = r
        return mmatch('Ops.deref %s %s' % (cx.m, v.tx),
                      [('.error e', '(%s, some e)' % cx.m), ('.ok %s' % r, k(r))])

    def to_ref(self, v, cx, k, node):
        """address of a Result value; a temporary object is allocated now (it is being stored)"""
        if v.kind == 'ref':
            return k(v, cx)
        if v.kind != 'val':
            fail('a Result object is required here, found %s' % v.kind, node)
        m2, a = self.fresh('m'), self.fresh('a')
        cx2 = cx.with_m(m2)
        new = SV('ref', a)
        for name, old in list(cx2.env.items()):
            if old is v:
                cx2.env[name] = new
        cx2.derefs[a] = v.tx        # the record just allocated
        return '(let (%s, %s) := allocRes %s %s\n%s)' % (m2, a, cx.m, par(v.tx), k(new, cx2))

    # ------------------------------------------------------------------ expressions (CPS: k(value) -> text)
    def ev(self, e, cx, k):
        if isinstance(e, ast.Constant):
            if isinstance(e.value, str):
                return k(SV('name', '"%s"' % e.value.replace('\\', '\\\\').replace('"', '\\"')))
            if isinstance(e.value, bool):
                return k(SV('bool', 'true' if e.value else 'false', py=e.value))
            if isinstance(e.value, int):
                return k(SV('int', py=e.value))
            if e.value is None:
                return k(SV('none'))
            fail('unsupported literal %r' % (e.value,), e)
        if isinstance(e, ast.Name):
            if e.id in cx.env:
                return k(cx.env[e.id])
            if e.id == 'Result':
                return k(SV('cls'))
            if e.id == 'copy':
                return k(SV('copymod'))
            fail('unknown name %s' % e.id, e)
        if isinstance(e, ast.UnaryOp) and isinstance(e.op, ast.USub) and isinstance(e.operand, ast.Constant) \
                and isinstance(e.operand.value, int):
            return k(SV('int', py=-e.operand.value))
        if isinstance(e, ast.Attribute):
            return self.ev(e.value, cx, lambda b: self.attr(b, e, cx, k))
        if isinstance(e, ast.Subscript):
            return self.ev(e.value, cx, lambda b: self.ev(e.slice, cx, lambda i: self.index(b, i, e, cx, k)))
        if isinstance(e, ast.Call):
            return self.call(e, cx, k)
        if isinstance(e, ast.List):
            return self.ev_list(e.elts, [], cx, lambda vs: k(SV('display', py=vs)))
        if isinstance(e, ast.ListComp):
            return self.names_comprehension(e, cx, k)
        fail('unsupported expression %s' % ast.unparse(e)[:70], e)

    def names_comprehension(self, e, cx, k):
        """[x for x in <names> if <test on x>]: the same list of names with a filter; the filter may only compare
        the name with literals (it is evaluated again, per element, by the loop that runs over the list)"""
        g = e.generators
        if len(g) != 1 or g[0].is_async or not isinstance(g[0].target, ast.Name) \
                or not isinstance(e.elt, ast.Name) or e.elt.id != g[0].target.id:
            fail('unsupported list comprehension %s' % ast.unparse(e)[:70], e)
        var = g[0].target.id

        def got(it):
            if it.kind in ('dict', 'keys'):
                it = SV('names', 'Ops.names %s %s' % (cx.m, it.tx))
            if it.kind != 'names':
                fail('comprehension over %s (only over a list of result names)' % it.kind, e)
            filt = list(it.py or [])
            for t in g[0].ifs:
                # pure: it must translate with the element as its only name and without touching the machine
                probe = Cx({var: SV('name', var)}, '‹machine›', None)
                txt = self.cond(t, probe, lambda c: c)
                if '‹machine›' in txt:
                    fail('filter of a comprehension reads the result set: %s' % ast.unparse(t), t)
                filt.append((var, t))
            return k(SV('names', it.tx, py=filt))
        return self.ev(g[0].iter, cx, got)

    def ev_list(self, es, acc, cx, k):
        if not es:
            return k(acc)
        return self.ev(es[0], cx, lambda v: self.ev_list(es[1:], acc + [v], cx, k))

    def attr(self, b, e, cx, k):
        if b.kind == 'sim':
            if e.attr == '_results':
                return k(SV('dict', b.tx))
            if self.has_method(e.attr):
                return k(SV('method', b.tx, py=self.method(e.attr)))
            fail('unsupported attribute %s' % ast.unparse(e), e)
        if b.kind == 'cls':
            for py, ty in TYPES:
                if e.attr == py:
                    return k(SV('ty', '.' + ty))
            if e.attr == 'create':
                return k(SV('create'))
            fail('unsupported attribute Result.%s' % e.attr, e)
        if b.kind in ('ref', 'val'):
            if e.attr in ('_assert_can_merge', 'merge'):
                return k(SV('rmethod', py=(e.attr, b)))
            fld, kind = self.result_attr(e.attr, e)
            return self.record_of(b, cx, lambda r: k(SV(kind, '%s.%s' % (r, fld))), e)
        if b.kind == 'dict' and e.attr == 'keys':
            return k(SV('dmethod', b.tx, py='keys'))
        if b.kind == 'list' and e.attr == 'append':
            return k(SV('lmethod', b.tx, py='append'))
        if b.kind == 'copymod' and e.attr == 'deepcopy':
            return k(SV('deepcopy'))
        fail('unsupported attribute %s' % ast.unparse(e), e)

    def index(self, b, i, e, cx, k):
        if b.kind == 'dict' and i.kind == 'name':
            l = self.fresh('l')
            return mmatch('Ops.getList %s %s %s' % (cx.m, b.tx, par(i.tx)),
                          [('.error e', '(%s, some e)' % cx.m), ('.ok %s' % l, k(SV('list', l)))])
        if b.kind == 'sim':
            return self.inline_value(self.method('__getitem__'), b, [i], e, cx, k)
        if b.kind == 'list' and i.kind == 'int' and i.py in (-1, 0):
            a = self.fresh('a')
            return mmatch('Ops.%s %s %s' % ('last' if i.py == -1 else 'first', cx.m, b.tx),
                          [('.error e', '(%s, some e)' % cx.m), ('.ok %s' % a, k(SV('ref', a)))])
        fail('unsupported subscript %s' % ast.unparse(e), e)

    def inline_value(self, fn, selfv, args, node, cx, k):
        """a method used as a value: it must be `return <expr>`"""
        body = strip_doc(fn.body)
        params = [a.arg for a in fn.args.args]
        if fn.decorator_list or len(body) != 1 or not isinstance(body[0], ast.Return) or body[0].value is None \
                or len(params) != len(args) + 1 or fn.args.vararg or fn.args.kwarg or fn.args.kwonlyargs:
            fail('%s used as a value is not a plain single-return method' % fn.name, node)
        if len(self.stack) > 5 or fn in self.stack:
            fail('recursive call of %s' % fn.name, node)
        env = {params[0]: selfv}
        env.update(zip(params[1:], args))
        inner = Cx(env, cx.m, None, cx.derefs, cx.depth)

        def k2(v):              # what follows the call is translated outside the callee
            self.stack.pop()
            try:
                return k(v)
            finally:
                self.stack.append(fn)
        self.stack.append(fn)
        try:
            return self.ev(body[0].value, inner, k2)
        finally:
            self.stack.pop()

    def num(self, v, node):
        if v.kind == 'int':
            return '(%d : Rat)' % v.py if v.py >= 0 else '(-%d : Rat)' % -v.py
        if v.kind == 'num':
            return v.tx
        fail('a number is required, found %s' % v.kind, node)

    def call(self, e, cx, k):
        f = e.func
        if isinstance(f, ast.Name) and f.id in ('len', 'list') and len(e.args) == 1 and not e.keywords \
                and f.id not in cx.env:
            def got(v):
                if f.id == 'len':
                    if v.kind == 'sim':
                        return self.inline_value(self.method('__len__'), v, [], e, cx, k)
                    if v.kind == 'dict':
                        return k(SV('int', 'Ops.size %s %s' % (cx.m, v.tx)))
                    fail('len() of %s' % v.kind, e)
                if v.kind in ('keys', 'dict'):          # list(d) = list(d.keys()): the keys, in insertion order
                    return k(SV('names', 'Ops.names %s %s' % (cx.m, v.tx)))
                if v.kind == 'names':
                    return k(v)
                fail('list() of %s' % v.kind, e)
            return self.ev(e.args[0], cx, got)

        def with_fn(fn):
            if any(isinstance(a, ast.Starred) for a in e.args) or any(kw.arg is None for kw in e.keywords):
                fail('star arguments', e)
            names = [kw.arg for kw in e.keywords]
            return self.ev_list(list(e.args) + [kw.value for kw in e.keywords], [], cx,
                                lambda vs: self.apply(fn, vs[:len(e.args)], dict(zip(names, vs[len(e.args):])), e, cx, k))
        return self.ev(f, cx, with_fn)

    def arguments(self, params, defaults, args, kw, node, what):
        """bind positional + keyword arguments to `params` (defaults: name -> SV)"""
        if len(args) > len(params):
            fail('too many arguments for %s' % what, node)
        bound = dict(zip(params, args))
        for k_, v in kw.items():
            if k_ not in params or k_ in bound:
                fail('bad keyword %s for %s' % (k_, what), node)
            bound[k_] = v
        for p_ in params:
            if p_ not in bound:
                if p_ not in defaults:
                    fail('missing argument %s of %s' % (p_, what), node)
                bound[p_] = defaults[p_]
        return [bound[p_] for p_ in params]

    def apply(self, fn, args, kw, e, cx, k):
        if fn.kind == 'dmethod' and fn.py == 'keys' and not args and not kw:
            return k(SV('keys', fn.tx))
        if fn.kind == 'method':
            if fn.py.name in ('get_result_names', '__getitem__', '__len__') and not kw:
                return self.inline_value(fn.py, SV('sim', fn.tx), args, e, cx, k)
            fail('%s used as a value' % fn.py.name, e)
        if fn.kind == 'cls':
            # Result(name, update_type_code, accumulate_values=False, choice_num=None)
            init = self.method('__init__', self.rcls)
            params = [a.arg for a in init.args.args][1:]
            if params != ['name', 'update_type_code', 'accumulate_values', 'choice_num'] \
                    or [ast.unparse(d) for d in init.args.defaults] != ['False', 'None']:
                fail('Result.__init__ signature changed', e)
            nm, ty, acc, cn = self.arguments(params, {'accumulate_values': SV('bool', 'false', py=False),
                                                      'choice_num': SV('none')}, args, kw, e, 'Result()')
            if nm.kind != 'name' or ty.kind != 'ty' or acc.kind != 'bool' or cn.kind not in ('none', 'int'):
                fail('unsupported arguments of Result()', e)
            if cn.kind == 'int' and (cn.tx is not None or cn.py < 0):
                fail('unsupported choice_num', e)
            r = self.fresh('r')
            cnt = 'none' if cn.kind == 'none' else '(some %d)' % cn.py
            return mmatch('mkRes %s %s %s %s' % (par(nm.tx), par(ty.tx), acc.tx, cnt),
                          [('.error e', '(%s, some e)' % cx.m), ('.ok %s' % r, k(SV('val', r)))])
        if fn.kind == 'create':
            # Result.create(name, update_type, value, total=0, accumulate_values=False)
            cr = self.method('create', self.rcls)
            params = [a.arg for a in cr.args.args]
            if params != ['name', 'update_type', 'value', 'total', 'accumulate_values'] \
                    or [ast.unparse(d) for d in cr.args.defaults] != ['0', 'False'] \
                    or [ast.unparse(d) for d in cr.decorator_list] != ['staticmethod']:
                fail('Result.create signature changed', e)
            nm, ty, v, t, acc = self.arguments(params, {'total': SV('int', py=0),
                                                        'accumulate_values': SV('bool', 'false', py=False)},
                                               args, kw, e, 'Result.create')
            if nm.kind != 'name' or ty.kind != 'ty' or acc.kind != 'bool':
                fail('unsupported arguments of Result.create', e)
            r = self.fresh('r')
            return mmatch('createRes %s %s %s %s %s' % (par(nm.tx), par(ty.tx), self.num(v, e), self.num(t, e), acc.tx),
                          [('.error e', '(%s, some e)' % cx.m), ('.ok %s' % r, k(SV('val', r)))])
        fail('unsupported call %s' % ast.unparse(e)[:70], e)

    # ------------------------------------------------------------------ conditions: k(lean Prop) -> text
    def cond(self, e, cx, k):
        if isinstance(e, ast.UnaryOp) and isinstance(e.op, ast.Not):
            return self.cond(e.operand, cx, lambda c: k('¬ (%s)' % c))
        if isinstance(e, ast.Name) and e.id in cx.env and cx.env[e.id].kind == 'prop':
            return k(cx.env[e.id].tx)
        if isinstance(e, ast.Compare) and len(e.ops) == 1:
            op = e.ops[0]

            def got(l, r):
                if isinstance(op, (ast.Eq, ast.NotEq)):
                    if l.kind == 'int' and r.kind == 'int':
                        lt = l.tx if l.tx is not None else str(l.py)
                        rt = r.tx if r.tx is not None else str(r.py)
                        if (l.tx is None and l.py < 0) or (r.tx is None and r.py < 0):
                            fail('negative count', e)
                        c = '%s = %s' % (lt, rt)
                    elif l.kind == r.kind and l.kind in ('name', 'ty'):
                        c = '%s = %s' % (l.tx, r.tx)
                    else:
                        fail('unsupported comparison of %s and %s' % (l.kind, r.kind), e)
                    return k(c if isinstance(op, ast.Eq) else '¬ (%s)' % c)
                if isinstance(op, (ast.In, ast.NotIn)) and l.kind == 'name':
                    if r.kind == 'names':
                        if r.py:
                            fail('membership in a filtered list of names', e)
                        c = '%s ∈ %s' % (l.tx, r.tx)
                    elif r.kind in ('keys', 'dict'):
                        c = '%s ∈ Ops.names %s %s' % (l.tx, cx.m, r.tx)
                    else:
                        fail('membership in %s' % r.kind, e)
                    return k(c if isinstance(op, ast.In) else '¬ (%s)' % c)
                fail('unsupported test %s' % ast.unparse(e), e)
            return self.ev(e.left, cx, lambda l: self.ev(e.comparators[0], cx, lambda r: got(l, r)))
        fail('unsupported test %s' % ast.unparse(e)[:70], e)

    # ------------------------------------------------------------------ statements: k(cx) -> text of what follows
    def block(self, stmts, cx, k, sole=False):
        if not stmts:
            return k(cx)
        s, rest = stmts[0], stmts[1:]
        if isinstance(s, ast.If) and not sole and self.closed(s, rest):
            # an `if` none of whose local bindings is used afterwards and which does not `return`: it is a
            # statement of its own (machine -> machine, exception), what follows is not duplicated per branch
            # (also when nothing follows in this block: what follows the block — the rest of a caller — is `k`)
            inner = self.stmt(s, cx, lambda cx2: '(%s, none)' % cx2.m)
            m2 = self.fresh('m')
            return mmatch(inner, [('(%s, some e)' % m2, '(%s, some e)' % m2),
                                  ('(%s, none)' % m2, self.block(rest, cx.with_m(m2), k))])
        return self.stmt(s, cx, lambda cx2: self.block(rest, cx2, k))

    @staticmethod
    def closed(s, rest):
        bound = set()
        for n in ast.walk(s):
            if isinstance(n, ast.Return):
                return False
            if isinstance(n, ast.Name) and isinstance(n.ctx, ast.Store):
                bound.add(n.id)
        used = {n.id for r in rest for n in ast.walk(r) if isinstance(n, ast.Name)}
        return not (bound & used)

    def stmt(self, s, cx, k):
        cx = cx.copy()
        if isinstance(s, ast.Pass) or (isinstance(s, ast.Expr) and isinstance(s.value, ast.Constant)):
            return k(cx)
        if isinstance(s, ast.If):
            return self.cond(s.test, cx, lambda c: ite(c, self.block(s.body, cx.copy(), k),
                                                       self.block(s.orelse, cx.copy(), k)))
        if isinstance(s, ast.Raise):
            exc = s.exc
            name = exc.func.id if isinstance(exc, ast.Call) and isinstance(exc.func, ast.Name) else (
                exc.id if isinstance(exc, ast.Name) else None)
            if name not in PYERR or s.cause is not None:
                fail('unsupported raise', s)
            if isinstance(exc, ast.Call) and not all(isinstance(a, ast.Constant) for a in exc.args):
                fail('exception arguments must be literals', s)
            return '(%s, some .%s)' % (cx.m, name)
        if isinstance(s, ast.Return):
            if s.value is not None and not (isinstance(s.value, ast.Constant) and s.value.value is None):
                fail('return with a value in a mutator', s)
            return cx.ret(cx)
        if isinstance(s, ast.Assign) and len(s.targets) == 1:
            tgt = s.targets[0]
            if isinstance(tgt, ast.Name):
                if tgt.id in cx.env and cx.env[tgt.id].kind == 'sim':
                    fail('rebinding %s' % tgt.id, s)

                def bind(v):
                    if v.kind in ('display', 'method', 'rmethod', 'lmethod', 'dmethod'):
                        fail('unsupported value bound to %s' % tgt.id, s)
                    cx.env[tgt.id] = v
                    return k(cx)
                if isinstance(s.value, ast.Compare) or (
                        isinstance(s.value, ast.UnaryOp) and isinstance(s.value.op, ast.Not)):
                    # a test evaluated now (on the current machine) and used later
                    return self.cond(s.value, cx, lambda c: bind(SV('prop', c)))
                return self.ev(s.value, cx, bind)
            if isinstance(tgt, ast.Subscript):
                return self.ev(tgt.value, cx, lambda d: self.ev(tgt.slice, cx, lambda key: self.store(d, key, s, cx, k)))
            fail('unsupported assignment target', s)
        if isinstance(s, ast.For):
            return self.loop(s, cx, k)
        if isinstance(s, ast.Expr) and isinstance(s.value, ast.Call):
            return self.call_stmt(s.value, cx, k)
        fail('unsupported statement %s' % ast.unparse(s)[:70], s)

    def store(self, d, key, s, cx, k):
        """D[key] = [r, …]   |   D[key] = [copy.deepcopy(v) for v in L]"""
        if d.kind != 'dict' or key.kind != 'name':
            fail('unsupported item assignment', s)
        v = s.value
        if isinstance(v, ast.ListComp):
            if len(v.generators) != 1 or v.generators[0].ifs or v.generators[0].is_async \
                    or not isinstance(v.generators[0].target, ast.Name) \
                    or ast.unparse(v.elt) != 'copy.deepcopy(%s)' % v.generators[0].target.id:
                fail('unsupported list comprehension (only [copy.deepcopy(v) for v in L])', s)

            def got(l):
                if l.kind != 'list':
                    fail('comprehension over %s' % l.kind, s)
                self.dict_writes += 1
                m2, cs, m3 = self.fresh('m'), self.fresh('c'), self.fresh('m')
                return ('(let (%s, %s) := copyElems %s (listAt %s %s)\nlet %s := Ops.setEntryNewList %s %s %s %s\n%s)'
                        % (m2, cs, cx.m, cx.m, l.tx, m3, m2, d.tx, par(key.tx), cs, k(cx.with_m(m3))))
            return self.ev(v.generators[0].iter, cx, got)
        if isinstance(v, ast.List):
            def alloc(vals, refs, cx_):
                if not vals:
                    self.dict_writes += 1
                    m2 = self.fresh('m')
                    return '(let %s := Ops.setEntryNewList %s %s %s [%s]\n%s)' % (
                        m2, cx_.m, d.tx, par(key.tx), ', '.join(r.tx for r in refs), k(cx_.with_m(m2)))
                return self.to_ref(vals[0], cx_, lambda r, cx2: alloc(vals[1:], refs + [r], cx2), s)
            return self.ev_list(v.elts, [], cx, lambda vals: alloc(vals, [], cx))
        fail('unsupported value stored in the dictionary', s)

    def loop(self, s, cx, k):
        if s.orelse or not isinstance(s.target, ast.Name):
            fail('unsupported for loop', s)
        for n in ast.walk(s):
            if isinstance(n, (ast.Break, ast.Continue, ast.Return, ast.While)) or (isinstance(n, ast.For) and n is not s):
                fail('break / continue / return / nested loop inside a for loop', n)

        def got(it):
            live = it.kind in ('dict', 'keys')
            if live:
                # iterating a dictionary = iterating its keys in insertion order; Python refuses a change of its size
                # meanwhile, so the body must not store into any dictionary
                it = SV('names', 'Ops.names %s %s' % (cx.m, it.tx))
            if it.kind != 'names':
                fail('for loop over %s (only over a list of result names)' % it.kind, s)
            body_stmts = s.body
            for var, test in reversed(it.py or []):
                # for x in [y for y in L if c(y)]: B   =   for x in L: if c(x): B
                class Ren(ast.NodeTransformer):
                    def visit_Name(self, n):
                        return ast.copy_location(ast.Name(id=s.target.id, ctx=n.ctx), n) if n.id == var else n
                body_stmts = [ast.copy_location(ast.If(test=Ren().visit(copy.deepcopy(test)), body=body_stmts, orelse=[]), s)]
            writes0 = self.dict_writes
            self.loops += 1
            lname = '%s_loop%d' % (self.fname, self.loops)
            sims = [(name, v) for name, v in cx.env.items() if v.kind == 'sim']
            inner_env = dict(sims)
            inner_env[s.target.id] = SV('name', s.target.id if s.target.id not in ('m', 'rest', 'e', 's', 'o') else s.target.id + '_')
            var = inner_env[s.target.id].tx
            simvars = ' '.join(sorted({v.tx for _, v in sims}, reverse=True))
            call = '%s %s' % (lname, simvars)
            inner = Cx(inner_env, 'm', None)
            inner.ret = None
            body = self.block(body_stmts, inner, lambda cx2: '%s %s rest' % (call, cx2.m))
            if live and self.dict_writes != writes0:
                fail('the loop runs over a dictionary and its body stores into a dictionary', s)
            self.aux.append('def %s (%s : Nat) : Mach → List String → Mach × Option PyErr\n  | m, [] => (m, none)\n'
                            '  | m, %s :: rest =>\n%s\n' % (lname, simvars, var, indent(body, 2)))
            m2 = self.fresh('m')
            return mmatch('%s %s %s' % (call, cx.m, par(it.tx)),
                          [('(%s, some e)' % m2, '(%s, some e)' % m2), ('(%s, none)' % m2, k(cx.with_m(m2)))])
        return self.ev(s.iter, cx, got)

    def call_stmt(self, e, cx, k):
        def with_fn(fn):
            if e.keywords and fn.kind != 'method':
                fail('keyword arguments', e)
            return self.ev_list(list(e.args) + [kw.value for kw in e.keywords], [], cx,
                                lambda vs: self.apply_stmt(fn, vs[:len(e.args)],
                                                           dict(zip([kw.arg for kw in e.keywords], vs[len(e.args):])),
                                                           e, cx, k))
        return self.ev(e.func, cx, with_fn)

    def apply_stmt(self, fn, args, kw, e, cx, k):
        if fn.kind == 'lmethod' and len(args) == 1:
            def app(r, cx2):
                m2 = self.fresh('m')
                return '(let %s := Ops.listAppend %s %s %s\n%s)' % (m2, cx2.m, fn.tx, r.tx, k(cx2.with_m(m2)))
            return self.to_ref(args[0], cx, app, e)
        if fn.kind == 'rmethod' and len(args) == 1:
            meth, recv = fn.py
            other = args[0]
            if meth == '_assert_can_merge':
                return self.record_of(recv, cx, lambda ra: self.record_of(other, cx, lambda rb: mmatch(
                    'mergeGuard %s %s' % (ra, rb), [('some e', '(%s, some e)' % cx.m), ('none', k(cx))]), e), e)
            if recv.kind != 'ref' or other.kind != 'ref':
                fail('merge of / into a temporary object', e)
            m2 = self.fresh('m')
            return mmatch('mergeR %s %s %s' % (cx.m, recv.tx, other.tx),
                          [('(%s, some e)' % m2, '(%s, some e)' % m2), ('(%s, none)' % m2, k(cx.with_m(m2)))])
        if fn.kind == 'method':
            f = fn.py
            if f.decorator_list or f.args.vararg or f.args.kwarg or f.args.kwonlyargs:
                fail('unsupported method %s' % f.name, e)
            if len(self.stack) > 5 or f in self.stack:
                fail('recursive call of %s' % f.name, e)
            params = [a.arg for a in f.args.args]
            dvals = {}
            for p_, d in zip(params[len(params) - len(f.args.defaults):], f.args.defaults):
                if not (isinstance(d, ast.Constant) and isinstance(d.value, int) and not isinstance(d.value, bool)):
                    fail('unsupported default of %s' % f.name, e)
                dvals[p_] = SV('int', py=d.value)
            vals = self.arguments(params[1:], dvals, args, kw, e, f.name)
            env = {params[0]: SV('sim', fn.tx)}
            env.update(zip(params[1:], vals))
            outer = cx

            def back(cx2):
                # the callee's locals die; the machine goes on; what follows is translated outside the callee
                c = Cx(dict(outer.env), cx2.m, outer.ret, dict(cx2.derefs) if cx2.m == outer.m else {}, outer.depth)
                self.stack.pop()
                try:
                    return k(c)
                finally:
                    self.stack.append(f)
            inner = Cx(env, cx.m, back, dict(cx.derefs), cx.depth + 1)
            self.stack.append(f)
            try:
                return self.block(strip_doc(f.body), inner, back)
            finally:
                self.stack.pop()
        fail('unsupported call statement %s' % ast.unparse(e)[:70], e)


def par(t):
    return t if (t.replace('.', '').replace('_', '').isalnum() or t.startswith('"') or t.startswith('(')) else '(%s)' % t


def gen_fn(cls, rcls, codes, pyname, lean, params, doc, two_sims=False):
    """params: list of (python name, lean binder, SV)"""
    g = Gen(cls, rcls, codes, lean)
    fn = g.method(pyname)
    want = [a.arg for a in fn.args.args]
    if fn.decorator_list or want[1:] != [p_[0] for p_ in params] or fn.args.vararg or fn.args.kwarg or fn.args.kwonlyargs:
        fail('%s takes %s, expected %s' % (pyname, want[1:], [p_[0] for p_ in params]))
    env = {want[0]: SV('sim', 's')}
    for py, _, v in params:
        env[py] = v
    top = Cx(env, 'm', lambda cx: '(%s, none)' % cx.m)
    stmts = strip_doc(fn.body)
    body = g.block(stmts, top, lambda cx: '(%s, none)' % cx.m, sole=len(stmts) == 1)
    if two_sims:
        body = ite('s < m.sims.length ∧ o < m.sims.length', body, '(m, some .AttributeError)')
    binders = ' '.join(b for _, b, _ in params)
    return (''.join(a + '\n' for a in g.aux)
            + '/-- %s -/\ndef %s (m : Mach) (s : Nat) %s : Mach × Option PyErr :=\n%s\n' % (doc, lean, binders, indent(body)))


def gen(repo):
    tree = parse_file(os.path.join(repo, FILE))
    cls, rcls = find_class(tree, CLASS), find_class(tree, 'Result')
    codes = type_codes(rcls)
    out = []
    out.append(gen_fn(cls, rcls, codes, 'add_result', 'addResult', [('result', '(a : Nat)', SV('ref', 'a'))],
                      '`SimulationResults.add_result(result)`'))
    out.append(gen_fn(cls, rcls, codes, 'append_result', 'appendResult', [('result', '(a : Nat)', SV('ref', 'a'))],
                      '`SimulationResults.append_result(result)`'))
    fn = Gen(cls, rcls, codes, '').method('add_new_result')
    if [ast.unparse(d) for d in fn.args.defaults] != ['0']:
        fail('add_new_result: `total` must default to 0')
    out.append(gen_fn(cls, rcls, codes, 'add_new_result', 'addNewResult',
                      [('name', '(name : String)', SV('name', 'name')), ('update_type', '(ty : Ty)', SV('ty', 'ty')),
                       ('value', '(v : Rat)', SV('num', 'v')), ('total', '(t : Rat)', SV('num', 't'))],
                      '`SimulationResults.add_new_result(name, update_type, value, total)`'))
    out.append(gen_fn(cls, rcls, codes, 'merge_all_results', 'mergeAll', [('other', '(o : Nat)', SV('sim', 'o'))],
                      '`SimulationResults.merge_all_results(other)`', two_sims=True))
    return (HEADER % (FILE + ' (class SimulationResults: add_result, append_result, add_new_result, '
                             'merge_all_results)')
            + 'import PyPhysim.Model.C06HeapOps\nset_option linter.unusedVariables false\n'
            + 'namespace PyPhysim.Generated.C06Sim\nopen PyPhysim.Proto PyPhysim.C06M\n\n'
            + '\n'.join(out) + '\nend PyPhysim.Generated.C06Sim\n')


TARGETS = {'C06Sim': gen}
