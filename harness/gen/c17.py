"""Translator plugin of C17: Generated/C17Fields.lean is re-emitted from the current AST of
simulations/results.py, simulations/parameters.py and util/serialize.py on every run.

What is extracted (structure only; the VALUES are covered by the token-level correspondence of props/c17.py):

  field tables    `_to_dict` of Result / SimulationResults / SimulationParameters: the (key, attribute) pairs of the
                  returned dictionary, in the order the keys are written (the order is the order of the JSON text).
                  The dictionary may be a literal, `dict(k=...)` or a TypedDict call; a value must be ONE attribute
                  of self, possibly behind a property (`return self._x`), a local name, value-preserving wrappers
                  (`list(..)`, `dict(..)`, `.copy()`, `copy.deepcopy(..)`), a nested `to_dict()` / comprehension of
                  `to_dict()` calls, a private helper method, or a `None if .. is None else ..` choice.
                  `_from_dict`: all straight-line paths of the function (private static helpers are executed in
                  place, an `if` forks the path); on each path every `obj.attr = <expr with d['key']>` is a
                  (key, attribute) pair, a constructor keyword `Cls(kw=d['key'])` is a pair with the attribute the
                  constructor stores `kw` in, and a method call inside `for .. in <expr with d['key']>` is a
                  (key, '@method') pair (the CHOICETYPE replay).  Paths are classified by content (the replay path
                  is the one that passes `choice_num`), so the control flow may be restructured freely.
  encoder ladder  `NumpyOrSetEncoder.default`: the paths in source order, each with the numpy / builtin class it
                  accepts (tuple tests followed by a nested ladder in a private helper are resolved to the single
                  class left) and the JSON form returned; `json_numpy_or_set_obj_hook`: per mark key the form
                  rebuilt and the keys read.
Anything outside this fragment raises TranslateError => "tie broken".
"""
import ast
import os

from harness.translate import HEADER, TranslateError, parse_file

RES = 'pyphysim/simulations/results.py'
PAR = 'pyphysim/simulations/parameters.py'
SER = 'pyphysim/util/serialize.py'

WRAPPERS = {'list', 'dict', 'tuple', 'copy', 'deepcopy'}
WRAP_METHODS = {'copy', 'items', 'values', 'keys', 'to_dict', '_to_dict'}
CLASSES = ('Result', 'SimulationResults', 'SimulationParameters')


def strip_doc(body):
    if body and isinstance(body[0], ast.Expr) and isinstance(getattr(body[0], 'value', None), ast.Constant) \
            and isinstance(body[0].value.value, str):
        return body[1:]
    return body


def find_class(tree, name):
    found = [n for n in tree.body if isinstance(n, ast.ClassDef) and n.name == name]
    if len(found) != 1:
        raise TranslateError('class %s: %d definitions' % (name, len(found)))
    return found[0]


def method(cls, name):
    found = [n for n in cls.body if isinstance(n, ast.FunctionDef) and n.name == name]
    if not found:
        raise TranslateError('%s.%s not found' % (cls.name, name))
    # a property has getter + setter of the same name: the getter comes first
    return found[0]


def is_property(fn):
    return any(isinstance(d, ast.Name) and d.id == 'property' for d in fn.decorator_list)


def prop_target(cls, attr):
    """attribute behind `self.attr` when `attr` is a property whose getter is `return self._x`"""
    for n in cls.body:
        if isinstance(n, ast.FunctionDef) and n.name == attr and is_property(n):
            body = strip_doc(n.body)
            if len(body) == 1 and isinstance(body[0], ast.Return):
                v = body[0].value
                if isinstance(v, ast.Attribute) and isinstance(v.value, ast.Name) and v.value.id == 'self':
                    return v.attr
            raise TranslateError('property %s.%s is not a plain getter' % (cls.name, attr))
    return attr


def local_env(fn):
    """name -> [value expressions] over the whole function (nested defs excluded), nested defs by name"""
    env, funcs = {}, {}

    def visit(stmts):
        for s in stmts:
            if isinstance(s, ast.FunctionDef):
                funcs[s.name] = s
                continue
            if isinstance(s, ast.Assign) and len(s.targets) == 1 and isinstance(s.targets[0], ast.Name):
                env.setdefault(s.targets[0].id, []).append(s.value)
            elif isinstance(s, ast.AnnAssign) and isinstance(s.target, ast.Name) and s.value is not None:
                env.setdefault(s.target.id, []).append(s.value)
            for f in ('body', 'orelse', 'finalbody'):
                if hasattr(s, f) and not isinstance(s, ast.FunctionDef):
                    visit(getattr(s, f))
    visit(fn.body)
    return env, funcs


# ---------------------------------------------------------------------------------------------------------------
# writers


class Writer:
    def __init__(self, cls):
        self.cls = cls

    def attrs(self, e, env, funcs, bound, depth=0):
        """set of attributes of self the value expression is made of (value-preserving forms only)"""
        if depth > 12:
            raise TranslateError('writer: recursion too deep')
        rec = lambda x, b=bound: self.attrs(x, env, funcs, b, depth + 1)
        if isinstance(e, ast.Constant) and e.value is None:
            return set()
        if isinstance(e, ast.Attribute) and isinstance(e.value, ast.Name) and e.value.id == 'self':
            return {prop_target(self.cls, e.attr)}
        if isinstance(e, ast.Name):
            if e.id in bound:
                return set()
            if e.id in env:
                out = set()
                for v in env[e.id]:
                    out |= rec(v)
                return out
            raise TranslateError('writer: unknown name %s' % e.id)
        if isinstance(e, ast.IfExp):
            return rec(e.body) | rec(e.orelse)
        if isinstance(e, (ast.ListComp, ast.DictComp, ast.GeneratorExp)):
            out = set()
            b = set(bound)
            for g in e.generators:
                if g.ifs:
                    raise TranslateError('writer: filtered comprehension')
                out |= self.attrs(g.iter, env, funcs, b, depth + 1)
                b |= {n.id for n in ast.walk(g.target) if isinstance(n, ast.Name)}
            elts = [e.key, e.value] if isinstance(e, ast.DictComp) else [e.elt]
            for x in elts:
                out |= self.attrs(x, env, funcs, b, depth + 1)
            return out
        if isinstance(e, ast.Starred):
            return rec(e.value)
        if isinstance(e, ast.List) and len(e.elts) == 1 and isinstance(e.elts[0], ast.Starred):
            return rec(e.elts[0].value)           # [*x] = list(x)
        if isinstance(e, ast.Call):
            f = e.func
            args = list(e.args) + [k.value for k in e.keywords]
            if isinstance(f, ast.Name) and f.id in WRAPPERS or \
               isinstance(f, ast.Attribute) and isinstance(f.value, ast.Name) and f.value.id == 'copy' \
               and f.attr in ('copy', 'deepcopy'):
                out = set()
                for a in args:
                    out |= rec(a)
                return out
            if isinstance(f, ast.Name) and f.id in funcs:
                g = funcs[f.id]
                out = set()
                for a in args:
                    out |= rec(a)
                genv, gfuncs = local_env(g)
                params = {a.arg for a in g.args.args}
                for r in ast.walk(g):
                    if isinstance(r, ast.Return) and r.value is not None:
                        out |= self.attrs(r.value, genv, gfuncs, bound | params, depth + 1)
                return out
            if isinstance(f, ast.Attribute) and isinstance(f.value, ast.Name) and f.value.id == 'self' \
                    and f.attr.startswith('_') and f.attr not in WRAP_METHODS and not args:
                g = method(self.cls, f.attr)
                genv, gfuncs = local_env(g)
                out = set()
                for r in ast.walk(g):
                    if isinstance(r, ast.Return) and r.value is not None:
                        out |= self.attrs(r.value, genv, gfuncs, set(), depth + 1)
                return out
            if isinstance(f, ast.Attribute) and f.attr in WRAP_METHODS and not args:
                return rec(f.value)
        raise TranslateError('writer: value outside the fragment: %s' % ast.dump(e)[:120])

    def table(self, name='_to_dict'):
        fn = method(self.cls, name)
        env, funcs = local_env(fn)
        rets = [s for s in strip_doc(fn.body) if isinstance(s, ast.Return)]
        if len(rets) != 1:
            raise TranslateError('%s.%s: expected one top-level return' % (self.cls.name, name))
        d = rets[0].value
        seen = 0
        while isinstance(d, ast.Name):
            if len(env.get(d.id, [])) != 1 or seen > 4:
                raise TranslateError('%s.%s: returned name is not assigned once' % (self.cls.name, name))
            d = env[d.id][0]
            seen += 1
        if isinstance(d, ast.Dict):
            items = []
            for k, v in zip(d.keys, d.values):
                if not (isinstance(k, ast.Constant) and isinstance(k.value, str)):
                    raise TranslateError('%s.%s: non-literal key' % (self.cls.name, name))
                items.append((k.value, v))
        elif isinstance(d, ast.Call) and isinstance(d.func, ast.Name) and not d.args \
                and (d.func.id == 'dict' or d.func.id.endswith('AsDict')) \
                and all(k.arg is not None for k in d.keywords):
            items = [(k.arg, k.value) for k in d.keywords]
        else:
            raise TranslateError('%s.%s: returned value is not a dictionary display' % (self.cls.name, name))
        out = []
        for k, v in items:
            a = self.attrs(v, env, funcs, set())
            if len(a) != 1:
                raise TranslateError('%s.%s: key %r is built from %s' % (self.cls.name, name, k, sorted(a)))
            out.append((k, next(iter(a))))
        if len({k for k, _ in out}) != len(out):
            raise TranslateError('%s.%s: duplicate key' % (self.cls.name, name))
        return out


# ---------------------------------------------------------------------------------------------------------------
# readers


def ctor_attrs(cls):
    """constructor parameter -> attribute it is stored in (`self.A = p` / `self.A: T = p`)"""
    try:
        init = method(cls, '__init__')
    except TranslateError:
        return {}
    out = {}
    for s in ast.walk(init):
        tgt = val = None
        if isinstance(s, ast.Assign) and len(s.targets) == 1:
            tgt, val = s.targets[0], s.value
        elif isinstance(s, ast.AnnAssign):
            tgt, val = s.target, s.value
        if isinstance(tgt, ast.Attribute) and isinstance(tgt.value, ast.Name) and tgt.value.id == 'self' \
                and isinstance(val, ast.Name):
            out.setdefault(val.id, tgt.attr)
    return out


class Path:
    def __init__(self):
        self.env = {}        # name -> expr (latest on this path)
        self.objs = {}       # name -> class name
        self.reads = []      # (key, target)
        self.defaults = {}   # key -> default literal (d.get(key, default))
        self.tests = []      # keys examined by `if` tests
        self.flags = set()   # 'choice_num'
        self.dvars = set()
        self.loops = []
        self.funcs = {}
        self.ended = None    # 'return' | 'raise'

    def fork(self):
        p = Path()
        p.env, p.objs, p.reads, p.defaults = dict(self.env), dict(self.objs), list(self.reads), dict(self.defaults)
        p.tests, p.flags, p.dvars, p.loops, p.funcs = list(self.tests), set(self.flags), set(self.dvars), \
            list(self.loops), dict(self.funcs)
        return p


class Reader:
    def __init__(self, classes):
        self.classes = classes       # name -> ClassDef
        self.budget = 400

    def keys_in(self, e, p, depth=0, bound=frozenset()):
        if depth > 10:
            raise TranslateError('reader: recursion too deep')
        out = []

        def add(k):
            if k not in out:
                out.append(k)
        for n in ast.walk(e):
            if isinstance(n, ast.Subscript) and isinstance(n.value, ast.Name) and n.value.id in p.dvars:
                if isinstance(n.slice, ast.Constant) and isinstance(n.slice.value, str):
                    add(n.slice.value)
                else:
                    raise TranslateError('reader: computed key')
            elif isinstance(n, ast.Call) and isinstance(n.func, ast.Attribute) and n.func.attr == 'get' \
                    and isinstance(n.func.value, ast.Name) and n.func.value.id in p.dvars:
                if n.args and isinstance(n.args[0], ast.Constant) and isinstance(n.args[0].value, str):
                    add(n.args[0].value)
                    if len(n.args) > 1:
                        try:
                            p.defaults[n.args[0].value] = ast.literal_eval(n.args[1])
                        except Exception:
                            raise TranslateError('reader: non-literal default')
                else:
                    raise TranslateError('reader: computed key')
            elif isinstance(n, ast.Name) and n.id in p.env and n.id not in bound:
                for k in self.keys_in(p.env[n.id], p, depth + 1, bound | {n.id}):
                    add(k)
        return out

    def ctor(self, e):
        if isinstance(e, ast.Call) and isinstance(e.func, ast.Name) and e.func.id in self.classes:
            return e.func.id
        return None

    def private_call(self, e, p):
        """`Cls._helper(d)` / `self`-less static helper taking the dictionary: (ClassDef, FunctionDef)"""
        if isinstance(e, ast.Call) and isinstance(e.func, ast.Attribute) and isinstance(e.func.value, ast.Name) \
                and e.func.value.id in self.classes and e.func.attr.startswith('_') \
                and e.func.attr not in ('_from_dict',) and len(e.args) == 1 and not e.keywords \
                and isinstance(e.args[0], ast.Name) and e.args[0].id in p.dvars:
            cls = self.classes[e.func.value.id]
            return method(cls, e.func.attr)
        return None

    def run(self, stmts, p, done):
        """execute `stmts` on path p; finished paths are appended to `done`; returns the live paths"""
        live = [p]
        for i, s in enumerate(stmts):
            nxt = []
            for q in live:
                nxt.extend(self.step(s, q, done))
            live = nxt
            if not live:
                break
        return live

    def step(self, s, p, done):
        self.budget -= 1
        if self.budget < 0:
            raise TranslateError('reader: too many paths')
        if isinstance(s, ast.FunctionDef):
            p.funcs[s.name] = s
            return [p]
        if isinstance(s, ast.Expr) and isinstance(s.value, ast.Constant):
            return [p]
        if isinstance(s, ast.Pass):
            return [p]
        if isinstance(s, ast.AnnAssign) and s.value is None:
            return [p]
        if isinstance(s, (ast.Assign, ast.AnnAssign)):
            tgt = s.targets[0] if isinstance(s, ast.Assign) else s.target
            if isinstance(s, ast.Assign) and len(s.targets) != 1:
                raise TranslateError('reader: chained assignment')
            val = s.value
            if isinstance(tgt, ast.Name):
                c = self.ctor(val)
                if c is not None:
                    p.objs[tgt.id] = c
                    amap = ctor_attrs(self.classes[c])
                    if val.args:
                        raise TranslateError('reader: positional constructor argument')
                    for kw in val.keywords:
                        if kw.arg is None:
                            raise TranslateError('reader: **kwargs')
                        ks = self.keys_in(kw.value, p)
                        if kw.arg == 'choice_num':
                            p.flags.add('choice_num')
                        for k in ks:
                            p.reads.append((k, amap.get(kw.arg, '@' + kw.arg)))
                else:
                    p.env[tgt.id] = sub_names(val, p.env)
                    self.keys_in(val, p)      # records defaults, refuses computed keys
                return [p]
            if isinstance(tgt, ast.Attribute) and isinstance(tgt.value, ast.Name) and tgt.value.id in p.objs:
                ks = self.keys_in(val, p)
                if len(ks) > 1:
                    raise TranslateError('reader: %s built from keys %s' % (tgt.attr, ks))
                cls = self.classes[p.objs[tgt.value.id]]
                for k in ks:
                    p.reads.append((k, prop_target(cls, tgt.attr)))
                if not ks and not isinstance(val, ast.Constant):
                    raise TranslateError('reader: %s assigned from something that is not the dictionary' % tgt.attr)
                return [p]
            raise TranslateError('reader: assignment target outside the fragment')
        if isinstance(s, ast.If):
            for k in self.keys_in(s.test, p):
                if k not in p.tests:
                    p.tests.append(k)
            a, b = p, p.fork()
            out = self.run(s.body, a, done)
            out += self.run(s.orelse, b, done)
            return out
        if isinstance(s, ast.For):
            ks = self.keys_in(s.iter, p)
            p.loops.append(ks)
            if s.orelse:
                raise TranslateError('reader: for/else')
            live = self.run(s.body, p, done)
            for q in live:
                q.loops.pop()
            return live
        if isinstance(s, ast.Expr) and isinstance(s.value, ast.Call):
            f = s.value.func
            if isinstance(f, ast.Attribute) and isinstance(f.value, ast.Name) and f.value.id in p.objs:
                ks = []
                for l in p.loops:
                    ks += [k for k in l if k not in ks]
                for a in list(s.value.args) + [k.value for k in s.value.keywords]:
                    ks += [k for k in self.keys_in(a, p) if k not in ks]
                for k in ks:
                    if (k, '@' + f.attr) not in p.reads:
                        p.reads.append((k, '@' + f.attr))
                return [p]
            raise TranslateError('reader: call statement outside the fragment')
        if isinstance(s, ast.Return):
            g = self.private_call(s.value, p) if s.value is not None else None
            if g is not None:
                q = p.fork()
                q.env, q.objs, q.loops, q.funcs = {}, {}, [], {}
                q.dvars = {g.args.args[0].arg}
                live = self.run(strip_doc(g.body), q, done)
                if live:
                    raise TranslateError('reader: helper %s may fall off its end' % g.name)
                return []
            if isinstance(s.value, ast.Name) and s.value.id in p.objs:
                p.ended = 'return'
                done.append(p)
                return []
            raise TranslateError('reader: return of something that is not the object built')
        if isinstance(s, ast.Raise):
            p.ended = 'raise'
            done.append(p)
            return []
        raise TranslateError('reader: statement outside the fragment: %s' % type(s).__name__)

    def paths(self, clsname, name='_from_dict'):
        fn = method(self.classes[clsname], name)
        p = Path()
        p.dvars = {fn.args.args[0].arg}
        done = []
        live = self.run(strip_doc(fn.body), p, done)
        if live:
            raise TranslateError('%s.%s may fall off its end' % (clsname, name))
        return [q for q in done if q.ended == 'return']


def norm_reads(reads):
    return sorted(set(reads))


def class_constants(cls):
    out = {}
    for s in cls.body:
        if isinstance(s, ast.Assign) and len(s.targets) == 1:
            t, v = s.targets[0], s.value
            if isinstance(t, ast.Name) and isinstance(v, ast.Constant) and isinstance(v.value, int):
                out[t.id] = v.value
            if isinstance(t, ast.Tuple) and all(isinstance(x, ast.Name) for x in t.elts):
                if isinstance(v, ast.Call) and isinstance(v.func, ast.Name) and v.func.id == 'range' \
                        and len(v.args) == 1 and isinstance(v.args[0], ast.Constant) \
                        and v.args[0].value == len(t.elts):
                    for i, x in enumerate(t.elts):
                        out[x.id] = i
                elif isinstance(v, ast.Tuple) and all(isinstance(x, ast.Constant) for x in v.elts):
                    for x, y in zip(t.elts, v.elts):
                        out[x.id] = y.value
    return out


# ---------------------------------------------------------------------------------------------------------------
# encoder ladder

TYPE_TAGS = {'np.ndarray': 'ndarray', 'np.bool_': 'npbool', 'np.integer': 'npint', 'np.floating': 'npfloat',
             'set': 'set', 'np.complexfloating': 'npcomplex', 'complex': 'complex', 'frozenset': 'frozenset',
             'tuple': 'tuple', 'np.generic': 'npgeneric', 'np.number': 'npnumber', 'bool': 'bool', 'int': 'int',
             'float': 'float'}


def dotted(e):
    if isinstance(e, ast.Name):
        return e.id
    if isinstance(e, ast.Attribute):
        b = dotted(e.value)
        return None if b is None else b + '.' + e.attr
    return None


def type_tags(e):
    elts = e.elts if isinstance(e, ast.Tuple) else [e]
    out = []
    for x in elts:
        d = dotted(x)
        if d not in TYPE_TAGS:
            raise TranslateError('encoder: unknown class in isinstance: %s' % ast.dump(x)[:80])
        out.append(TYPE_TAGS[d])
    return out


class Ladder:
    """paths of a function of one argument made of isinstance tests on it"""

    def __init__(self, module):
        self.module = module
        self.funcs = {n.name: n for n in module.body if isinstance(n, ast.FunctionDef)}
        self.out = []        # (conds, return expr, arg name, env)
        self.budget = 200

    def cond(self, t, arg):
        """(tags, polarity)"""
        if isinstance(t, ast.UnaryOp) and isinstance(t.op, ast.Not):
            tags, pol = self.cond(t.operand, arg)
            return tags, not pol
        if isinstance(t, ast.Call) and isinstance(t.func, ast.Name) and t.func.id == 'isinstance' \
                and len(t.args) == 2 and isinstance(t.args[0], ast.Name) and t.args[0].id == arg:
            return type_tags(t.args[1]), True
        raise TranslateError('encoder: test outside the fragment: %s' % ast.dump(t)[:100])

    def run(self, stmts, arg, conds, env):
        """returns True when every path through stmts ended"""
        for i, s in enumerate(stmts):
            self.budget -= 1
            if self.budget < 0:
                raise TranslateError('encoder: too many paths')
            if isinstance(s, ast.Expr) and isinstance(s.value, ast.Constant):
                continue
            if isinstance(s, ast.AnnAssign) and s.value is None:
                continue
            if isinstance(s, (ast.Assign, ast.AnnAssign)):
                tgt = s.targets[0] if isinstance(s, ast.Assign) else s.target
                if not isinstance(tgt, ast.Name):
                    raise TranslateError('encoder: assignment target')
                env = dict(env)
                env[tgt.id] = s.value
                continue
            if isinstance(s, ast.If):
                tags, pol = self.cond(s.test, arg)
                rest = stmts[i + 1:]
                e1 = self.run(list(s.body) + rest, arg, conds + [(tags, pol)], env)
                e2 = self.run(list(s.orelse) + rest, arg, conds + [(tags, not pol)], env)
                if not (e1 and e2):
                    raise TranslateError('encoder: a path falls off the end')
                return True
            if isinstance(s, ast.Return):
                v = s.value
                seen = 0
                while isinstance(v, ast.Name) and v.id in env and seen < 5:
                    v = env[v.id]
                    seen += 1
                # private module helper called on the argument: executed in place
                if isinstance(v, ast.Call) and isinstance(v.func, ast.Name) and v.func.id in self.funcs \
                        and v.func.id.startswith('_') and len(v.args) == 1 and not v.keywords \
                        and isinstance(v.args[0], ast.Name) and v.args[0].id == arg:
                    g = self.funcs[v.func.id]
                    if not self.run(strip_doc(g.body), g.args.args[0].arg, conds, {}):
                        raise TranslateError('encoder: helper %s falls off its end' % g.name)
                    return True
                self.out.append((conds, v, arg))
                return True
            if isinstance(s, ast.Raise):
                self.out.append((conds, None, arg))
                return True
            raise TranslateError('encoder: statement outside the fragment: %s' % type(s).__name__)
        return False


def accepted_class(conds):
    """the single class a path accepts: the classes of its last positive test minus those refused before;
    None for a path with no positive test (the fallback)"""
    neg, pos = [], None
    for tags, pol in conds:
        if pol:
            pos = [t for t in tags if t not in neg] if pos is None else [t for t in pos if t in tags]
        else:
            if pos is not None:
                pos = [t for t in pos if t not in tags]
            neg += tags
    if pos is None:
        return None
    if len(pos) != 1:
        raise TranslateError('encoder: a path accepts the classes %s' % pos)
    return pos[0]


def is_arg(e, arg):
    return isinstance(e, ast.Name) and e.id == arg


def value_tag(v, arg):
    if isinstance(v, ast.Constant) and v.value is True:
        return 'true'
    if isinstance(v, ast.Call) and isinstance(v.func, ast.Attribute) and v.func.attr == 'tolist' \
            and is_arg(v.func.value, arg) and not v.args:
        return 'tolist'
    if isinstance(v, ast.Call) and isinstance(v.func, ast.Name) and v.func.id == 'str' and len(v.args) == 1 \
            and isinstance(v.args[0], ast.Attribute) and v.args[0].attr == 'dtype' and is_arg(v.args[0].value, arg):
        return 'dtype'
    if isinstance(v, ast.Attribute) and v.attr == 'dtype' and isinstance(v.value, ast.Attribute):
        pass
    if isinstance(v, ast.Attribute) and v.attr == 'name' and isinstance(v.value, ast.Attribute) \
            and v.value.attr == 'dtype' and is_arg(v.value.value, arg):
        return 'dtype'                      # obj.dtype.name = str(obj.dtype) for the numeric dtypes
    if isinstance(v, ast.Attribute) and v.attr == 'shape' and is_arg(v.value, arg):
        return 'shape'
    if isinstance(v, ast.Call) and isinstance(v.func, ast.Name) and v.func.id in ('list', 'tuple') \
            and len(v.args) == 1 and isinstance(v.args[0], ast.Attribute) and v.args[0].attr == 'shape' \
            and is_arg(v.args[0].value, arg):
        return 'shape'
    if isinstance(v, ast.Call) and isinstance(v.func, ast.Name) and v.func.id == 'list' and len(v.args) == 1 \
            and is_arg(v.args[0], arg):
        return 'list'
    if isinstance(v, ast.List) and len(v.elts) == 1 and isinstance(v.elts[0], ast.Starred) \
            and is_arg(v.elts[0].value, arg):
        return 'list'
    raise TranslateError('encoder: field value outside the fragment: %s' % ast.dump(v)[:100])


def form_of(v, arg):
    if isinstance(v, ast.Call) and isinstance(v.func, ast.Name) and v.func.id in ('bool', 'int', 'float') \
            and len(v.args) == 1 and is_arg(v.args[0], arg) and not v.keywords:
        return {'bool': '.toBool', 'int': '.toInt', 'float': '.toFloat'}[v.func.id]
    if isinstance(v, ast.Call) and isinstance(v.func, ast.Attribute) and v.func.attr == 'item' \
            and is_arg(v.func.value, arg) and not v.args:
        return '.item'
    if isinstance(v, ast.Dict):
        fs = []
        for k, x in zip(v.keys, v.values):
            if not (isinstance(k, ast.Constant) and isinstance(k.value, str)):
                raise TranslateError('encoder: non-literal key')
            fs.append((k.value, value_tag(x, arg)))
        return '.obj [%s]' % ', '.join('(%s, %s)' % (lstr(k), lstr(t)) for k, t in fs)
    if isinstance(v, ast.Call) and isinstance(v.func, ast.Name) and v.func.id == 'dict' and not v.args:
        fs = [(k.arg, value_tag(k.value, arg)) for k in v.keywords]
        return '.obj [%s]' % ', '.join('(%s, %s)' % (lstr(k), lstr(t)) for k, t in fs)
    raise TranslateError('encoder: returned form outside the fragment: %s' % ast.dump(v)[:100])


def is_super_default(v):
    return isinstance(v, ast.Call) and isinstance(v.func, ast.Attribute) and v.func.attr == 'default'


def encoder_ladder(tree):
    cls = find_class(tree, 'NumpyOrSetEncoder')
    fn = method(cls, 'default')
    arg = fn.args.args[1].arg
    lad = Ladder(tree)
    if not lad.run(strip_doc(fn.body), arg, [], {}):
        raise TranslateError('encoder: default falls off its end')
    out = []
    fallback = False
    for conds, v, a in lad.out:
        c = accepted_class(conds)
        if c is None:
            if v is not None and not is_super_default(v):
                raise TranslateError('encoder: the fallback is not super().default')
            fallback = True
            continue
        if v is None:
            raise TranslateError('encoder: a class is refused by a raise')
        out.append((c, form_of(v, a)))
    if not fallback:
        raise TranslateError('encoder: no fallback path')
    return out


# ---------------------------------------------------------------------------------------------------------------
# decoder hook


class Hook:
    def __init__(self, module):
        self.funcs = {n.name: n for n in module.body if isinstance(n, ast.FunctionDef)}
        self.out = []        # (marks tested positive in order, checks `is True`, return expr, keys read, env)
        self.budget = 200

    def atoms(self, t, d):
        """conjunction of atoms: ('dict', pol) | ('in', key, pol) | ('true', key, pol)"""
        if isinstance(t, ast.BoolOp) and isinstance(t.op, ast.And):
            out = []
            for v in t.values:
                out += self.atoms(v, d)
            return out
        if isinstance(t, ast.UnaryOp) and isinstance(t.op, ast.Not):
            a = self.atoms(t.operand, d)
            if len(a) != 1:
                raise TranslateError('hook: negated conjunction')
            return [a[0][:-1] + (not a[0][-1],)]
        if isinstance(t, ast.Call) and isinstance(t.func, ast.Name) and t.func.id == 'isinstance' \
                and is_arg(t.args[0], d) and dotted(t.args[1]) == 'dict':
            return [('dict', True)]
        if isinstance(t, ast.Compare) and len(t.ops) == 1:
            l, op, r = t.left, t.ops[0], t.comparators[0]
            if isinstance(op, (ast.In, ast.NotIn)) and isinstance(l, ast.Constant) and is_arg(r, d):
                return [('in', l.value, isinstance(op, ast.In))]
            if isinstance(op, (ast.Is, ast.IsNot)) and isinstance(r, ast.Constant) and r.value is True \
                    and isinstance(l, ast.Subscript) and is_arg(l.value, d) and isinstance(l.slice, ast.Constant):
                return [('true', l.slice.value, isinstance(op, ast.Is))]
        raise TranslateError('hook: test outside the fragment: %s' % ast.dump(t)[:100])

    def run(self, stmts, d, conds, env):
        for i, s in enumerate(stmts):
            self.budget -= 1
            if self.budget < 0:
                raise TranslateError('hook: too many paths')
            if isinstance(s, ast.Expr) and isinstance(s.value, ast.Constant):
                continue
            if isinstance(s, (ast.Assign, ast.AnnAssign)):
                tgt = s.targets[0] if isinstance(s, ast.Assign) else s.target
                if not isinstance(tgt, ast.Name) or s.value is None:
                    raise TranslateError('hook: assignment target')
                env = dict(env)
                env[tgt.id] = sub_names(s.value, env)
                continue
            if isinstance(s, ast.If):
                at = self.atoms(s.test, d)
                rest = stmts[i + 1:]
                e1 = self.run(list(s.body) + rest, d, conds + at, env)
                # the negation of a conjunction: only the shapes `A`, `dict and A` are split exactly
                neg = [a for a in at if a[0] != 'dict']
                if len(neg) > 1:
                    raise TranslateError('hook: conjunction of several key tests')
                nconds = conds + [a[:-1] + (not a[-1],) for a in (neg if neg else at)]
                e2 = self.run(list(s.orelse) + rest, d, nconds, env)
                if not (e1 and e2):
                    raise TranslateError('hook: a path falls off the end')
                return True
            if isinstance(s, ast.Return):
                v = sub_names(s.value, env)
                if isinstance(v, ast.Call) and isinstance(v.func, ast.Name) and v.func.id in self.funcs \
                        and v.func.id.startswith('_') and len(v.args) == 1 and is_arg(v.args[0], d):
                    g = self.funcs[v.func.id]
                    if not self.run(strip_doc(g.body), g.args.args[0].arg, conds, {}):
                        raise TranslateError('hook: helper %s falls off its end' % g.name)
                    return True
                self.out.append((conds, v, d))
                return True
            if isinstance(s, ast.Raise):
                self.out.append((conds, None, d))
                return True
            raise TranslateError('hook: statement outside the fragment: %s' % type(s).__name__)
        return False


class _Sub(ast.NodeTransformer):
    def __init__(self, env):
        self.env = env

    def visit_Name(self, n):
        if isinstance(n.ctx, ast.Load) and n.id in self.env:
            return self.env[n.id]
        return n


def sub_names(e, env):
    import copy
    return _Sub(env).visit(copy.deepcopy(e)) if env else e


def dict_keys_read(v, d):
    out = []
    for n in ast.walk(v):
        k = None
        if isinstance(n, ast.Subscript) and is_arg(n.value, d) and isinstance(n.slice, ast.Constant):
            k = n.slice.value
        if isinstance(n, ast.Call) and isinstance(n.func, ast.Attribute) and n.func.attr == 'get' \
                and is_arg(n.func.value, d) and n.args and isinstance(n.args[0], ast.Constant):
            k = n.args[0].value
        if k is not None and k not in out:
            out.append(k)
    return out


def hook_form(v, d):
    """what the returned expression rebuilds"""
    calls = [dotted(n.func) or ('.' + n.func.attr if isinstance(n.func, ast.Attribute) else '?')
             for n in ast.walk(v) if isinstance(n, ast.Call)]
    if is_arg(v, d):
        return 'same'
    if 'np.array' in calls or 'np.asarray' in calls:
        extra = [c for c in calls if c not in ('np.array', 'np.asarray', d + '.get') and not (c or '').endswith('.reshape')]
        if extra:
            raise TranslateError('hook: array form with other calls %s' % extra)
        return 'ndarray'
    if isinstance(v, ast.Call) and dotted(v.func) == 'set' and len(v.args) == 1:
        return 'set'
    if isinstance(v, ast.Set) and len(v.elts) == 1 and isinstance(v.elts[0], ast.Starred):
        return 'set'
    raise TranslateError('hook: returned form outside the fragment: %s' % ast.dump(v)[:100])


def hook_ladder(tree):
    fn = [n for n in tree.body if isinstance(n, ast.FunctionDef) and n.name == 'json_numpy_or_set_obj_hook']
    if len(fn) != 1:
        raise TranslateError('json_numpy_or_set_obj_hook not found')
    fn = fn[0]
    d = fn.args.args[0].arg
    h = Hook(tree)
    if not h.run(strip_doc(fn.body), d, [], {}):
        raise TranslateError('hook: falls off its end')
    entries = []       # [mark, form, keys]
    refused = []       # marks with a raise path when the mark is not True
    for conds, v, dn in h.out:
        marks = [a[1] for a in conds if a[0] == 'in' and a[2]]
        if not marks:
            if v is None or hook_form(v, dn) != 'same':
                raise TranslateError('hook: a dictionary without mark is not returned as it is')
            continue
        mark = marks[0]
        checked = [a for a in conds if a[0] == 'true' and a[1] == mark]
        if v is None:
            if not (checked and not checked[-1][2]):
                raise TranslateError('hook: raise on a path that does not refuse a mark')
            if mark not in refused:
                refused.append(mark)
            continue
        if not (checked and checked[-1][2]):
            raise TranslateError('hook: mark %r is not compared with True' % mark)
        form = hook_form(v, dn)
        keys = [k for k in dict_keys_read(v, dn) if k != mark]
        for a in conds:         # keys only tested for presence ('shape' in dct) count as read when used
            pass
        for e in entries:
            if e[0] == mark and e[1] == form:
                e[2] += [k for k in keys if k not in e[2]]
                break
        else:
            entries.append([mark, form, keys])
    for e in entries:
        if e[0] not in refused:
            raise TranslateError('hook: mark %r set to something else than True is not refused' % e[0])
    return [(m, f, sorted(k)) for m, f, k in entries]


# ---------------------------------------------------------------------------------------------------------------
# emission


def lstr(s):
    if not isinstance(s, str) or '"' in s or '\\' in s or '\n' in s:
        raise TranslateError('string %r cannot be emitted' % (s,))
    return '"%s"' % s


def pairs(xs):
    return '[' + ', '.join('(%s, %s)' % (lstr(a), lstr(b)) for a, b in xs) + ']'


def lint(v):
    if isinstance(v, bool) or not isinstance(v, int):
        raise TranslateError('default %r is not an integer' % (v,))
    return '(%d : Int)' % v if v >= 0 else '(-%d : Int)' % -v


def gen(repo):
    res = parse_file(os.path.join(repo, RES))
    par = parse_file(os.path.join(repo, PAR))
    ser = parse_file(os.path.join(repo, SER))
    classes = {'Result': find_class(res, 'Result'), 'SimulationResults': find_class(res, 'SimulationResults'),
               'SimulationParameters': find_class(par, 'SimulationParameters')}
    out = []

    # ---- Result
    w = Writer(classes['Result']).table()
    paths = Reader(classes).paths('Result')
    choice = [p for p in paths if 'choice_num' in p.flags]
    plain = [p for p in paths if 'choice_num' not in p.flags]
    if not choice or not plain:
        raise TranslateError('Result._from_dict: expected a replay path and a field-by-field path')
    ctab = {tuple(norm_reads(p.reads)) for p in choice}
    ptab = {tuple(norm_reads(p.reads)) for p in plain}
    if len(ctab) != 1 or len(ptab) != 1:
        raise TranslateError('Result._from_dict: paths of the same kind read different fields')
    tests = set()
    for p in paths:
        tests |= set(p.tests)
    consts = class_constants(classes['Result'])
    if 'CHOICETYPE' not in consts:
        raise TranslateError('Result.CHOICETYPE is not a literal')
    # the dispatch must compare the type code with CHOICETYPE
    fn_src = ast.dump(method(classes['Result'], '_from_dict'))
    if 'CHOICETYPE' not in fn_src:
        raise TranslateError('Result._from_dict does not mention CHOICETYPE')
    if any(p.defaults for p in paths):
        raise TranslateError('Result._from_dict: unexpected default')
    out.append('/-- `Result._to_dict`: (key, attribute), in the order written -/')
    out.append('def resultWrites : List (String × String) :=\n  %s' % pairs(w))
    out.append('/-- `Result._from_dict`, field-by-field path: (key, attribute it is stored in), sorted -/')
    out.append('def resultReadsPlain : List (String × String) :=\n  %s' % pairs(next(iter(ptab))))
    out.append('/-- `Result._from_dict`, replay path (the one passing `choice_num`): `@update` = replayed by '
               '`update` calls,\n    `@choice_num` = constructor argument that is not stored -/')
    out.append('def resultReadsChoice : List (String × String) :=\n  %s' % pairs(next(iter(ctab))))
    out.append('/-- keys the dispatch between the two paths looks at -/')
    out.append('def resultDispatchKeys : List String := [%s]' % ', '.join(lstr(k) for k in sorted(tests)))
    out.append('def choiceTypeCode : Int := %s' % lint(consts['CHOICETYPE']))

    # ---- SimulationResults
    w = Writer(classes['SimulationResults']).table()
    paths = Reader(classes).paths('SimulationResults')
    tabs = {tuple(norm_reads(p.reads)) for p in paths}
    dfl = {tuple(sorted(p.defaults.items())) for p in paths}
    if len(tabs) != 1 or len(dfl) != 1:
        raise TranslateError('SimulationResults._from_dict: paths read different fields')
    out.append('/-- `SimulationResults._to_dict` -/')
    out.append('def simWrites : List (String × String) :=\n  %s' % pairs(w))
    out.append('/-- `SimulationResults._from_dict` -/')
    out.append('def simReads : List (String × String) :=\n  %s' % pairs(next(iter(tabs))))
    out.append('/-- keys read with `d.get(key, default)` -/')
    out.append('def simReadDefaults : List (String × Int) := [%s]'
               % ', '.join('(%s, %s)' % (lstr(k), lint(v)) for k, v in next(iter(dfl))))

    # ---- SimulationParameters
    w = Writer(classes['SimulationParameters']).table()
    paths = Reader(classes).paths('SimulationParameters')
    tabs = {tuple(norm_reads(p.reads)) for p in paths}
    if len(tabs) != 1 or any(p.defaults for p in paths):
        raise TranslateError('SimulationParameters._from_dict: paths read different fields')
    out.append('/-- `SimulationParameters._to_dict` -/')
    out.append('def paramsWrites : List (String × String) :=\n  %s' % pairs(w))
    out.append('/-- `SimulationParameters._from_dict` -/')
    out.append('def paramsReads : List (String × String) :=\n  %s' % pairs(next(iter(tabs))))

    # ---- encoder / hook
    lad = encoder_ladder(ser)
    out.append('/-- JSON form a branch of `NumpyOrSetEncoder.default` returns; field tags of `obj`: `tolist`, '
               '`dtype`\n    (`str(obj.dtype)`), `true`, `shape`, `list` (`list(obj)`) -/')
    out.append('inductive Form where\n  | toBool | toInt | toFloat | item\n  | obj (fields : List (String × String))\n'
               '  deriving DecidableEq, Repr')
    out.append('/-- `NumpyOrSetEncoder.default`: (class accepted, form), in test order; anything else goes to '
               '`super().default` -/')
    out.append('def encLadder : List (String × Form) :=\n  [%s]'
               % ',\n   '.join('(%s, %s)' % (lstr(c), f) for c, f in lad))
    hk = hook_ladder(ser)
    out.append('/-- `json_numpy_or_set_obj_hook`: (mark key compared with `True`, what is rebuilt, other keys read), '
               'in test order;\n    a mark that is not `True` raises, a dictionary without mark is returned as it is -/')
    out.append('def hookLadder : List (String × String × List String) :=\n  [%s]'
               % ',\n   '.join('(%s, %s, [%s])' % (lstr(m), lstr(f), ', '.join(lstr(k) for k in ks))
                               for m, f, ks in hk))
    return (HEADER % ', '.join([RES, PAR, SER]) + 'namespace PyPhysim.Generated.C17Fields\n\n'
            + '\n\n'.join(out).replace('-/\n\n', '-/\n') + '\n\nend PyPhysim.Generated.C17Fields\n')


TARGETS = {'C17Fields': gen}
