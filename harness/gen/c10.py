"""Translator plugin for C10: Generated/C10Effects.lean.

Re-emits, from the current `pyphysim/ia/iabase.py` and `pyphysim/ia/algorithms.py`,
the *effect tables* of `IASolverBaseClass` and of every solver class derived from
it (see `harness/gen/_effects.py` for the analysis and its fragment):

  * for `IASolverBaseClass`: one row per public method / property getter / property
    setter (private helpers such as `_clear_*`, `_calc_equivalent_channel` inlined,
    whatever they are called);
  * for every concrete solver class (discovered in the AST: every class whose base
    chain reaches `IASolverBaseClass` and that has no abstract member left): the rows
    of the inherited interface resolved for that class (overrides first) that write
    or fill something, the row of `solve`, and the rows of its `_updateF` / `_updateW`;
  * the attributes an object of each class has after `__init__`;
  * for every lazily filled attribute the attributes its fill reads.

`Properties/C10.lean` (lemmas in `Proofs/C10Gen.lean`) compares the tables with the
effect of the model's `step` on the eight attributes and proves the sufficiency
condition on the generated tables.
"""
import ast
import os

from harness.translate import parse_file
from harness.gen._effects import Analyzer, TranslateError, lean_module, lean_list, selftest

SRCS = ['pyphysim/ia/iabase.py', 'pyphysim/ia/algorithms.py']
BASE = 'IASolverBaseClass'
STEP_METHODS = ['_updateF', '_updateW']


def chain_classes(trees):
    """every class of the two modules whose base chain reaches IASolverBaseClass (definition order)"""
    defs = [n for t in trees for n in t.body if isinstance(n, ast.ClassDef)]
    by_name = {}
    for d in defs:
        if d.name in by_name:
            raise TranslateError('class %s defined twice' % d.name)
        by_name[d.name] = d
    if BASE not in by_name:
        raise TranslateError('class %s not found' % BASE)
    keep = {BASE}
    changed = True
    while changed:
        changed = False
        for d in defs:
            if d.name not in keep and any(ast.unparse(b) in keep for b in d.bases):
                keep.add(d.name)
                changed = True
    return [d for d in defs if d.name in keep]


def is_concrete(an, cname):
    names = set()
    for c in an.mro(cname):
        names |= set(an.members(c))
    for n in names:
        _, m = an.lookup(cname, n)
        if m is not None and m.abstract:
            return False
    return True


def analyse(repo):
    trees = [parse_file(os.path.join(repo, s)) for s in SRCS]
    defs = chain_classes(trees)
    an = Analyzer(defs)
    classes = [BASE] + [d.name for d in defs if d.name != BASE and is_concrete(an, d.name)]
    abstract = [d.name for d in defs if d.name not in classes]
    rows = list(an.rows(BASE))
    for c in classes[1:]:
        priv = [m for m in STEP_METHODS if an.lookup(c, m)[0] is not None]
        for r in an.rows(c, include_private=priv):
            if r['clears'] or r['assigns'] or r['mayWrite'] or r['fills'] or r['name'] in STEP_METHODS:
                rows.append(r)
    return an, classes, abstract, rows


def gen(repo):
    selftest()
    an, classes, abstract, rows = analyse(repo)
    extra = ('/-- classes of the chain that still have abstract members (no rows) -/\n'
             'def abstractClasses : List String := %s\n\n'
             '/-- the iteration steps whose rows are listed for the concrete solvers -/\n'
             'def stepMethods : List String := %s' % (lean_list(abstract), lean_list(STEP_METHODS)))
    return lean_module('PyPhysim.Generated.C10Effects',
                       'pyphysim/ia/iabase.py (IASolverBaseClass), pyphysim/ia/algorithms.py (the solver classes)',
                       classes, an, rows, extra=extra)


TARGETS = {'C10Effects': gen}
