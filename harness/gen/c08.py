"""Translator plugin for C08: Generated/C08Effects.lean.

Re-emits, from the current `pyphysim/channels/multiuser.py`, the *effect
tables* of `MultiUserChannelMatrix` and `MultiUserChannelMatrixExtInt`
(see `harness/gen/_effects.py` for the analysis and its fragment): for every
public method / property getter / property setter of each class — overrides
resolved per class, private helpers and explicit base-class calls inlined — the
attributes it resets on every normal path, assigns, writes on some paths only,
may fill lazily, and reads; the attributes an object has after `__init__`; and for
every lazily filled attribute the attributes its fill reads.

`Properties/C08.lean` (bridge theorems, lemmas in `Proofs/C08Gen.lean`) compares
these tables with the effect of the model's `step` and proves the sufficiency
condition "whoever writes an attribute resets or rewrites every derived attribute
that (transitively) reads it" on the generated tables.
"""
import ast
import os

from harness.translate import parse_file
from harness.gen._effects import Analyzer, TranslateError, lean_module, selftest

SRC = 'pyphysim/channels/multiuser.py'
CLASSES = ['MultiUserChannelMatrix', 'MultiUserChannelMatrixExtInt']


def analyse(repo):
    tree = parse_file(os.path.join(repo, SRC))
    defs = [n for n in tree.body if isinstance(n, ast.ClassDef) and n.name in CLASSES]
    if sorted(d.name for d in defs) != sorted(CLASSES):
        raise TranslateError('classes %s not found exactly once in %s' % (CLASSES, SRC))
    an = Analyzer(defs)
    rows = []
    for c in CLASSES:
        rows += an.rows(c)
    return an, rows


def gen(repo):
    selftest()
    an, rows = analyse(repo)
    return lean_module('PyPhysim.Generated.C08Effects', SRC + ' (MultiUserChannelMatrix, MultiUserChannelMatrixExtInt)',
                       CLASSES, an, rows)


TARGETS = {'C08Effects': gen}
