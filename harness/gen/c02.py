"""Translator plugin for C02: Generated/OfdmIndex.lean.

Re-emits, from the current source of `pyphysim/modulators/ofdm.py`, the integer
/ index code of the `OFDM` class:

  * `set_parameters`                (guard ladder -> `Except PyErr (Int × Int × Int)`)
  * `_calc_zeropad`                 (`int(np.ceil(float(a) / b))` -> `ceilDivInt a b`)
  * `_get_subcarrier_numbers`, `_get_used_subcarrier_numbers`,
    `get_used_subcarrier_indexes`   (numpy idioms on 1-D int arrays)
  * `_calculate_power_scale`        (scalar expression, polymorphic)

Fragment (anything else raises TranslateError => "tie broken"):
  ints:   literals, locals, `self.fft_size|cp_size|num_used_subcarriers`, parameters,
          `+ - * // %`, unary minus, `int(np.ceil(float(a) / b))`
  arrays: `np.arange(e)`, `np.r_[a:b]`, `np.hstack([..])`, `np.fft.fftshift(x)`,
          `x[a:b]` / `x[a:]` / `x[:b]`, `array ± int`, `int + array`,
          `self.<translated method>()`
  stmts:  `name = e`, `return e`, `return e1, e2`, `if a == b: return e`,
          `if <cmp> [or <cmp>]: raise ValueError(..)`, `if x is None: x = e`,
          `x = operator.index(x)` (identity on ints), `self.attr = e`
The numpy idioms are mapped to the list functions of `PyPhysim.Model.C02`
(`npArange`, `npR`, `fftshift`, `pySlice`, `ceilDivInt`).

Equivalent spellings that reach the same Lean text (harmless rewrites keep the tie):
  * function bodies are first brought to the decision-tree normal form of `harness.gen.norm`
    (guard clause == else branch, single exit == one return per leaf, `!=` test == `==` test with the
    branches swapped, `v = e; return v` == `return e`, conditional expressions == if/else)
  * `math.ceil(float(a) / b)` [optionally inside `int(..)`] == `int(np.ceil(float(a) / b))`: both are the
    exact ceiling, as a Python int, of the same binary64 quotient
  * `np.arange(a, b)` / `np.arange(a, b, 1)` == `np.r_[a:b]` (numpy defines `r_[a:b]` as that `arange`)
  * `np.concatenate(<seq>)` / `np.concatenate(<seq>, axis=0)` == `np.hstack(<seq>)` on 1-D arrays
  * `array + int` == `int + array`, `i + j` == `j + i`, `i * j` == `j * i` on (unbounded) ints: the two
    operands are emitted in a fixed order (names before literals, then alphabetically)
  * `x[:b]` == `x[0:b]` (step 1)
  * in `set_parameters`: `if x is None: x = d` followed by `x = operator.index(x)` == the same with the
    `operator.index` in an `else:` branch (the identity on the ints the fragment is about)
"""
import ast
import os

from harness.translate import TranslateError, parse_file, find_fn, HEADER, strip_doc
from harness.gen import norm

FILE = 'pyphysim/modulators/ofdm.py'
ATTRS = ['fft_size', 'cp_size', 'num_used_subcarriers']
METHODS = {'_get_subcarrier_numbers': 'get_subcarrier_numbers',
           '_get_used_subcarrier_numbers': 'get_used_subcarrier_numbers',
           'get_used_subcarrier_indexes': 'get_used_subcarrier_indexes'}


def _is_np(e, *path):
    """e is the attribute chain np.<path...>"""
    for name in reversed(path):
        if not (isinstance(e, ast.Attribute) and e.attr == name):
            return False
        e = e.value
    return isinstance(e, ast.Name) and e.id == 'np'


def _is_math_ceil(f):
    return isinstance(f, ast.Attribute) and f.attr == 'ceil' and isinstance(f.value, ast.Name) and f.value.id == 'math'


def _self_attr(e):
    if isinstance(e, ast.Attribute) and isinstance(e.value, ast.Name) and e.value.id == 'self':
        return e.attr
    return None


class Tr:
    """expression translator with two types: 'int' and 'arr'"""

    def __init__(self, env, sigs):
        self.env = dict(env)      # python name -> (lean term, type)
        self.sigs = sigs          # lean function name -> list of attrs it takes
        self.attrs = set()        # self attributes referenced (directly or through calls)

    def ex(self, e):
        if isinstance(e, ast.Constant) and isinstance(e.value, int) and not isinstance(e.value, bool):
            return '(%d : Int)' % e.value, 'int'
        if isinstance(e, ast.Name) and e.id in self.env:
            return self.env[e.id]
        a = _self_attr(e)
        if a in ATTRS:
            self.attrs.add(a)
            return a, 'int'
        if isinstance(e, ast.UnaryOp) and isinstance(e.op, ast.USub):
            t, ty = self.ex(e.operand)
            if ty != 'int':
                raise TranslateError('unary minus on an array')
            return '(- %s)' % t, 'int'
        if isinstance(e, ast.BinOp):
            (l, lt), (r, rt) = self.ex(e.left), self.ex(e.right)
            op = {ast.Add: '+', ast.Sub: '-', ast.Mult: '*'}.get(type(e.op))
            if lt == 'int' and rt == 'int':
                if op in ('+', '*'):
                    # commutative on Int: fixed operand order (names before literals, then alphabetically)
                    l, r = sorted((l, r), key=lambda t: (t.startswith('(') and t.endswith(': Int)'), t))
                if op:
                    return '(%s %s %s)' % (l, op, r), 'int'
                if isinstance(e.op, ast.FloorDiv):
                    return '(Int.fdiv %s %s)' % (l, r), 'int'
                if isinstance(e.op, ast.Mod):
                    return '(Int.fmod %s %s)' % (l, r), 'int'
            if lt == 'arr' and rt == 'int' and op == '+':
                return '(%s.map (fun v => %s + v))' % (l, r), 'arr'          # == int + array
            if lt == 'arr' and rt == 'int' and op == '-':
                return '(%s.map (fun v => v %s %s))' % (l, op, r), 'arr'
            if lt == 'int' and rt == 'arr' and op == '+':
                return '(%s.map (fun v => %s + v))' % (r, l), 'arr'
            raise TranslateError('unsupported binary operation ' + ast.dump(e)[:120])
        if isinstance(e, ast.Subscript):
            # np.r_[a:b]
            if _is_np(e.value, 'r_') and isinstance(e.slice, ast.Slice) and e.slice.step is None \
                    and e.slice.lower is not None and e.slice.upper is not None:
                (a, at), (b, bt) = self.ex(e.slice.lower), self.ex(e.slice.upper)
                if at == bt == 'int':
                    return '(npR %s %s)' % (a, b), 'arr'
            v, vt = self.ex(e.value)
            if vt == 'arr' and isinstance(e.slice, ast.Slice) and e.slice.step is None:
                def bound(x):
                    if x is None:
                        return 'none'
                    t, ty = self.ex(x)
                    if ty != 'int':
                        raise TranslateError('slice bound is not an int')
                    return '(some %s)' % t
                lower = bound(e.slice.lower) if e.slice.lower is not None else '(some (0 : Int))'
                return '(pySlice %s %s %s)' % (v, lower, bound(e.slice.upper)), 'arr'
            raise TranslateError('unsupported subscript ' + ast.dump(e)[:120])
        if isinstance(e, ast.Call) and _is_np(e.func, 'concatenate') and len(e.args) == 1 \
                and isinstance(e.args[0], (ast.List, ast.Tuple)) \
                and all(k.arg == 'axis' and isinstance(k.value, ast.Constant) and k.value.value == 0
                        and isinstance(k.value.value, int) for k in e.keywords) and len(e.keywords) <= 1:
            # on 1-D arrays np.concatenate(seq[, axis=0]) IS np.hstack(seq)
            e = ast.Call(func=ast.Attribute(value=ast.Name(id='np', ctx=ast.Load()), attr='hstack', ctx=ast.Load()),
                         args=e.args, keywords=[])
        if isinstance(e, ast.Call) and not e.keywords:
            f = e.func
            if _is_np(f, 'arange') and len(e.args) == 1:
                t, ty = self.ex(e.args[0])
                if ty == 'int':
                    return '(npArange %s)' % t, 'arr'
            if _is_np(f, 'arange') and (len(e.args) == 2 or (len(e.args) == 3 and isinstance(e.args[2], ast.Constant)
                                                             and e.args[2].value == 1 and isinstance(e.args[2].value, int))):
                (a, at), (b, bt) = self.ex(e.args[0]), self.ex(e.args[1])
                if at == bt == 'int':
                    return '(npR %s %s)' % (a, b), 'arr'                     # np.r_[a:b] IS np.arange(a, b)
            if _is_np(f, 'fft', 'fftshift') and len(e.args) == 1:
                t, ty = self.ex(e.args[0])
                if ty == 'arr':
                    return '(fftshift %s)' % t, 'arr'
            if _is_np(f, 'hstack') and len(e.args) == 1 and isinstance(e.args[0], (ast.List, ast.Tuple)):
                parts = [self.ex(x) for x in e.args[0].elts]
                if parts and all(ty == 'arr' for _, ty in parts):
                    return '(' + ' ++ '.join(t for t, _ in parts) + ')', 'arr'
            m = _self_attr(f)
            if m in METHODS and not e.args and METHODS[m] in self.sigs:
                need = self.sigs[METHODS[m]]
                self.attrs.update(need)
                return '(%s %s)' % (METHODS[m], ' '.join(need)) if need else METHODS[m], 'arr'
            # int(np.ceil(float(a) / b)) == math.ceil(float(a) / b) == int(math.ceil(float(a) / b))
            c = None
            if isinstance(f, ast.Name) and f.id == 'int' and len(e.args) == 1:
                c = e.args[0]
                if not (isinstance(c, ast.Call) and not c.keywords and (_is_np(c.func, 'ceil') or _is_math_ceil(c.func))):
                    c = None
            elif _is_math_ceil(f):
                c = e
            if c is not None:
                if len(c.args) == 1 \
                        and isinstance(c.args[0], ast.BinOp) and isinstance(c.args[0].op, ast.Div):
                    num, den = c.args[0].left, c.args[0].right
                    if isinstance(num, ast.Call) and isinstance(num.func, ast.Name) and num.func.id == 'float' \
                            and len(num.args) == 1:
                        (a, at), (b, bt) = self.ex(num.args[0]), self.ex(den)
                        if at == bt == 'int':
                            return '(ceilDivInt %s %s)' % (a, b), 'int'
        raise TranslateError('C02 fragment: unsupported expression ' + ast.dump(e)[:160])

    CMP = {ast.Lt: '<', ast.LtE: '≤', ast.Gt: '>', ast.GtE: '≥', ast.Eq: '=', ast.NotEq: '≠'}

    def cond(self, t):
        if isinstance(t, ast.BoolOp) and isinstance(t.op, (ast.Or, ast.And)):
            j = ' ∨ ' if isinstance(t.op, ast.Or) else ' ∧ '
            return '(' + j.join(self.cond(v) for v in t.values) + ')'
        if isinstance(t, ast.Compare) and len(t.ops) == 1 and type(t.ops[0]) in self.CMP:
            (a, at), (b, bt) = self.ex(t.left), self.ex(t.comparators[0])
            op = type(t.ops[0])
            if op in (ast.Gt, ast.GtE) and not (b.startswith('(') and b.endswith(': Int)')):
                # `a > b` is emitted as `b < a` (what Lean's `>` unfolds to), so the mirrored spelling of a
                # comparison between two non-literals gives the same text
                a, b, op = b, a, {ast.Gt: ast.Lt, ast.GtE: ast.LtE}[op]
            if at == bt == 'int':
                return '(%s %s %s)' % (a, self.CMP[op], b)
        raise TranslateError('C02 fragment: unsupported condition ' + ast.dump(t)[:160])


def _ordered(attrs):
    return [a for a in ATTRS if a in attrs]


def _is_raise_value_error(body):
    return (len(body) == 1 and isinstance(body[0], ast.Raise) and body[0].exc is not None
            and ((isinstance(body[0].exc, ast.Call) and isinstance(body[0].exc.func, ast.Name)
                  and body[0].exc.func.id == 'ValueError')
                 or (isinstance(body[0].exc, ast.Name) and body[0].exc.id == 'ValueError')))


def body_to_lean(tr, stmts, ind='  '):
    """pure function bodies in decision-tree normal form: assignments, `if c: <tree> else: <tree>`, final return"""
    if not stmts:
        raise TranslateError('function body falls off the end')
    s, rest = stmts[0], stmts[1:]
    if isinstance(s, ast.Assign) and len(s.targets) == 1 and isinstance(s.targets[0], ast.Name):
        t, ty = tr.ex(s.value)
        name = s.targets[0].id
        tr.env[name] = (name, ty)
        return '%slet %s := %s\n' % (ind, name, t) + body_to_lean(tr, rest, ind)
    if isinstance(s, ast.Return) and s.value is not None:
        if rest:
            raise TranslateError('code after return')
        if isinstance(s.value, ast.Tuple):
            return ind + '(' + ', '.join(tr.ex(x)[0] for x in s.value.elts) + ')\n'
        return ind + tr.ex(s.value)[0] + '\n'
    if isinstance(s, ast.If) and s.orelse and not rest and norm.terminates(s.body) and norm.terminates(s.orelse):
        c = tr.cond(s.test)
        sub = Tr(tr.env, tr.sigs)
        a = body_to_lean(sub, s.body, ind + '  ')
        tr.attrs |= sub.attrs
        b = body_to_lean(tr, s.orelse, ind + '  ')
        return '%sif %s then\n%s%selse\n%s' % (ind, c, a, ind, b)
    raise TranslateError('C02 fragment: unsupported statement ' + ast.dump(s)[:160])


def normal_body(fn):
    return norm.tail_form(norm.canon_fn(fn).body, True, collapse=True)


def emit_pure(cls_tree, pyname, leanname, params, sigs, ret):
    fn = find_fn(cls_tree, pyname, cls='OFDM')
    args = [a.arg for a in fn.args.args if a.arg != 'self']
    if args != params:
        raise TranslateError('%s: parameters %s, expected %s' % (pyname, args, params))
    tr = Tr({p: (p, 'int') for p in params}, sigs)
    body = body_to_lean(tr, normal_body(fn))
    need = _ordered(tr.attrs)
    sigs[leanname] = need
    binder = ' '.join(need + params)
    return '/-- `OFDM.%s` -/\ndef %s%s : %s :=\n%s' % (
        pyname, leanname, (' (%s : Int)' % binder) if binder else '', ret, body)


def emit_guard(cls_tree):
    """set_parameters: guards -> ValueError, None default, final attribute assignments"""
    fn = find_fn(cls_tree, 'set_parameters', cls='OFDM')
    args = [a.arg for a in fn.args.args if a.arg != 'self']
    if args != ATTRS:
        raise TranslateError('set_parameters: parameters %s' % args)
    defaults = fn.args.defaults
    if not (len(defaults) == 1 and isinstance(defaults[0], ast.Constant) and defaults[0].value is None):
        raise TranslateError('set_parameters: expected exactly one default (None)')
    opt = ATTRS[2]
    tr = Tr({ATTRS[0]: (ATTRS[0], 'int'), ATTRS[1]: (ATTRS[1], 'int')}, {})
    out, assigned, ind = '', {}, '  '

    def is_index_identity(s):
        # `name = operator.index(name)`: the identity on the ints the fragment is about (coercion of numpy integer
        # scalars to python ints; anything that is not an integer raises TypeError before any guard)
        return (isinstance(s, ast.Assign) and len(s.targets) == 1 and isinstance(s.targets[0], ast.Name)
                and isinstance(s.value, ast.Call) and isinstance(s.value.func, ast.Attribute)
                and s.value.func.attr == 'index' and isinstance(s.value.func.value, ast.Name)
                and s.value.func.value.id == 'operator' and len(s.value.args) == 1 and not s.value.keywords
                and isinstance(s.value.args[0], ast.Name) and s.value.args[0].id == s.targets[0].id)

    # decision-tree normal form: a guard `if c: raise` is followed by the rest of the body in its else branch
    todo = norm.tail_form(norm.canon_fn(fn).body, True)
    while todo:
        s = todo.pop(0)
        if isinstance(s, ast.Assign) and len(s.targets) == 1 and isinstance(s.targets[0], ast.Name) \
                and isinstance(s.value, ast.Constant) and isinstance(s.value.value, str):
            continue                                    # msg = "..."
        if (is_index_identity(s) and s.targets[0].id in tr.env and tr.env[s.targets[0].id][1] == 'int'
                and not assigned):
            continue
        if isinstance(s, ast.If):
            t = s.test
            if (isinstance(t, ast.Compare) and isinstance(t.left, ast.Name) and t.left.id == opt
                    and len(t.ops) == 1 and isinstance(t.ops[0], ast.Is)
                    and isinstance(t.comparators[0], ast.Constant) and t.comparators[0].value is None
                    and len(s.body) == 1 and isinstance(s.body[0], ast.Assign)
                    and len(s.body[0].targets) == 1 and isinstance(s.body[0].targets[0], ast.Name)
                    and s.body[0].targets[0].id == opt and opt not in tr.env
                    # the value given explicitly is used as it is (possibly through `operator.index`)
                    and (not s.orelse or (len(s.orelse) == 1 and is_index_identity(s.orelse[0])
                                          and s.orelse[0].targets[0].id == opt))):
                d, ty = tr.ex(s.body[0].value)
                if ty != 'int':
                    raise TranslateError('default of %s is not an int' % opt)
                out += '%slet %s : Int := match %s? with | none => %s | some v => v\n' % (ind, opt, opt, d)
                tr.env[opt] = (opt, 'int')
                continue
            body = [b for b in s.body if not (isinstance(b, ast.Assign) and isinstance(b.value, ast.Constant)
                                              and isinstance(b.value.value, str))]
            if _is_raise_value_error(body):
                if assigned:
                    raise TranslateError('guard after attribute assignment')
                out += '%sif %s then .error .ValueError else\n' % (ind, tr.cond(t))
                todo = list(s.orelse) + todo
                continue
        a = _self_attr(s.targets[0]) if isinstance(s, ast.Assign) and len(s.targets) == 1 else None
        if a in ATTRS:
            t, ty = tr.ex(s.value)
            if ty != 'int' or tr.attrs:
                raise TranslateError('attribute assignment outside the fragment')
            assigned[a] = t
            continue
        raise TranslateError('set_parameters: unsupported statement ' + ast.dump(s)[:160])
    if sorted(assigned) != sorted(ATTRS):
        raise TranslateError('set_parameters: assigned attributes %s' % sorted(assigned))
    if tr.attrs:
        raise TranslateError('set_parameters reads self attributes')
    out += '%s.ok (%s)\n' % (ind, ', '.join(assigned[a] for a in ATTRS))
    return ('/-- `OFDM.set_parameters`: `.ok (fft_size, cp_size, num_used_subcarriers)` as assigned to the\n'
            '    object, or the exception raised before anything is assigned -/\n'
            'def set_parameters (%s %s : Int) (%s? : Option Int) : Except PyErr (Int × Int × Int) :=\n%s'
            % (ATTRS[0], ATTRS[1], opt, out))


def emit_scale(cls_tree):
    fn = find_fn(cls_tree, '_calculate_power_scale', cls='OFDM')
    body = normal_body(fn)
    if not (len(body) == 1 and isinstance(body[0], ast.Return) and body[0].value is not None):
        raise TranslateError('_calculate_power_scale: expected `x = e; return x` / `return e`')

    def sc(e):
        a = _self_attr(e)
        if a in ATTRS:
            return '(%s : α)' % a
        if isinstance(e, ast.Call) and isinstance(e.func, ast.Name) and e.func.id == 'float' and len(e.args) == 1:
            return sc(e.args[0])
        if isinstance(e, ast.BinOp):
            if isinstance(e.op, ast.Pow) and isinstance(e.right, ast.Constant) and e.right.value == 2:
                return '(%s * %s)' % (sc(e.left), sc(e.left))
            op = {ast.Add: '+', ast.Mult: '*', ast.Div: '/'}.get(type(e.op))
            if op:
                return '(%s %s %s)' % (sc(e.left), op, sc(e.right))
        raise TranslateError('_calculate_power_scale: unsupported expression ' + ast.dump(e)[:160])
    return ('/-- `OFDM._calculate_power_scale` -/\n'
            'def calculate_power_scale {α : Type} [Add α] [Mul α] [Div α] [NatCast α] (%s : Nat) : α :=\n  %s\n'
            % (' '.join(ATTRS), sc(body[0].value)))


def gen_ofdm_index(repo):
    tree = parse_file(os.path.join(repo, FILE))
    sigs = {}
    parts = [emit_guard(tree),
             emit_pure(tree, '_calc_zeropad', 'calc_zeropad', ['input_data_size'], sigs, 'Int × Int'),
             emit_pure(tree, '_get_subcarrier_numbers', 'get_subcarrier_numbers', [], sigs, 'List Int'),
             emit_pure(tree, '_get_used_subcarrier_numbers', 'get_used_subcarrier_numbers', [], sigs, 'List Int'),
             emit_pure(tree, 'get_used_subcarrier_indexes', 'get_used_subcarrier_indexes', [], sigs, 'List Int'),
             emit_scale(tree)]
    return (HEADER % FILE
            + 'import PyPhysim.Model.C02\nopen PyPhysim.Proto PyPhysim.C02\n'
            + 'set_option linter.unusedVariables false\nnamespace PyPhysim.Generated.C02\n\n'
            + '\n'.join(parts) + '\nend PyPhysim.Generated.C02\n')


TARGETS = {'OfdmIndex': gen_ofdm_index}
