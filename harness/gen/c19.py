"""Translator plugin of C19: the literal tables of the cell geometry.

Generated/C19Tables.lean is re-emitted from the current source on every run:

  hexStepDeg        degrees of `np.linspace(0, 240, 5)` in Hexagon._get_vertex_positions
  hexVertexCount    `np.zeros(6, dtype=complex)` there
  circleVertexCount `num_vertexes = 12` in Circle._get_vertex_positions
  sec3Pick          which vertices of which sector hexagon make up the 3-sector cell
                    (`aux = [sec1.vertices[[0, 1]], ...]` in Cell3Sec._get_vertex_positions; the contiguous
                    spelling `sec1.vertices[0:2]` with literal bounds inside the vertex count is the same list)
  sec3HexRotation   rotation of the three sector hexagons there
  ring1Deg/ring2Deg angles of the two rings of Cluster._calc_cell_positions_hexagon
  ring1Dist/ring2Dists  ring distances as (multiples of the radius, multiples of the height)
  ring1End          `min(num_cells, 7)`
  ring2Start        `range(7, num_cells)`

Only the exact source shapes below are accepted; anything else raises => "tie broken".
The theorem `source_tables` of Properties/C19.lean states that these are the constants the
hand-written model uses.
"""
import ast
import os
from fractions import Fraction

from harness.translate import HEADER, TranslateError, find_fn, parse_file


def _num(e):
    """int / float literal (possibly negated) as a Fraction"""
    if isinstance(e, ast.UnaryOp) and isinstance(e.op, ast.USub):
        return -_num(e.operand)
    if isinstance(e, ast.Constant) and isinstance(e.value, (int, float)) and not isinstance(e.value, bool):
        return Fraction(e.value).limit_denominator(10 ** 9) if isinstance(e.value, float) else Fraction(e.value)
    raise TranslateError('not a numeric literal: ' + ast.dump(e)[:80])


def _is_pi(e):
    return (isinstance(e, ast.Attribute) and e.attr == 'pi' and isinstance(e.value, ast.Name)
            and e.value.id in ('np', 'math'))


def _pi_multiple(e):
    """expression built from numeric literals, np.pi, * and /  ->  Fraction multiple of pi (0 allowed)"""
    def go(x):
        # returns (coefficient, power of pi)
        if _is_pi(x):
            return Fraction(1), 1
        if isinstance(x, ast.BinOp) and isinstance(x.op, ast.Mult):
            a, p = go(x.left)
            b, q = go(x.right)
            return a * b, p + q
        if isinstance(x, ast.BinOp) and isinstance(x.op, ast.Div):
            a, p = go(x.left)
            b, q = go(x.right)
            if b == 0:
                raise TranslateError('division by zero')
            return a / b, p - q
        return _num(x), 0
    c, p = go(e)
    if c == 0:
        return Fraction(0)
    if p != 1:
        raise TranslateError('not a multiple of pi: ' + ast.dump(e)[:80])
    return c


def _linspace_call(fn, target):
    for n in ast.walk(fn):
        if isinstance(n, (ast.Assign, ast.AnnAssign)):
            t = n.targets[0] if isinstance(n, ast.Assign) else n.target
            if isinstance(t, ast.Name) and t.id == target:
                v = n.value
                # `np.linspace(..) * np.pi / 180.` -> the linspace is in degrees
                scale = None
                while isinstance(v, ast.BinOp):
                    if scale is None:
                        scale = v
                    v = v.left
                if (isinstance(v, ast.Call) and isinstance(v.func, ast.Attribute) and v.func.attr == 'linspace'
                        and len(v.args) == 3 and not v.keywords):
                    return v, scale
    raise TranslateError('np.linspace assignment to %s not found in %s' % (target, fn.name))


def _int_points(start, stop, num):
    if num.denominator != 1 or num < 2:
        raise TranslateError('linspace count')
    out = []
    for k in range(int(num)):
        v = start + (stop - start) * k / (int(num) - 1)
        if v.denominator != 1 or v < 0:
            raise TranslateError('linspace point is not a natural number of degrees')
        out.append(int(v))
    return out


def _dist_coeff(e):
    """`k * norm_radius` -> (k, 0);  `k * cell_height` -> (0, k)"""
    if (isinstance(e, ast.BinOp) and isinstance(e.op, ast.Mult) and isinstance(e.right, ast.Name)
            and e.right.id in ('norm_radius', 'cell_height')):
        k = _num(e.left)
        if k.denominator != 1 or k < 0:
            raise TranslateError('ring distance factor')
        return (int(k), 0) if e.right.id == 'norm_radius' else (0, int(k))
    raise TranslateError('ring distance is not `k * norm_radius|cell_height`: ' + ast.dump(e)[:80])


def gen_tables(repo):
    shapes = parse_file(os.path.join(repo, 'pyphysim/cell/shapes.py'))
    cell = parse_file(os.path.join(repo, 'pyphysim/cell/cell.py'))

    # ---- Hexagon._get_vertex_positions
    fn = find_fn(shapes, '_get_vertex_positions', 'Hexagon')
    call, scale = _linspace_call(fn, 'angles')
    # must be degrees: `np.linspace(0, 240, 5) * np.pi / 180.`
    if scale is None or _pi_multiple(_strip_left(scale, call)) != Fraction(1, 180):
        raise TranslateError('hexagon angles are not `linspace(..) * pi / 180`')
    hex_deg = _int_points(_num(call.args[0]), _num(call.args[1]), _num(call.args[2]))
    hex_count = None
    for n in ast.walk(fn):
        if (isinstance(n, ast.Call) and isinstance(n.func, ast.Attribute) and n.func.attr == 'zeros' and n.args
                and isinstance(n.args[0], ast.Constant)):
            hex_count = int(n.args[0].value)
    if hex_count is None:
        raise TranslateError('np.zeros(<count>) not found in Hexagon._get_vertex_positions')

    # ---- Circle._get_vertex_positions
    fn = find_fn(shapes, '_get_vertex_positions', 'Circle')
    circ = None
    for n in ast.walk(fn):
        if (isinstance(n, ast.Assign) and isinstance(n.targets[0], ast.Name) and n.targets[0].id == 'num_vertexes'
                and isinstance(n.value, ast.Constant) and isinstance(n.value.value, int)):
            circ = n.value.value
    if circ is None:
        raise TranslateError('num_vertexes literal not found')

    # ---- Cell3Sec._get_vertex_positions
    fn = find_fn(cell, '_get_vertex_positions', 'Cell3Sec')
    pick, rots = None, []
    for n in ast.walk(fn):
        if isinstance(n, ast.Assign) and isinstance(n.targets[0], ast.Name) and n.targets[0].id == 'aux':
            if not isinstance(n.value, ast.List):
                raise TranslateError('aux is not a list literal')
            pick = []
            for e in n.value.elts:
                # secK.vertices[[i, j, ..]]  or the contiguous spelling  secK.vertices[a:b]  (literal 0 <= a <= b
                # <= number of hexagon vertices, no step): on an array of that many elements the slice selects
                # exactly the positions a, a+1, .., b-1 (nothing is clamped), i.e. the same index list
                if not (isinstance(e, ast.Subscript) and isinstance(e.value, ast.Attribute) and e.value.attr == 'vertices'
                        and isinstance(e.value.value, ast.Name) and e.value.value.id in ('sec1', 'sec2', 'sec3')
                        and isinstance(e.slice, (ast.List, ast.Slice))):
                    raise TranslateError('aux element is not secK.vertices[[..]] / secK.vertices[a:b]')
                idx = []
                if isinstance(e.slice, ast.Slice):
                    lo, hi = e.slice.lower, e.slice.upper
                    if e.slice.step is not None or hi is None:
                        raise TranslateError('aux slice with a step / without an upper bound')
                    lo = 0 if lo is None else lo.value if (isinstance(lo, ast.Constant) and isinstance(lo.value, int)
                                                           and not isinstance(lo.value, bool)) else None
                    hi = hi.value if (isinstance(hi, ast.Constant) and isinstance(hi.value, int)
                                      and not isinstance(hi.value, bool)) else None
                    if lo is None or hi is None or not 0 <= lo <= hi <= hex_count:
                        raise TranslateError('aux slice bounds are not literals within the hexagon vertex count')
                    idx = list(range(lo, hi))
                for i in (e.slice.elts if isinstance(e.slice, ast.List) else []):
                    if not (isinstance(i, ast.Constant) and isinstance(i.value, int) and i.value >= 0):
                        raise TranslateError('aux index')
                    idx.append(i.value)
                pick.append((int(e.value.value.id[3:]), idx))
        if (isinstance(n, ast.Call) and isinstance(n.func, ast.Attribute) and n.func.attr == 'Hexagon'):
            for kw in n.keywords:
                if kw.arg == 'rotation':
                    rots.append(_num(kw.value))
    if pick is None or len(rots) != 3 or len(set(rots)) != 1 or rots[0].denominator != 1 or rots[0] < 0:
        raise TranslateError('Cell3Sec vertex table not recognised')

    # ---- Cluster._calc_cell_positions_hexagon
    fn = find_fn(cell, '_calc_cell_positions_hexagon', 'Cluster')
    c1, s1 = _linspace_call(fn, 'angles_first_ring')
    c2, s2 = _linspace_call(fn, 'angles')
    if s1 is not None or s2 is not None:
        raise TranslateError('ring angles are scaled')
    ring1 = _int_points(_pi_multiple(c1.args[0]) * 180, _pi_multiple(c1.args[1]) * 180, _num(c1.args[2]))
    ring2 = _int_points(_pi_multiple(c2.args[0]) * 180, _pi_multiple(c2.args[1]) * 180, _num(c2.args[2]))
    ring1_end = ring2_start = ring1_dist = ring2_dists = None
    for n in ast.walk(fn):
        if (isinstance(n, ast.Assign) and isinstance(n.targets[0], ast.Name) and n.targets[0].id == 'max_value'
                and isinstance(n.value, ast.Call) and isinstance(n.value.func, ast.Name) and n.value.func.id == 'min'
                and len(n.value.args) == 2 and isinstance(n.value.args[1], ast.Constant)):
            ring1_end = int(n.value.args[1].value)
        if (isinstance(n, ast.Call) and isinstance(n.func, ast.Attribute) and n.func.attr == 'rect'
                and isinstance(n.func.value, ast.Name) and n.func.value.id == 'cmath' and len(n.args) == 2):
            if isinstance(n.args[0], ast.BinOp):
                ring1_dist = _dist_coeff(n.args[0])
        if (isinstance(n, ast.Call) and isinstance(n.func, ast.Attribute) and n.func.attr == 'cycle' and len(n.args) == 1
                and isinstance(n.args[0], ast.List)):
            ring2_dists = [_dist_coeff(e) for e in n.args[0].elts]
        if (isinstance(n, ast.Call) and isinstance(n.func, ast.Name) and n.func.id == 'range' and len(n.args) == 2
                and isinstance(n.args[0], ast.Constant) and isinstance(n.args[1], ast.Name)
                and n.args[1].id == 'num_cells'):
            ring2_start = int(n.args[0].value)
    if None in (ring1_end, ring2_start, ring1_dist, ring2_dists):
        raise TranslateError('ring layout constants not recognised')

    def nl(xs):
        return '[' + ', '.join(str(x) for x in xs) + ']'

    body = [
        'def hexStepDeg : List Nat := %s' % nl(hex_deg),
        'def hexVertexCount : Nat := %d' % hex_count,
        'def circleVertexCount : Nat := %d' % circ,
        'def sec3Pick : List (Nat × List Nat) := [%s]' % ', '.join('(%d, %s)' % (s, nl(i)) for s, i in pick),
        'def sec3HexRotation : Nat := %d' % int(rots[0]),
        'def ring1Deg : List Nat := %s' % nl(ring1),
        'def ring2Deg : List Nat := %s' % nl(ring2),
        'def ring1Dist : Nat × Nat := (%d, %d)' % ring1_dist,
        'def ring2Dists : List (Nat × Nat) := [%s]' % ', '.join('(%d, %d)' % d for d in ring2_dists),
        'def ring1End : Nat := %d' % ring1_end,
        'def ring2Start : Nat := %d' % ring2_start,
    ]
    return (HEADER % 'pyphysim/cell/shapes.py, pyphysim/cell/cell.py'
            + 'namespace PyPhysim.Generated.C19\n\n' + '\n'.join(body) + '\n\nend PyPhysim.Generated.C19\n')


def _strip_left(scale, call):
    """the scale expression with the linspace call replaced by 1: `(<call> * np.pi) / 180.` -> `1 * np.pi / 180.`"""
    def go(x):
        if x is call:
            return ast.Constant(1)
        if isinstance(x, ast.BinOp):
            return ast.BinOp(left=go(x.left), op=x.op, right=x.right)
        return x
    return go(scale)


TARGETS = {'C19Tables': gen_tables}
