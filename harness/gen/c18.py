"""Translator plugin of C18: the two QPSK phase tables of root_sequence.py.

Generated/C18RootTables.lean is re-emitted from the current source on every
run: `rootTable1` / `rootTable2 : List (List Int)` (row u = ROOT_TABLEx[str(u)]).
Accepted form only: a module-level dict literal whose keys are the strings
'0' .. 'n-1' (each exactly once) and whose values are `np.array(<list of int
literals>)`.  Anything else raises => "tie broken".
"""
import ast
import os

from harness.translate import HEADER, TranslateError, find_assign, parse_file


def _int(e):
    if isinstance(e, ast.UnaryOp) and isinstance(e.op, ast.USub) and isinstance(e.operand, ast.Constant) \
            and isinstance(e.operand.value, int) and not isinstance(e.operand.value, bool):
        return -e.operand.value
    if isinstance(e, ast.Constant) and isinstance(e.value, int) and not isinstance(e.value, bool):
        return e.value
    raise TranslateError('non-int literal in root table')


def _table(tree, name):
    node = find_assign(tree, name)
    if not isinstance(node, ast.Dict):
        raise TranslateError('%s is not a dict literal' % name)
    rows = {}
    for k, v in zip(node.keys, node.values):
        if not (isinstance(k, ast.Constant) and isinstance(k.value, str) and k.value.isdigit()
                and str(int(k.value)) == k.value):
            raise TranslateError('%s: key is not a canonical decimal string' % name)
        if isinstance(v, ast.Call) and len(v.args) == 1 and not v.keywords:
            v = v.args[0]
        if not isinstance(v, (ast.List, ast.Tuple)):
            raise TranslateError('%s: value is not np.array(<literal list>)' % name)
        if int(k.value) in rows:
            raise TranslateError('%s: duplicate key %s' % (name, k.value))
        rows[int(k.value)] = [_int(e) for e in v.elts]
    if sorted(rows) != list(range(len(rows))):
        raise TranslateError('%s: keys are not 0..n-1' % name)
    return [rows[i] for i in range(len(rows))]


def _emit(name, rows):
    body = ',\n'.join('  [' + ', '.join(str(v) for v in r) + ']' for r in rows)
    return 'def %s : List (List Int) := [\n%s]\n' % (name, body)


def gen_root_tables(repo):
    tree = parse_file(os.path.join(repo, 'pyphysim/reference_signals/root_sequence.py'))
    t1 = _table(tree, 'ROOT_TABLE1')
    t2 = _table(tree, 'ROOT_TABLE2')
    return (HEADER % 'pyphysim/reference_signals/root_sequence.py'
            + 'namespace PyPhysim.Generated\n\n' + _emit('rootTable1', t1) + '\n' + _emit('rootTable2', t2)
            + '\nend PyPhysim.Generated\n')


TARGETS = {'C18RootTables': gen_root_tables}
