"""Translator plugin for C03: Generated/Slice.lean.

Re-emits, from the current source of
`TdlChannel.corrupt_data_in_freq_domain` (pyphysim/channels/fading.py), the
integer expressions that decide the block geometry of a frequency-domain
transmission:

  * `block_size` for the three kinds of `carrier_indexes` (None / slice / array)
  * the number of fading samples generated per block and the number skipped
    after each block

Fragment: int literals, `fft_size`, `indexes[k]` (k literal 0..2), `+ - * // %`,
unary minus, `max`/`min`/`abs`, `len(range(*indexes))`, `len(range(a, b, c))`,
`len(carrier_indexes)`.  Anything else raises (=> "tie broken").
"""
import ast
import os

from harness.translate import TranslateError, parse_file, find_fn, HEADER

FILE = 'pyphysim/channels/fading.py'


class E:
    """expression translator; env maps Python names to Lean terms"""

    def __init__(self, env, idx_name=None):
        self.env = env
        self.idx = idx_name

    def tr(self, e):
        if isinstance(e, ast.Constant) and isinstance(e.value, int) and not isinstance(e.value, bool):
            return '(%d : Int)' % e.value
        if isinstance(e, ast.Name) and e.id in self.env:
            return self.env[e.id]
        if (isinstance(e, ast.Subscript) and isinstance(e.value, ast.Name) and e.value.id == self.idx
                and isinstance(e.slice, ast.Constant) and e.slice.value in (0, 1, 2)):
            return 'i%d' % e.slice.value
        if isinstance(e, ast.UnaryOp) and isinstance(e.op, ast.USub):
            return '(- %s)' % self.tr(e.operand)
        if isinstance(e, ast.BinOp):
            a, b = self.tr(e.left), self.tr(e.right)
            if isinstance(e.op, ast.Add):
                return '(%s + %s)' % (a, b)
            if isinstance(e.op, ast.Sub):
                return '(%s - %s)' % (a, b)
            if isinstance(e.op, ast.Mult):
                return '(%s * %s)' % (a, b)
            if isinstance(e.op, ast.FloorDiv):
                return '(pyFloorDiv %s %s)' % (a, b)
            if isinstance(e.op, ast.Mod):
                return '(pyMod %s %s)' % (a, b)
        if isinstance(e, ast.Call) and isinstance(e.func, ast.Name) and not e.keywords:
            f = e.func.id
            if f in ('max', 'min') and len(e.args) == 2:
                return '(%s %s %s)' % (f, self.tr(e.args[0]), self.tr(e.args[1]))
            if f == 'abs' and len(e.args) == 1:
                return '((%s).natAbs : Int)' % self.tr(e.args[0])
            if f == 'len' and len(e.args) == 1:
                a = e.args[0]
                if isinstance(a, ast.Name) and a.id + '.len' in self.env:
                    return self.env[a.id + '.len']
                if isinstance(a, ast.Call) and isinstance(a.func, ast.Name) and a.func.id == 'range':
                    r = a.args
                    if (len(r) == 1 and isinstance(r[0], ast.Starred) and isinstance(r[0].value, ast.Name)
                            and r[0].value.id == self.idx):
                        return '(pyRangeLen i0 i1 i2)'
                    if len(r) == 3 and not any(isinstance(x, ast.Starred) for x in r):
                        return '(pyRangeLen %s %s %s)' % tuple(self.tr(x) for x in r)
        raise TranslateError('C03 fragment: unsupported expression ' + ast.dump(e)[:160])


def _is_none_test(t, name):
    return (isinstance(t, ast.Compare) and isinstance(t.left, ast.Name) and t.left.id == name
            and len(t.ops) == 1 and isinstance(t.ops[0], ast.Is)
            and isinstance(t.comparators[0], ast.Constant) and t.comparators[0].value is None)


def _is_slice_test(t, name):
    return (isinstance(t, ast.Call) and isinstance(t.func, ast.Name) and t.func.id == 'isinstance'
            and len(t.args) == 2 and isinstance(t.args[0], ast.Name) and t.args[0].id == name
            and isinstance(t.args[1], ast.Name) and t.args[1].id == 'slice')


def _assign_to(stmts, name):
    out = [s for s in stmts if isinstance(s, ast.Assign) and len(s.targets) == 1
           and isinstance(s.targets[0], ast.Name) and s.targets[0].id == name]
    if len(out) != 1:
        raise TranslateError('expected exactly one assignment to %s, found %d' % (name, len(out)))
    return out[0].value


def gen_slice(repo):
    tree = parse_file(os.path.join(repo, FILE))
    fn = find_fn(tree, 'corrupt_data_in_freq_domain', cls='TdlChannel')
    top = None
    for s in fn.body:
        if isinstance(s, ast.If) and _is_none_test(s.test, 'carrier_indexes') \
                and any(isinstance(x, ast.Assign) and isinstance(x.targets[0], ast.Name)
                        and x.targets[0].id == 'block_size' for x in s.body):
            top = s
            break
    if top is None:
        raise TranslateError('block-size decision `if carrier_indexes is None:` not found')
    e_all = E({'fft_size': 'fft'}).tr(_assign_to(top.body, 'block_size'))
    inner = [s for s in top.orelse if isinstance(s, ast.If)]
    if len(inner) != 1 or not _is_slice_test(inner[0].test, 'carrier_indexes'):
        raise TranslateError('`if isinstance(carrier_indexes, slice):` not found')
    inner = inner[0]
    # indexes = carrier_indexes.indices(fft_size)
    idx_name = None
    for s in inner.body:
        if (isinstance(s, ast.Assign) and isinstance(s.targets[0], ast.Name)
                and isinstance(s.value, ast.Call) and isinstance(s.value.func, ast.Attribute)
                and s.value.func.attr == 'indices' and isinstance(s.value.func.value, ast.Name)
                and s.value.func.value.id == 'carrier_indexes' and len(s.value.args) == 1
                and isinstance(s.value.args[0], ast.Name) and s.value.args[0].id == 'fft_size'):
            idx_name = s.targets[0].id
    if idx_name is None:
        raise TranslateError('`<name> = carrier_indexes.indices(fft_size)` not found')
    e_slice = E({'fft_size': 'fft'}, idx_name).tr(_assign_to(inner.body, 'block_size'))
    e_idx = E({'fft_size': 'fft', 'carrier_indexes.len': 'len'}).tr(_assign_to(inner.orelse, 'block_size'))
    # the per-block fading schedule inside the `for i in range(num_full_blocks)` loop
    loops = [s for s in fn.body if isinstance(s, ast.For)]
    if len(loops) != 1:
        raise TranslateError('expected one block loop')
    gen_args, skip_args = [], []
    for n in ast.walk(loops[0]):
        if isinstance(n, ast.Call) and isinstance(n.func, ast.Attribute):
            if n.func.attr == 'generate_impulse_response':
                gen_args.append(n.args)
            if n.func.attr == 'skip_samples_for_next_generation':
                skip_args.append(n.args)
    if len(gen_args) != 1 or len(gen_args[0]) != 1 or len(skip_args) != 1 or len(skip_args[0]) != 1:
        raise TranslateError('expected one generate_impulse_response(k) and one skip_samples_for_next_generation(e) per block')
    e_gen = E({'fft_size': 'fft'}).tr(gen_args[0][0])
    e_skip = E({'fft_size': 'fft'}).tr(skip_args[0][0])
    return (HEADER % FILE
            + 'import PyPhysim.Model.C03Py\nopen PyPhysim.C03\nset_option linter.unusedVariables false\nnamespace PyPhysim.Generated\n\n'
            + '/-- `block_size` when `carrier_indexes is None` -/\n'
            + 'def blockSizeAll (fft : Int) : Int := %s\n\n' % e_all
            + '/-- `block_size` for a slice; `(i0, i1, i2) = carrier_indexes.indices(fft_size)` -/\n'
            + 'def blockSizeSlice (fft i0 i1 i2 : Int) : Int := %s\n\n' % e_slice
            + '/-- `block_size` for an index array / list of length `len` -/\n'
            + 'def blockSizeIdx (fft len : Int) : Int := %s\n\n' % e_idx
            + '/-- fading samples generated for each block -/\n'
            + 'def samplesPerBlock (fft : Int) : Int := %s\n\n' % e_gen
            + '/-- fading samples skipped after each block -/\n'
            + 'def skipPerBlock (fft : Int) : Int := %s\n\n' % e_skip
            + 'end PyPhysim.Generated\n')


TARGETS = {'Slice': gen_slice}
