"""Translator plugin for C03: Generated/Slice.lean.

Re-emits, from the current source of
`TdlChannel.corrupt_data_in_freq_domain` (pyphysim/channels/fading.py), the
integer expressions that decide the block geometry of a frequency-domain
transmission:

  * `block_size` for the three kinds of `carrier_indexes` (None / slice / array)
  * the number of fading samples generated per block and the number skipped
    after each block

Fragment: int literals, `fft_size`, `indexes[k]` (k literal 0..2), `+ - * // %`,
unary minus, `max`/`min`/`abs`, `len(range(*indexes))`, `len(range(a, b, c))`,
`len(carrier_indexes)`.  Anything else raises (=> "tie broken").

Equivalent spellings (harmless rewrites keep the tie):
  * the decision may live in a private helper: `block_size = self._helper(fft_size, carrier_indexes)` is
    replaced by the helper's body (`harness.gen.norm.splice_call`: parameters bound to the arguments, every
    `return e` leaf becoming `block_size = e`), and guard clauses / `is not None` tests are brought to the
    if/else normal form first
  * inside a branch, `block_size` may be computed through locals (`n = len(carrier_indexes); ...;
    block_size = n`) and through an inner if/else on integer comparisons (emitted as a Lean `if`); locals are
    substituted in order, a name assigned anything outside the fragment is unusable afterwards
  * `start, stop, step = carrier_indexes.indices(fft_size)` == `indexes = ...` + `indexes[0..2]`
  * statements that assign nothing (`assert`, guards that only raise — IndexError for out-of-range indexes,
    the OverflowError `len()` itself raises for a length above `sys.maxsize`) are not part of the emitted
    expressions, as before; they are covered by the correspondence check of the property
A closed-form spelling of `len(range(a, b, c))` is emitted AS WRITTEN; `Proofs/C03Py.lean`
(`blockSizeSlice_eq`) proves it equal to `pyRangeLen` for `c != 0` (lemma `rangeLenClosed`).
"""
import ast
import os

from harness.translate import TranslateError, parse_file, find_fn, HEADER
from harness.gen import norm

FILE = 'pyphysim/channels/fading.py'


class E:
    """expression translator; env maps Python names to Lean terms"""

    def __init__(self, env):
        self.env = env          # name -> Lean term; `<name>.indices` marks the tuple returned by
                                # `carrier_indexes.indices(fft_size)`, `<name>.len` the length of a sequence

    def tr(self, e):
        if isinstance(e, ast.Constant) and isinstance(e.value, int) and not isinstance(e.value, bool):
            return '(%d : Int)' % e.value
        if isinstance(e, ast.Name) and e.id in self.env:
            return self.env[e.id]
        if (isinstance(e, ast.Subscript) and isinstance(e.value, ast.Name) and e.value.id + '.indices' in self.env
                and isinstance(e.slice, ast.Constant) and e.slice.value in (0, 1, 2)
                and isinstance(e.slice.value, int)):
            return 'i%d' % e.slice.value
        if isinstance(e, ast.UnaryOp) and isinstance(e.op, ast.USub):
            return '(- %s)' % self.tr(e.operand)
        if isinstance(e, ast.BinOp):
            a, b = self.tr(e.left), self.tr(e.right)
            if isinstance(e.op, ast.Add):
                return '(%s + %s)' % (a, b)
            if isinstance(e.op, ast.Sub):
                return '(%s - %s)' % (a, b)
            if isinstance(e.op, ast.Mult):
                return '(%s * %s)' % (a, b)
            if isinstance(e.op, ast.FloorDiv):
                return '(pyFloorDiv %s %s)' % (a, b)
            if isinstance(e.op, ast.Mod):
                return '(pyMod %s %s)' % (a, b)
        if isinstance(e, ast.Call) and isinstance(e.func, ast.Name) and not e.keywords:
            f = e.func.id
            if f in ('max', 'min') and len(e.args) == 2:
                return '(%s %s %s)' % (f, self.tr(e.args[0]), self.tr(e.args[1]))
            if f == 'abs' and len(e.args) == 1:
                return '((%s).natAbs : Int)' % self.tr(e.args[0])
            if f == 'len' and len(e.args) == 1:
                a = e.args[0]
                if isinstance(a, ast.Name) and a.id + '.len' in self.env:
                    return self.env[a.id + '.len']
                if isinstance(a, ast.Call) and isinstance(a.func, ast.Name) and a.func.id == 'range':
                    r = a.args
                    if (len(r) == 1 and isinstance(r[0], ast.Starred) and isinstance(r[0].value, ast.Name)
                            and r[0].value.id + '.indices' in self.env):
                        return '(pyRangeLen i0 i1 i2)'
                    if len(r) == 3 and not any(isinstance(x, ast.Starred) for x in r):
                        return '(pyRangeLen %s %s %s)' % tuple(self.tr(x) for x in r)
        raise TranslateError('C03 fragment: unsupported expression ' + ast.dump(e)[:160])

    CMP = {ast.Lt: '<', ast.LtE: '≤', ast.Gt: '>', ast.GtE: '≥', ast.Eq: '=', ast.NotEq: '≠'}

    def cond(self, t):
        """comparison of two integer expressions -> Lean Prop (decidable on Int)"""
        if isinstance(t, ast.Compare) and len(t.ops) == 1 and type(t.ops[0]) in self.CMP:
            return '(%s %s %s)' % (self.tr(t.left), self.CMP[type(t.ops[0])], self.tr(t.comparators[0]))
        raise TranslateError('C03 fragment: unsupported condition ' + ast.dump(t)[:160])


def _is_none_test(t, name):
    return (isinstance(t, ast.Compare) and isinstance(t.left, ast.Name) and t.left.id == name
            and len(t.ops) == 1 and isinstance(t.ops[0], ast.Is)
            and isinstance(t.comparators[0], ast.Constant) and t.comparators[0].value is None)


def _is_slice_test(t, name):
    return (isinstance(t, ast.Call) and isinstance(t.func, ast.Name) and t.func.id == 'isinstance'
            and len(t.args) == 2 and isinstance(t.args[0], ast.Name) and t.args[0].id == name
            and isinstance(t.args[1], ast.Name) and t.args[1].id == 'slice')


def _stores(stmts):
    return {n.id for s in stmts for n in ast.walk(s) if isinstance(n, ast.Name) and isinstance(n.ctx, ast.Store)}


def _is_indices_call(v):
    return (isinstance(v, ast.Call) and isinstance(v.func, ast.Attribute) and v.func.attr == 'indices'
            and isinstance(v.func.value, ast.Name) and v.func.value.id == 'carrier_indexes' and len(v.args) == 1
            and not v.keywords and isinstance(v.args[0], ast.Name) and v.args[0].id == 'fft_size')


def _forget(env, names):
    for n in names:
        for k in (n, n + '.indices', n + '.len'):
            env.pop(k, None)


def run_branch(stmts, env, slice_branch=False):
    """the integer locals of a branch after its statements, as Lean terms (name -> term).  Straight-line
    assignments are substituted in order; an if/else on an integer comparison joins the two sides with a Lean
    `if`; a side that ends in `raise` contributes nothing; a name assigned anything outside the fragment is
    forgotten (so using it later leaves the fragment)."""
    env = dict(env)
    for s in stmts:
        if isinstance(s, ast.Assign) and len(s.targets) == 1:
            t, v = s.targets[0], s.value
            if slice_branch and _is_indices_call(v):
                # (i0, i1, i2) = carrier_indexes.indices(fft_size)
                if isinstance(t, ast.Name):
                    _forget(env, [t.id])
                    env[t.id + '.indices'] = True
                    continue
                if isinstance(t, ast.Tuple) and len(t.elts) == 3 and all(isinstance(x, ast.Name) for x in t.elts) \
                        and len({x.id for x in t.elts}) == 3:
                    _forget(env, [x.id for x in t.elts])
                    for k, x in enumerate(t.elts):
                        env[x.id] = 'i%d' % k
                    continue
            if isinstance(t, ast.Name):
                try:
                    term = E(env).tr(v)
                except TranslateError:
                    term = None
                _forget(env, [t.id])
                if term is not None:
                    env[t.id] = term
                continue
            _forget(env, _stores([s]))
        elif isinstance(s, ast.If):
            try:
                c = E(env).cond(s.test)
            except TranslateError:
                c = None
            ea, eb = run_branch(s.body, env, slice_branch), run_branch(s.orelse, env, slice_branch)
            ta, tb = norm.terminates(s.body), norm.terminates(s.orelse)
            if ta and tb:
                return env                          # nothing after it is reached
            for n in sorted(_stores(s.body) | _stores(s.orelse)):
                va, vb = ea.get(n), eb.get(n)
                _forget(env, [n])
                if ta or tb:
                    v = vb if ta else va
                    if v is not None:
                        env[n] = v
                elif va is not None and vb is not None and not isinstance(va, bool):
                    env[n] = va if va == vb else ('(if %s then %s else %s)' % (c, va, vb) if c is not None else None)
                    if env[n] is None:
                        del env[n]
        elif isinstance(s, ast.Return):
            raise TranslateError('return inside the block-size decision')
        elif isinstance(s, (ast.Expr, ast.Assert, ast.Raise, ast.Pass)):
            continue
        else:
            _forget(env, _stores([s]))
    return env


def _value(env, name, what):
    if not isinstance(env.get(name), str):
        raise TranslateError('%s: `%s` is not computed inside the fragment' % (what, name))
    return env[name]


def block_size_decision(tree, fn):
    """the statements deciding `block_size`, in if/else normal form (a private helper is inlined)"""
    cls = [n for n in tree.body if isinstance(n, ast.ClassDef) and n.name == 'TdlChannel']
    lookup = norm.private_lookup(module=tree, classes=cls)
    for s in fn.body:
        if isinstance(s, ast.If) and 'block_size' in _stores([s]) and 'carrier_indexes' in ast.unparse(s.test):
            return norm.tail_form([norm.canon_fn(s)], False)
        if isinstance(s, ast.Assign) and len(s.targets) == 1 and isinstance(s.targets[0], ast.Name) \
                and s.targets[0].id == 'block_size':
            sp = norm.splice_call(s, lookup)
            if sp is not None:
                return norm.tail_form(sp, False)
    raise TranslateError('block-size decision `if carrier_indexes is None:` not found')


def gen_slice(repo):
    tree = parse_file(os.path.join(repo, FILE))
    fn = find_fn(tree, 'corrupt_data_in_freq_domain', cls='TdlChannel')
    decision = block_size_decision(tree, fn)
    tops = [s for s in decision if isinstance(s, ast.If)]
    if len(tops) != 1 or not _is_none_test(tops[0].test, 'carrier_indexes') or 'block_size' in _stores(
            [s for s in decision if s is not tops[0]]):
        raise TranslateError('block-size decision `if carrier_indexes is None:` not found')
    top = tops[0]
    base = {'fft_size': 'fft'}
    e_all = _value(run_branch(top.body, base), 'block_size', 'carrier_indexes is None')
    inner = [s for s in top.orelse if isinstance(s, ast.If)]
    if len(inner) != 1 or not _is_slice_test(inner[0].test, 'carrier_indexes') or 'block_size' in _stores(
            [s for s in top.orelse if s is not inner[0]]):
        raise TranslateError('`if isinstance(carrier_indexes, slice):` not found')
    inner = inner[0]
    e_slice = _value(run_branch(inner.body, base, slice_branch=True), 'block_size', 'slice branch')
    e_idx = _value(run_branch(inner.orelse, dict(base, **{'carrier_indexes.len': 'len'})), 'block_size',
                   'index-array branch')
    # the per-block fading schedule inside the `for i in range(num_full_blocks)` loop
    loops = [s for s in fn.body if isinstance(s, ast.For)]
    if len(loops) != 1:
        raise TranslateError('expected one block loop')
    gen_args, skip_args = [], []
    for n in ast.walk(loops[0]):
        if isinstance(n, ast.Call) and isinstance(n.func, ast.Attribute):
            if n.func.attr == 'generate_impulse_response':
                gen_args.append(n.args)
            if n.func.attr == 'skip_samples_for_next_generation':
                skip_args.append(n.args)
    if len(gen_args) != 1 or len(gen_args[0]) != 1 or len(skip_args) != 1 or len(skip_args[0]) != 1:
        raise TranslateError('expected one generate_impulse_response(k) and one skip_samples_for_next_generation(e) per block')
    e_gen = E({'fft_size': 'fft'}).tr(gen_args[0][0])
    e_skip = E({'fft_size': 'fft'}).tr(skip_args[0][0])
    return (HEADER % FILE
            + 'import PyPhysim.Model.C03Py\nopen PyPhysim.C03\nset_option linter.unusedVariables false\nnamespace PyPhysim.Generated\n\n'
            + '/-- `block_size` when `carrier_indexes is None` -/\n'
            + 'def blockSizeAll (fft : Int) : Int := %s\n\n' % e_all
            + '/-- `block_size` for a slice; `(i0, i1, i2) = carrier_indexes.indices(fft_size)` -/\n'
            + 'def blockSizeSlice (fft i0 i1 i2 : Int) : Int := %s\n\n' % e_slice
            + '/-- `block_size` for an index array / list of length `len` -/\n'
            + 'def blockSizeIdx (fft len : Int) : Int := %s\n\n' % e_idx
            + '/-- fading samples generated for each block -/\n'
            + 'def samplesPerBlock (fft : Int) : Int := %s\n\n' % e_gen
            + '/-- fading samples skipped after each block -/\n'
            + 'def skipPerBlock (fft : Int) : Int := %s\n\n' % e_skip
            + 'end PyPhysim.Generated\n')


TARGETS = {'Slice': gen_slice}
