"""Translator plugin of C20: re-emits the dB / dBm / Eb-N0 conversions of
`pyphysim/util/conversion.py` as Lean definitions polymorphic in the scalar
(`Generated/C20Conversion.lean`).

Fragment (anything else raises TranslateError => "tie broken"):
  * a function body is `return e` or `x = e; return x` (after the docstring)
  * e ::= parameter | local | numeric literal 10 / 10.0 / 1000 / 1000. |
          e + e | e - e | e * e | e / e | pow(10, e) == 10 ** e == 10. ** e | np.log10(e) | _log10(e) |
          call of an already translated sibling
    (`pow(a, b)` is the operator `a ** b`; an int base 10 is converted to the float 10.0 before a float power)
  * `_log10(value)` must be exactly `return np.log10(np.asarray(value) + 0.0)`:
    the promotion idiom `np.asarray(v) + 0.0` is the identity on real values
    (it only selects the floating point type), so `_log10 e` is emitted as
    `Transc.log10 e`
`PyPhysim.Properties.C20.generated_conversions_normal_form` proves (by `rfl`)
that the emitted definitions are the model functions the conversion theorems
are about, so a source edit re-opens the proof obligation.
"""
import ast
import os

from harness import translate as T
from harness.gen import norm

OPS = {ast.Add: '+', ast.Sub: '-', ast.Mult: '*', ast.Div: '/'}
LITERALS = {10: '10', 1000: '1000'}
FUNCTIONS = ['dB2Linear', 'linear2dB', 'dBm2Linear', 'linear2dBm', 'SNR_dB_to_EbN0_dB', 'EbN0_dB_to_SNR_dB']


def expr(e, names, known):
    if isinstance(e, ast.Name):
        if e.id not in names:
            raise T.TranslateError('unknown name ' + e.id)
        return e.id
    if isinstance(e, ast.Constant) and isinstance(e.value, (int, float)) and not isinstance(e.value, bool):
        v = e.value
        if float(v) != int(v) or int(v) not in LITERALS:
            raise T.TranslateError('numeric literal %r outside the fragment {10, 1000}' % (v,))
        return LITERALS[int(v)]
    if isinstance(e, ast.BinOp) and isinstance(e.op, ast.Pow):
        b = e.left
        if not (isinstance(b, ast.Constant) and not isinstance(b.value, bool) and isinstance(b.value, (int, float))
                and b.value == 10):
            raise T.TranslateError('power with a base other than 10')
        return '(Transc.pow10 %s)' % expr(e.right, names, known)
    if isinstance(e, ast.BinOp) and type(e.op) in OPS:
        return '(%s %s %s)' % (expr(e.left, names, known), OPS[type(e.op)], expr(e.right, names, known))
    if isinstance(e, ast.Call) and not e.keywords:
        f = e.func
        if (isinstance(f, ast.Attribute) and f.attr == 'log10' and isinstance(f.value, ast.Name)
                and f.value.id == 'np' and len(e.args) == 1):
            return '(Transc.log10 %s)' % expr(e.args[0], names, known)
        if isinstance(f, ast.Name) and f.id == '_log10' and '_log10' in known and len(e.args) == 1:
            return '(Transc.log10 %s)' % expr(e.args[0], names, known)
        if isinstance(f, ast.Name) and f.id in known and len(e.args) == 1:
            return '(%s %s)' % (f.id, expr(e.args[0], names, known))
    raise T.TranslateError('unsupported expression: ' + ast.dump(e)[:120])


def function(fn, known):
    fn = norm.canon_fn(fn)                      # pow(a, b) -> a ** b
    args = [a.arg for a in fn.args.args]
    if fn.args.vararg or fn.args.kwarg or fn.args.defaults:
        raise T.TranslateError('unsupported signature of ' + fn.name)
    body = T.strip_doc(fn.body)
    names = set(args)
    lines = []
    for st in body[:-1]:
        if not (isinstance(st, ast.Assign) and len(st.targets) == 1 and isinstance(st.targets[0], ast.Name)):
            raise T.TranslateError('unsupported statement in ' + fn.name)
        lines.append('  let %s := %s' % (st.targets[0].id, expr(st.value, names, known)))
        names.add(st.targets[0].id)
    last = body[-1]
    if not isinstance(last, ast.Return) or last.value is None:
        raise T.TranslateError(fn.name + ' does not end with return')
    lines.append('  ' + expr(last.value, names, known))
    return 'def %s %s: ρ :=\n%s\n' % (fn.name, ''.join('(%s : ρ) ' % a for a in args), '\n'.join(lines))


LOG10_IDIOM = "Return(value=Call(func=Attribute(value=Name(id='np'), attr='log10'), args=[BinOp(left=Call(" \
              "func=Attribute(value=Name(id='np'), attr='asarray'), args=[Name(id='value')]), op=Add(), " \
              "right=Constant(value=0.0))]))"


def check_log10_helper(tree):
    """`_log10` (if present) must be the float-promotion idiom around np.log10"""
    try:
        fn = T.find_fn(tree, '_log10')
    except T.TranslateError:
        return False
    body = T.strip_doc(fn.body)
    args = [a.arg for a in fn.args.args]
    dump = ast.dump(body[0], annotate_fields=True, include_attributes=False) if len(body) == 1 else ''
    dump = dump.replace(', ctx=Load()', '').replace(', keywords=[]', '')
    if args != ['value'] or dump != LOG10_IDIOM:
        raise T.TranslateError('_log10 is not `return np.log10(np.asarray(value) + 0.0)`: ' + dump[:200])
    return True


def gen_c20_conversion(repo):
    tree = T.parse_file(os.path.join(repo, 'pyphysim/util/conversion.py'))
    known, out = set(), []
    if check_log10_helper(tree):
        known.add('_log10')
    for name in FUNCTIONS:
        out.append(function(T.find_fn(tree, name), known))
        known.add(name)
    return (T.HEADER.replace('harness/translate.py', 'harness/gen/c20.py') % 'pyphysim/util/conversion.py'
            + 'import PyPhysim.Model.C20\nopen PyPhysim.LinAlg\nnamespace PyPhysim.Generated.C20\n\n'
            + 'variable {ρ : Type} [Add ρ] [Sub ρ] [Mul ρ] [Div ρ] [OfNat ρ 10] [OfNat ρ 1000] [Transc ρ]\n\n'
            + '\n'.join(out) + '\nend PyPhysim.Generated.C20\n')


TARGETS = {'C20Conversion': gen_c20_conversion}
