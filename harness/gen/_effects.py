"""Attribute-effect analysis of the methods of a Python class chain.

Shared by the translator plugins of C08 (`harness/gen/c08.py`) and C10
(`harness/gen/c10.py`); it is not a plugin itself (the leading underscore keeps
`harness/translate.py` from loading it as one).

For a class `C` of the chain and one entry point (a public method, a property
getter, a property setter) the analysis walks the function body in the current
AST and follows, with `self` bound to an instance of `C`,

  * calls `self.m(..)`, `super().m(..)`, `Base.m(self, ..)` of methods of the chain
    (resolved along the MRO of `C`, overrides first) — their bodies are inlined,
    whatever they are called, so that moving statements into / out of a helper or
    renaming a helper changes nothing;
  * loads `self.p` / stores `self.p = v` of properties of the chain (getter /
    setter bodies inlined; `Base.p.fset(self, v)` / `.fget(self)` as well);

and computes, for every data attribute `self.a`, the set of possible *last
writes* on the paths that leave the entry point normally (`return` / falling off
the end; paths that end in `raise` are not exits):

    U  untouched by the call
    N  last write was the literal `None`                       (a reset)
    F  last write was any other value, an in-place store `self.a[i] = v`,
       `self.a += v`, or a call of a mutating method on it      (an assignment)
    L  filled lazily: written with a value while the path is inside a test
       `self.a is None` (`if self.a is None [and ..]:`, or after
       `if self.a is not None: return ..`)                      (a cache fill)

From these the emitted effect of an entry point is

    clears    S = {N}                       reset on EVERY normal path
    assigns   S ⊆ {N,F}, S ≠ {N}            written on every normal path
    mayWrite  S ∩ {N,F} ≠ ∅ and S ∩ {U,L} ≠ ∅   written on some paths only
    fills     L ∈ S
    reads     every data attribute loaded on any path (through helpers and properties)

(a reset behind an early `return` or a condition therefore moves from `clears`
to `mayWrite`).  For every lazily filled attribute the union of the reads of
the functions that contain a fill of it is its *fill read-set*.  `__init__`
is analysed the same way and gives the list of attributes an object starts
with.

Outside the fragment (=> TranslateError => the tie is reported broken):
multiple inheritance inside the chain, unknown decorators, `self` escaping
(passed to an unknown function, stored; `return self` and copy / repr / isinstance are fine), `del self.a`,
`setattr/vars/__dict__`, `global/nonlocal`, generators, recursion among the
inlined methods, a decorated nested function that mentions `self`
(an undecorated closure over `self` is analysed as "possibly executed" where it is defined).
Not seen (stated limitation): mutation through a local alias of an attribute
(`w = self._W; w[0] = ..`), mutation by code outside the class.
"""
import ast



class TranslateError(Exception):
    """source outside the analysed fragment (=> `translate.regenerate` reports 'error: ...' => tie broken).
    Defined here (not imported from harness.translate) so that this module can be imported on its own:
    harness.translate loads the plugins, which import this module."""


U, N, F, L = 'U', 'N', 'F', 'L'
FU = frozenset([U])
KNOWN_DECORATORS = ('property', 'staticmethod', 'classmethod', 'abstractmethod', 'abc.abstractmethod')
IGNORED_BASES = ('object', 'ABC', 'abc.ABC', 'Generic')
# functions that may be handed `self` without changing its attributes (copies are new objects)
SELF_OK = ('isinstance', 'type', 'id', 'repr', 'str', 'hash', 'len', 'print', 'format', 'copy.copy',
           'copy.deepcopy', 'pickle.dumps', 'deepcopy')
# method names that change the object they are called on
MUTATING = ('fill', 'sort', 'resize', 'put', 'itemset', 'append', 'extend', 'insert', 'pop', 'remove', 'clear',
            'update', 'setdefault', 'partition', 'byteswap', 'popitem', 'add', 'discard', 'reverse', '__setitem__',
            '__delitem__', '__iadd__', '__imul__')
MAX_DEPTH = 24


class St:
    """abstract state: kinds[a] = possible last writes of attribute a; none = attributes a test showed to be None"""
    __slots__ = ('kinds', 'none')

    def __init__(self, kinds=None, none=frozenset()):
        self.kinds = dict(kinds or {})
        self.none = frozenset(none)

    def get(self, a):
        return self.kinds.get(a, FU)

    def set(self, a, ks, none=None):
        k = dict(self.kinds)
        k[a] = frozenset(ks)
        return St(k, self.none if none is None else none)

    def key(self):
        return (tuple(sorted((a, tuple(sorted(k))) for a, k in self.kinds.items() if k != FU)), tuple(sorted(self.none)))


def join(a, b):
    if a is None:
        return b
    if b is None:
        return a
    ks = {}
    for k in set(a.kinds) | set(b.kinds):
        ks[k] = a.get(k) | b.get(k)
    return St(ks, a.none & b.none)


class Member:
    def __init__(self, kind):
        self.kind = kind          # 'method' | 'property' | 'static'
        self.fn = None            # method / static
        self.getter = None        # property
        self.setter = None
        self.abstract = False


class Frame:
    def __init__(self, dyn, defcls, fn, depth):
        self.dyn, self.defcls, self.fn, self.depth = dyn, defcls, fn, depth
        self.reads = set()
        self.returns = []
        self.loops = []           # stack of {'breaks': [], 'continues': []}
        self.collectors = []      # active try bodies: lists of states seen at statement boundaries
        self.method_refs = []     # bound methods of self taken as values (`{'x': self._m}`)
        self.fills = set()        # attributes lazily filled by statements of THIS function
        self.locals = set()
        if fn is not None:
            for n in ast.walk(fn):
                if isinstance(n, ast.Name) and isinstance(n.ctx, ast.Store):
                    self.locals.add(n.id)
                if isinstance(n, ast.arg):
                    self.locals.add(n.arg)


class Analyzer:
    def __init__(self, classdefs):
        self.classes = {}
        for c in classdefs:
            if c.name in self.classes:
                raise TranslateError('class %s defined twice' % c.name)
            self.classes[c.name] = c
        self._members = {}
        self._mro = {}
        self.fill_reads = {}      # (dyn, attr) -> set of attributes read by the functions that fill it
        self.stack = []

    # ------------------------------------------------------------ class structure
    def mro(self, cname):
        if cname in self._mro:
            return self._mro[cname]
        out, cur = [], cname
        while cur is not None:
            if cur in out:
                raise TranslateError('inheritance cycle at ' + cur)
            out.append(cur)
            c = self.classes[cur]
            known = []
            for b in c.bases:
                bn = ast.unparse(b).split('[')[0]
                if bn in self.classes:
                    known.append(bn)
                elif bn not in IGNORED_BASES:
                    raise TranslateError('class %s has a base class %s outside the analysed chain' % (cur, bn))
            if len(known) > 1:
                raise TranslateError('class %s: multiple inheritance inside the chain' % cur)
            if c.keywords and any(k.arg != 'metaclass' for k in c.keywords):
                raise TranslateError('class %s: unsupported class keywords' % cur)
            cur = known[0] if known else None
        self._mro[cname] = out
        return out

    def members(self, cname):
        if cname in self._members:
            return self._members[cname]
        out = {}
        for n in self.classes[cname].body:
            if isinstance(n, (ast.AsyncFunctionDef, ast.ClassDef)):
                raise TranslateError('%s: nested class / async method %s' % (cname, n.name))
            if not isinstance(n, ast.FunctionDef):
                continue
            decs = [ast.unparse(d) for d in n.decorator_list]
            role, abstract = 'method', False
            for d in decs:
                if d in ('abstractmethod', 'abc.abstractmethod'):
                    abstract = True
                elif d == 'property':
                    role = 'getter'
                elif d in ('staticmethod', 'classmethod'):
                    role = 'static'
                elif d == n.name + '.setter' or d.endswith('.' + n.name + '.setter'):
                    role = 'setter'
                else:
                    raise TranslateError('%s.%s is wrapped by decorator @%s, which the analysis does not model'
                                         % (cname, n.name, d))
            m = out.get(n.name)
            if role in ('getter', 'setter'):
                if m is None:
                    m = out[n.name] = Member('property')
                elif m.kind != 'property':
                    raise TranslateError('%s.%s is defined both as a method and as a property' % (cname, n.name))
                if getattr(m, role) is not None:
                    raise TranslateError('%s.%s: %s defined twice' % (cname, n.name, role))
                setattr(m, role, n)
                m.abstract = m.abstract or abstract
            else:
                if m is not None:
                    raise TranslateError('%s.%s defined twice (the last definition wins at run time)' % (cname, n.name))
                m = out[n.name] = Member('method' if role == 'method' else 'static')
                m.fn = n
                m.abstract = abstract
        self._members[cname] = out
        return out

    def lookup(self, dyn, name, after=None, start=None):
        """(defining class, Member) of `name` for an instance of `dyn`; `after`: continue behind that class
        (super()), `start`: begin at that class (explicit `Base.name`)."""
        chain = self.mro(dyn)
        if start is not None:
            if start not in chain:
                raise TranslateError('%s is not a base class of %s' % (start, dyn))
            chain = chain[chain.index(start):]
        if after is not None:
            chain = chain[chain.index(after) + 1:]
        for i, c in enumerate(chain):
            m = self.members(c).get(name)
            if m is None:
                continue
            if m.kind == 'property' and (m.getter is None or m.setter is None):
                # `@Base.p.setter` keeps the inherited getter (and a getter-only override drops the setter)
                full = Member('property')
                full.getter, full.setter, full.abstract = m.getter, m.setter, m.abstract
                full.getter_cls = full.setter_cls = c
                if m.getter is None:
                    for c2 in chain[i + 1:]:
                        m2 = self.members(c2).get(name)
                        if m2 is not None and m2.kind == 'property' and m2.getter is not None:
                            full.getter, full.getter_cls = m2.getter, c2
                            break
                return c, full
            if m.kind == 'property':
                m.getter_cls = m.setter_cls = c
            return c, m
        return None, None

    def public_names(self, dyn):
        seen, out = set(), []
        for c in self.mro(dyn):
            for name in self.members(c):
                if name not in seen and not name.startswith('_'):
                    seen.add(name)
                    out.append(name)
        return sorted(out)

    # ------------------------------------------------------------ helpers
    @staticmethod
    def is_self(e):
        return isinstance(e, ast.Name) and e.id == 'self'

    def self_attr(self, e):
        """name of `self.<name>` or None"""
        if isinstance(e, ast.Attribute) and self.is_self(e.value):
            return e.attr
        return None

    def data_attr(self, fr, e):
        """`self.a` where `a` is a data attribute (not a method / property of the chain): a, else None"""
        a = self.self_attr(e)
        if a is None or a.startswith('__') and a.endswith('__'):
            return None
        c, _ = self.lookup(fr.dyn, a)
        return a if c is None else None

    def read(self, fr, a):
        fr.reads.add(a)

    def none_tests(self, fr, test):
        """(attributes known to be None if the test holds, ... if it fails)"""
        if isinstance(test, ast.Compare) and len(test.ops) == 1 and isinstance(test.comparators[0], ast.Constant) \
                and test.comparators[0].value is None:
            a = self.data_attr(fr, test.left)
            if a is not None:
                if isinstance(test.ops[0], ast.Is):
                    return {a}, set()
                if isinstance(test.ops[0], ast.IsNot):
                    return set(), {a}
            return set(), set()
        if isinstance(test, ast.BoolOp):
            parts = [self.none_tests(fr, v) for v in test.values]
            if isinstance(test.op, ast.And):
                return set().union(*[p[0] for p in parts]), set()
            return set(), set().union(*[p[1] for p in parts])
        if isinstance(test, ast.UnaryOp) and isinstance(test.op, ast.Not):
            t, f = self.none_tests(fr, test.operand)
            return f, t
        return set(), set()

    @staticmethod
    def value_kinds(v):
        if isinstance(v, ast.Constant) and v.value is None:
            return {N}
        if isinstance(v, ast.IfExp):
            return Analyzer.value_kinds(v.body) | Analyzer.value_kinds(v.orelse)
        return {F}

    # ------------------------------------------------------------ writes
    def write(self, fr, st, a, kinds):
        """`self.a = <value of the given kinds>`"""
        if kinds == {N}:
            return st.set(a, {N}, st.none - {a})
        if a in st.none:
            # a value stored while the attribute is known (by a test) to be None: a lazy fill
            fr.fills.add(a)
            ks = {L if k == F else k for k in kinds}
            return st.set(a, ks, st.none - {a})
        return st.set(a, kinds, st.none - {a})

    def store_inplace(self, fr, st, a):
        """`self.a[i] = v`, `self.a += v`, `self.a.sort()`: the object held by the attribute changes"""
        self.read(fr, a)
        cur = st.get(a)
        if cur <= {L} or cur <= {F}:
            return st                      # still being built by this call
        return st.set(a, {F}, st.none - {a})

    def assign_target(self, fr, st, t, value):
        """one assignment target; `value` is the AST of the assigned value or None (unknown value)"""
        if isinstance(t, ast.Name):
            if t.id == 'self':
                raise TranslateError('%s rebinds self' % fr.fn.name)
            return st
        if isinstance(t, (ast.Tuple, ast.List)):
            vals = value.elts if isinstance(value, (ast.Tuple, ast.List)) and len(value.elts) == len(t.elts) \
                and not any(isinstance(x, ast.Starred) for x in t.elts) else [None] * len(t.elts)
            for x, v in zip(t.elts, vals):
                st = self.assign_target(fr, st, x, v)
            return st
        if isinstance(t, ast.Starred):
            return self.assign_target(fr, st, t.value, None)
        a = self.self_attr(t)
        if a is not None:
            c, m = self.lookup(fr.dyn, a)
            if c is None:
                return self.write(fr, st, a, {F} if value is None else self.value_kinds(value))
            if m.kind == 'property':
                if m.setter is None:
                    raise TranslateError('assignment to the read-only property %s' % a)
                return self.call(fr, st, m.setter_cls, m.setter)
            raise TranslateError('assignment replaces the method %s' % a)
        if isinstance(t, ast.Subscript):
            st = self.ev(t.slice, st, fr)
            return self.mutate_through(fr, st, t.value)
        if isinstance(t, ast.Attribute):
            # self.a.b = v : the object held by `a` changes
            return self.mutate_through(fr, st, t.value)
        raise TranslateError('unsupported assignment target ' + ast.dump(t)[:80])

    def mutate_through(self, fr, st, obj):
        """an in-place change of the object denoted by `obj`"""
        a = self.data_attr(fr, obj)
        if a is not None:
            return self.store_inplace(fr, st, a)
        if isinstance(obj, ast.Subscript):           # self.a[i][j] = v
            st = self.ev(obj.slice, st, fr)
            return self.mutate_through(fr, st, obj.value)
        pa = self.self_attr(obj)
        if pa is not None:
            # `self.p[i] = v` with p a property: the getter runs; what it returned is changed in place.
            # A getter that just returns an attribute: that attribute changes.
            c, m = self.lookup(fr.dyn, pa)
            st = self.ev(obj, st, fr)
            if m is not None and m.kind == 'property' and m.getter is not None:
                rets = [s.value for s in ast.walk(m.getter) if isinstance(s, ast.Return) and s.value is not None]
                for r in rets:
                    ra = self.data_attr(fr, r)
                    if ra is not None:
                        st = self.store_inplace(fr, st, ra)
            return st
        return self.ev(obj, st, fr)

    # ------------------------------------------------------------ calls
    def call(self, fr, st, defcls, fn):
        """inline the body of `fn` (defined in `defcls`), self bound to the same object"""
        key = (defcls, fn.name, id(fn))
        if key in self.stack or fr.depth > MAX_DEPTH:
            raise TranslateError('recursion / too deep nesting through %s.%s' % (defcls, fn.name))
        if fn.args.args and fn.args.args[0].arg != 'self':
            raise TranslateError('%s.%s: first parameter is not self' % (defcls, fn.name))
        sub = Frame(fr.dyn, defcls, fn, fr.depth + 1)
        sub.collectors = list(fr.collectors)     # a surrounding `try` may be left from inside the callee
        self.stack.append(key)
        try:
            end = self.block(fn.body, st, sub)
        finally:
            self.stack.pop()
        out = end
        for r in sub.returns:
            out = join(out, r)
        fr.reads |= sub.reads
        for a in sub.fills:
            self.fill_reads.setdefault((fr.dyn, a), set()).update(sub.reads - {a})
        return out

    def ev_args(self, call, st, fr, skip_self=False):
        for i, a in enumerate(call.args):
            if skip_self and self.is_self(a):
                continue
            st = self.ev(a.value if isinstance(a, ast.Starred) else a, st, fr)
            if st is None:
                return None
        for k in call.keywords:
            st = self.ev(k.value, st, fr)
            if st is None:
                return None
        return st

    def ev_call(self, e, st, fr):
        f = e.func
        # self.m(...)
        name = self.self_attr(f)
        if name is not None:
            c, m = self.lookup(fr.dyn, name)
            st = self.ev_args(e, st, fr)
            if st is None:
                return None
            if c is None:
                self.read(fr, name)          # a callable stored in a data attribute
                return st
            if m.kind == 'method':
                return self.call(fr, st, c, m.fn)
            if m.kind == 'static':
                return st
            return self.ev(f, st, fr)          # the value of a property is called
        # super().m(...)
        if isinstance(f, ast.Attribute) and isinstance(f.value, ast.Call) and isinstance(f.value.func, ast.Name) \
                and f.value.func.id == 'super':
            if f.value.args or f.value.keywords:
                raise TranslateError('super() with arguments')
            c, m = self.lookup(fr.dyn, f.attr, after=fr.defcls)
            st = self.ev_args(e, st, fr)
            if c is None:
                return st                    # object.__init__ and the like
            if m.kind != 'method':
                raise TranslateError('super().%s is not a plain method' % f.attr)
            return self.call(fr, st, c, m.fn) if st is not None else None
        # Base.m(self, ...)  /  Base.p.fset(self, v)  /  Base.p.fget(self)
        if isinstance(f, ast.Attribute) and isinstance(f.value, ast.Name) and f.value.id in self.classes:
            base = f.value.id
            if e.args and self.is_self(e.args[0]):
                c, m = self.lookup(fr.dyn, f.attr, start=base)
                st = self.ev_args(e, st, fr, skip_self=True)
                if st is None:
                    return None
                if c is None or m.kind != 'method':
                    raise TranslateError('%s.%s(self, ..) is not a method of the chain' % (base, f.attr))
                return self.call(fr, st, c, m.fn)
            if any(self.is_self(a) for a in e.args):
                raise TranslateError('self passed in an unexpected position to %s.%s' % (base, f.attr))
            return self.ev_args(e, st, fr)
        if isinstance(f, ast.Attribute) and f.attr in ('fset', 'fget') and isinstance(f.value, ast.Attribute) \
                and isinstance(f.value.value, ast.Name) and f.value.value.id in self.classes \
                and e.args and self.is_self(e.args[0]):
            c, m = self.lookup(fr.dyn, f.value.attr, start=f.value.value.id)
            if c is None or m.kind != 'property':
                raise TranslateError('%s is not a property' % ast.unparse(f.value))
            st = self.ev_args(e, st, fr, skip_self=True)
            if st is None:
                return None
            fn, fc = (m.setter, m.setter_cls) if f.attr == 'fset' else (m.getter, m.getter_cls)
            if fn is None:
                raise TranslateError('%s has no %s' % (ast.unparse(f.value), f.attr))
            return self.call(fr, st, fc, fn)
        # builtins that only look at self
        if isinstance(f, (ast.Name, ast.Attribute)) and ast.unparse(f) in SELF_OK:
            return self.ev_args(e, st, fr, skip_self=True)
        # a local variable holding one of several bound methods taken earlier (`options[key](..)`)
        if isinstance(f, ast.Name) and f.id in fr.locals and fr.method_refs and not self.is_local_def(fr, f.id):
            st = self.ev_args(e, st, fr)
            if st is None:
                return None
            out = None
            for c, fn in list(fr.method_refs):
                out = join(out, self.call(fr, st, c, fn))
            return out
        # x.mutating_method(...) on an attribute
        if isinstance(f, ast.Attribute) and f.attr in MUTATING:
            a = self.data_attr(fr, f.value)
            st = self.ev_args(e, st, fr)
            if st is None:
                return None
            if a is not None:
                return self.store_inplace(fr, st, a)
            return self.ev(f.value, st, fr)
        st = self.ev(f, st, fr)
        if st is None:
            return None
        return self.ev_args(e, st, fr)

    @staticmethod
    def is_local_def(fr, name):
        return any(isinstance(n, ast.FunctionDef) and n.name == name for n in ast.walk(fr.fn) if n is not fr.fn)

    # ------------------------------------------------------------ expressions
    def ev(self, e, st, fr):
        """evaluate an expression for its reads and side effects; returns the state (None: always raises)"""
        if st is None or e is None:
            return st
        if isinstance(e, ast.Call):
            return self.ev_call(e, st, fr)
        if isinstance(e, ast.Attribute) and self.is_self(e.value):
            a = e.attr
            if a == '__class__':
                return st
            if a in ('__dict__', '__setattr__', '__delattr__'):
                raise TranslateError('self.%s is outside the fragment' % a)
            c, m = self.lookup(fr.dyn, a)
            if c is None:
                self.read(fr, a)
                return st
            if m.kind == 'property':
                if m.getter is None:
                    raise TranslateError('property %s has no getter' % a)
                return self.call(fr, st, m.getter_cls, m.getter)
            if m.kind == 'method':
                fr.method_refs.append((c, m.fn))     # a bound method taken as a value
                return st
            return st
        if isinstance(e, ast.Name):
            if e.id == 'self':
                raise TranslateError('self escapes in %s.%s (line %d)' % (fr.defcls, fr.fn.name, e.lineno))
            return st
        if isinstance(e, (ast.Yield, ast.YieldFrom, ast.Await)):
            raise TranslateError('generator / coroutine in ' + fr.fn.name)
        if isinstance(e, ast.Lambda):
            return self.ev(e.body, st, fr)
        if isinstance(e, ast.NamedExpr):
            return self.ev(e.value, st, fr)
        for child in ast.iter_child_nodes(e):
            if isinstance(child, ast.expr):
                st = self.ev(child, st, fr)
            elif isinstance(child, ast.comprehension):
                st = self.ev(child.iter, st, fr)
                for c2 in child.ifs:
                    st = self.ev(c2, st, fr)
            elif isinstance(child, ast.keyword):
                st = self.ev(child.value, st, fr)
            if st is None:
                return None
        return st

    # ------------------------------------------------------------ statements
    def block(self, stmts, st, fr):
        for s in stmts:
            if st is None:
                return None
            st = self.stmt(s, st, fr)
            if st is not None:
                for col in fr.collectors:
                    col.append(st)
        return st

    def stmt(self, s, st, fr):
        if isinstance(s, ast.Expr):
            return self.ev(s.value, st, fr)
        if isinstance(s, ast.Assign):
            st = self.ev(s.value, st, fr)
            for t in s.targets:
                if st is None:
                    return None
                st = self.assign_target(fr, st, t, s.value)
            return st
        if isinstance(s, ast.AnnAssign):
            if s.value is None:
                return st
            st = self.ev(s.value, st, fr)
            return self.assign_target(fr, st, s.target, s.value) if st is not None else None
        if isinstance(s, ast.AugAssign):
            st = self.ev(s.value, st, fr)
            if st is None:
                return None
            t = s.target
            if isinstance(t, ast.Name):
                return st
            a = self.self_attr(t)
            if a is not None:
                c, m = self.lookup(fr.dyn, a)
                if c is None:
                    self.read(fr, a)
                    return st.set(a, {F}, st.none - {a})
                if m.kind == 'property' and m.setter is not None:
                    st = self.call(fr, st, m.getter_cls, m.getter)
                    return self.call(fr, st, m.setter_cls, m.setter) if st is not None else None
                raise TranslateError('augmented assignment to %s' % a)
            return self.assign_target(fr, st, t, None)
        if isinstance(s, ast.Return):
            if not self.is_self(s.value):            # `return self` (fluent interface) changes nothing
                st = self.ev(s.value, st, fr)
            if st is not None:
                fr.returns.append(st)
            return None
        if isinstance(s, ast.Raise):
            self.ev(s.exc, st, fr)
            return None
        if isinstance(s, ast.Assert):
            st = self.ev(s.test, st, fr)
            if st is not None and isinstance(s.test, ast.Constant) and not s.test.value:
                return None
            t, _ = self.none_tests(fr, s.test) if st is not None else (set(), set())
            return St(st.kinds, st.none | t) if st is not None else None
        if isinstance(s, ast.Pass):
            return st
        if isinstance(s, ast.Delete):
            for t in s.targets:
                if not isinstance(t, ast.Name):
                    raise TranslateError('del of something that is not a local name: ' + ast.unparse(t)[:60])
            return st
        if isinstance(s, ast.If):
            st = self.ev(s.test, st, fr)
            if st is None:
                return None
            t, f = self.none_tests(fr, s.test)
            a = self.block(s.body, St(st.kinds, st.none | t), fr)
            b = self.block(s.orelse, St(st.kinds, st.none | f), fr)
            return join(a, b)
        if isinstance(s, (ast.For, ast.While)):
            return self.loop(s, st, fr)
        if isinstance(s, ast.Break):
            fr.loops[-1]['breaks'].append(st)
            return None
        if isinstance(s, ast.Continue):
            fr.loops[-1]['continues'].append(st)
            return None
        if isinstance(s, ast.With):
            for it in s.items:
                st = self.ev(it.context_expr, st, fr)
                if st is None:
                    return None
                if it.optional_vars is not None:
                    st = self.assign_target(fr, st, it.optional_vars, None)
            return self.block(s.body, st, fr)
        if isinstance(s, ast.Try):
            col = [st]
            fr.collectors.append(col)
            try:
                body = self.block(s.body, st, fr)
            finally:
                fr.collectors.pop()
            entry = None
            for x in col:
                entry = join(entry, x)
            out = self.block(s.orelse, body, fr) if body is not None else None
            for h in s.handlers:
                if h.type is not None:
                    self.ev(h.type, entry, fr)
                out = join(out, self.block(h.body, entry, fr))
            if s.finalbody:
                # the finally block also runs on the raising paths; those are not exits
                out = self.block(s.finalbody, out, fr) if out is not None else None
                self.block(s.finalbody, entry, fr)
            return out
        if isinstance(s, ast.FunctionDef):
            if any(isinstance(n, ast.Name) and n.id == 'self' for n in ast.walk(s)):
                # a closure over self: it may run any number of times after its definition; its body is
                # analysed here as "possibly executed" (its writes become conditional writes)
                if s.decorator_list or any(a.arg == 'self' for a in s.args.args):
                    raise TranslateError('nested function %s: decorated / rebinds self' % s.name)
                sub = Frame(fr.dyn, fr.defcls, s, fr.depth + 1)
                end = self.block(s.body, st, sub)
                for r in sub.returns:
                    end = join(end, r)
                fr.reads |= sub.reads
                fr.fills |= sub.fills
                return join(st, end)
            return st
        if isinstance(s, (ast.Import, ast.ImportFrom)):
            return st
        raise TranslateError('unsupported statement %s in %s.%s' % (type(s).__name__, fr.defcls, fr.fn.name))

    def loop(self, s, st, fr):
        if isinstance(s, ast.For):
            st = self.ev(s.iter, st, fr)
            if st is None:
                return None
            st = self.assign_target(fr, st, s.target, None)
        cur = st
        exits = None
        for _ in range(64):
            fr.loops.append({'breaks': [], 'continues': []})
            head = cur
            infinite = False
            if isinstance(s, ast.While):
                head = self.ev(s.test, cur, fr)
                infinite = isinstance(s.test, ast.Constant) and bool(s.test.value)
            end = self.block(s.body, head, fr) if head is not None else None
            lp = fr.loops.pop()
            for c in lp['continues']:
                end = join(end, c)
            for b in lp['breaks']:
                exits = join(exits, b)
            new = join(cur, end)
            if new.key() == cur.key():
                break
            cur = new
        else:
            raise TranslateError('loop analysis did not stabilise in ' + fr.fn.name)
        normal = None if (isinstance(s, ast.While) and infinite) else (head if isinstance(s, ast.While) else cur)
        if normal is not None and s.orelse:
            normal = self.block(s.orelse, normal, fr)
        return join(normal, exits)

    # ------------------------------------------------------------ entry points
    def entry(self, dyn, defcls, fn):
        """effect of calling `fn` on an instance of `dyn`: (state at the normal exits or None, reads)"""
        fr = Frame(dyn, defcls, None, 0)
        fr.fn = fn
        self.stack = []
        out = self.call(fr, St(), defcls, fn)
        return out, fr.reads

    @staticmethod
    def classify(st):
        """-> dict clears/assigns/mayWrite/fills (sorted lists)"""
        res = {'clears': [], 'assigns': [], 'mayWrite': [], 'fills': []}
        for a, ks in sorted(st.kinds.items()):
            if ks == FU:
                continue
            if L in ks:
                res['fills'].append(a)
            if ks == {N}:
                res['clears'].append(a)
            elif ks <= {N, F}:
                res['assigns'].append(a)
            elif ks & {N, F}:
                res['mayWrite'].append(a)
        return res

    def rows(self, dyn, names=None, include_private=()):
        """effect rows of the public entry points of class `dyn` (plus the named private methods)"""
        out = []
        for name in (names if names is not None else self.public_names(dyn)) + list(include_private):
            c, m = self.lookup(dyn, name)
            if c is None:
                raise TranslateError('%s has no member %s' % (dyn, name))
            todo = []
            if m.kind == 'method':
                if not m.abstract:
                    todo.append((name, c, m.fn))
            elif m.kind == 'property':
                if m.getter is not None:
                    todo.append((name, m.getter_cls, m.getter))
                if m.setter is not None:
                    todo.append((name + '.setter', m.setter_cls, m.setter))
            for rname, dc, fn in todo:
                st, reads = self.entry(dyn, dc, fn)
                if st is None:
                    # no normal exit at all (e.g. `raise NotImplementedError`): nothing to say
                    continue
                row = {'cls': dyn, 'name': rname, 'reads': sorted(reads)}
                row.update(self.classify(st))
                out.append(row)
        return out

    def init_attrs(self, dyn):
        c, m = self.lookup(dyn, '__init__')
        if c is None:
            return []
        st, _ = self.entry(dyn, c, m.fn)
        if st is None:
            raise TranslateError('%s.__init__ always raises' % dyn)
        out = []
        for a, ks in sorted(st.kinds.items()):
            if ks == FU:
                continue
            if U in ks or L in ks:
                raise TranslateError('%s.__init__ initialises %s only on some paths' % (dyn, a))
            out.append((a, ks == {N}))
        return out

    def fills_of(self, dyn):
        return sorted((a, sorted(r)) for (d, a), r in self.fill_reads.items() if d == dyn)


# ---------------------------------------------------------------------- Lean text
def lean_str(s):
    if not all(32 <= ord(ch) < 127 and ch not in '"\\' for ch in s):
        raise TranslateError('unexpected character in identifier %r' % s)
    return '"%s"' % s


def lean_list(xs):
    return '[' + ', '.join(lean_str(x) for x in xs) + ']'


def lean_row(r):
    return ('  { cls := %s, name := %s,\n    clears := %s,\n    assigns := %s,\n    mayWrite := %s,\n    fills := %s,\n'
            '    reads := %s }'
            % (lean_str(r['cls']), lean_str(r['name']), lean_list(r['clears']), lean_list(r['assigns']),
               lean_list(r['mayWrite']), lean_list(r['fills']), lean_list(r['reads'])))


def lean_module(namespace, source_desc, classes, an, rows, extra=''):
    """the text of a Generated/*Effects.lean module"""
    out = ['-- GENERATED by harness/gen (effect analysis, harness/gen/_effects.py) from %s — do not edit.' % source_desc,
           '-- Re-emitted from the current /repo source on every check run.',
           'import PyPhysim.Model.CacheEffects',
           '',
           'namespace %s' % namespace,
           'open PyPhysim.CacheEffects',
           '',
           '/-- the analysed classes with their base-class chains (most derived first) -/',
           'def classChains : List (String × List String) := [']
    out.append(',\n'.join('  (%s, %s)' % (lean_str(c), lean_list(an.mro(c))) for c in classes) + ']')
    out += ['', '/-- data attributes an object has after `__init__` (per class); `true` = initialised to `None` -/',
            'def initAttrs : List (String × List (String × Bool)) := [']
    out.append(',\n'.join('  (%s, [%s])' % (lean_str(c), ', '.join('(%s, %s)' % (lean_str(a), 'true' if n else 'false')
                                                                   for a, n in an.init_attrs(c)))
                          for c in classes) + ']')
    out += ['', '/-- effect of every analysed entry point on the data attributes -/', 'def rows : List Row := [']
    out.append(',\n'.join(lean_row(r) for r in rows) + ']')
    out += ['', '/-- lazily filled attributes: (class, attribute, attributes read by the functions that fill it) -/',
            'def fillReads : List (String × String × List String) := [']
    fr = []
    for c in classes:
        for a, reads in an.fills_of(c):
            fr.append('  (%s, %s, %s)' % (lean_str(c), lean_str(a), lean_list(reads)))
    out.append(',\n'.join(fr) + ']')
    if extra:
        out += ['', extra]
    out += ['', 'end %s' % namespace, '']
    return '\n'.join(out)


# ---------------------------------------------------------------------- diagnosis of a broken bridge
def diagnose(core, ctx, tag, lean_text):
    """When the bridge theorems no longer compile, say WHICH comparison fails: `lean_text` is a Lean script
    that imports the (still compiling) lemma module and prints lines `DIAG <name> <value>`; every line whose
    value is not `ok` is recorded as a broken tie `effects:<name>`.  (Purely informative: the verdict is
    already 'theorem broken'; the failing-input search runs as for every broken obligation.)"""
    import os
    import re
    path = os.path.join(ctx.scratch, 'Diag_%s.lean' % tag)
    with open(path, 'w') as f:
        f.write(lean_text)
    try:
        rc, out = core.run(['lake', 'env', 'lean', path], cwd=core.LEAN_DIR, timeout=600)
    except Exception as e:   # the diagnosis is best effort
        ctx.notes.append('effect-table diagnosis not available: %s' % e)
        return
    found = False
    for m in re.finditer(r'^DIAG (\S+) (.*)$', out, re.M):
        found = True
        if m.group(2).strip() != 'ok':
            ctx.tie_broken('tie', 'effects:' + m.group(1), m.group(2).strip()[:1500])
            print('effect tables of the current source: %s: %s' % (m.group(1), m.group(2).strip()[:400]))
    if not found:
        ctx.notes.append('effect-table diagnosis produced no output: %s' % out[-400:])


# ---------------------------------------------------------------------- self test of the analysis
_SELFTEST_SRC = '''
class A:
    def __init__(self):
        self._x = 0
        self._c = None
        self._d = None
        self._e = self._f = None
    def _wipe(self):
        self._c = None
    def set_x(self, v):
        self._x = v
        self._wipe()
    def set_x_cond(self, v):
        self._x = v
        if v:
            self._c = None
    def set_x_early(self, v):
        self._x = v
        if v is None:
            return
        self._c = None
    def set_x_raise(self, v):
        if v < 0:
            raise ValueError("no")
        self._x = v
        self._c, self._d = None, None
    def set_chain(self):
        self._c = self._d = None
    @property
    def c(self):
        if self._c is None:
            self._c = self._x + 1
        return self._c
    @property
    def d(self):
        if self._d is not None:
            return self._d
        self._d = self.c * 2
        return self._d
    @property
    def x(self):
        return self._x
    @x.setter
    def x(self, v):
        self.set_x(v)
    def via_setter(self, v):
        self.x = v
    def loop(self, n):
        for i in range(n):
            self._e = i
        while n:
            n -= 1
            if n == 3:
                break
            self._f = None
    def inplace(self):
        self._x[0] = 1
    def tryit(self, v):
        old = self._x
        self._x = v
        try:
            self.set_x_raise(v)
        except Exception:
            self._x = old
            raise
    def reader(self):
        return self.d + self._e
    def escape(self):
        return helper(self)
    def clone(self):
        import copy
        other = copy.deepcopy(self)
        return other
    def fluent(self, v):
        self.x = v
        return self

class B(A):
    def __init__(self):
        super().__init__()
        self._g = None
    def set_x(self, v):
        A.set_x(self, v)
        self._g = None
    def _wipe(self):
        super()._wipe()
        self._d = None
'''


def selftest():
    """the abstract interpretation on a synthetic class chain with known answers (run by the plugins on every
    regeneration: a change of the analysis that alters its meaning is reported as a broken tie)"""
    tree = ast.parse(_SELFTEST_SRC)
    an = Analyzer([n for n in tree.body if isinstance(n, ast.ClassDef)])

    def row(cls, name):
        c, m = an.lookup(cls, name)
        if m.kind == 'property':
            fn, dc = (m.setter, m.setter_cls) if name.endswith('!') else (m.getter, m.getter_cls)
        else:
            fn, dc = m.fn, c
        st, reads = an.entry(cls, dc, fn)
        r = an.classify(st)
        return r['clears'], r['assigns'], r['mayWrite'], r['fills'], sorted(reads)

    def setter(cls, name):
        c, m = an.lookup(cls, name)
        st, reads = an.entry(cls, m.setter_cls, m.setter)
        r = an.classify(st)
        return r['clears'], r['assigns'], r['mayWrite'], r['fills'], sorted(reads)

    want = [
        (('A', 'set_x'), (['_c'], ['_x'], [], [], [])),
        (('A', 'set_x_cond'), ([], ['_x'], ['_c'], [], [])),
        (('A', 'set_x_early'), ([], ['_x'], ['_c'], [], [])),
        (('A', 'set_x_raise'), (['_c', '_d'], ['_x'], [], [], [])),
        (('A', 'set_chain'), (['_c', '_d'], [], [], [], [])),
        (('A', 'c'), ([], [], [], ['_c'], ['_c', '_x'])),
        (('A', 'd'), ([], [], [], ['_c', '_d'], ['_c', '_d', '_x'])),
        (('A', 'via_setter'), (['_c'], ['_x'], [], [], [])),
        (('A', 'loop'), ([], [], ['_e', '_f'], [], [])),
        (('A', 'inplace'), ([], ['_x'], [], [], ['_x'])),
        (('A', 'tryit'), (['_c', '_d'], ['_x'], [], [], ['_x'])),
        (('A', 'reader'), ([], [], [], ['_c', '_d'], ['_c', '_d', '_e', '_x'])),
        (('A', 'clone'), ([], [], [], [], [])),
        (('A', 'fluent'), (['_c'], ['_x'], [], [], [])),
        (('B', 'set_x'), (['_c', '_d', '_g'], ['_x'], [], [], [])),
        (('B', 'via_setter'), (['_c', '_d', '_g'], ['_x'], [], [], [])),
    ]
    for (cls, name), exp in want:
        got = row(cls, name)
        if got != exp:
            raise TranslateError('effect analysis self-test failed for %s.%s: %r, expected %r' % (cls, name, got, exp))
    if setter('B', 'x') != (['_c', '_d', '_g'], ['_x'], [], [], []):
        raise TranslateError('effect analysis self-test failed for the setter B.x')
    if an.init_attrs('B') != [('_c', True), ('_d', True), ('_e', True), ('_f', True), ('_g', True), ('_x', False)]:
        raise TranslateError('effect analysis self-test failed for B.__init__: %r' % (an.init_attrs('B'),))
    if dict(an.fills_of('A')) != {'_c': ['_x'], '_d': ['_c', '_x']}:
        raise TranslateError('effect analysis self-test failed for the fill read-sets: %r' % (an.fills_of('A'),))
    try:
        row('A', 'escape')
    except TranslateError:
        pass
    else:
        raise TranslateError('effect analysis self-test: an escaping self was not rejected')
