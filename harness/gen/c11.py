"""Translator plugin: the SINR / interference-covariance FORMULAS -> Lean (Generated/C11Formulas.lean).

Symbolic execution of
  MultiUserChannelMatrix._calc_Bkl_cov_matrix_first_part / _second_part / _all_l / _calc_SINR_k,
  the joint-processing `_impl` twins,
  IASolverBaseClass._calc_Bkl_cov_matrix_first_part / _second_part / _all_l / _calc_SINR_k
into expression TREES over the primitive matrix operations of the hand model (Model/C11.lean: matMul, cT,
madd, msub, smul, eye, colOf, rowOf, item, sumMat, RC.ofReal, RC.abs).  The composite definitions of the model
(covTerm, covTermS, chFirst, solBkl, sinrCore, ...) are NOT used: Properties/C11.lean proves that every
regenerated tree equals the model's definition for all arguments.

Accepted spellings (all leading to the same tree):
  np.dot(a, b) / a.dot(b) / a @ b / np.matmul(a, b);
  .conj() / .conjugate() / np.conj(x) / np.conjugate(x) and .T / .transpose() / np.transpose(x) in any order
    (a pair is the Hermitian transpose `cT`; a lone transpose / lone conjugation is emitted as `trOnly` /
    `cjOnly`, which no model definition contains);
  accumulation loop `acc = 0.0; for j in range(self.K): acc = acc + T(j)` (also `acc += T(j)`) and
    `sum(T(j) for j in range(self.K))`;
  private helpers of the class (called as self._h(...), Class._h(...), or handed over as bound methods /
    lambdas) are inlined; local names are free.
Everything else raises TranslateError => the tie is broken and the check fails.
The ORDER of operands of + and of matrix products is kept as written (binary64 addition is not associative; the
bridge theorems are `rfl` over an abstract scalar without algebraic laws).
"""
import ast
import os

from harness.translate import HEADER, TranslateError, parse_file


class Val:
    def __init__(self, kind, t=None, conj=False, tr=False, **kw):
        self.kind = kind      # mat | real | cplx | idxK | idxL | matlist | perl | count | closure | method | none
        #                       | array | divmat | self | cls | bkl
        self.t = t
        self.conj = conj
        self.tr = tr
        self.__dict__.update(kw)


def mat(t):
    return Val('mat', t)


def fin(v):
    """Lean term of a matrix value (pending conj / transpose flags applied)"""
    if v.kind != 'mat':
        raise TranslateError('matrix expected, found %s' % v.kind)
    if v.conj and v.tr:
        return '(cT %s)' % v.t
    if v.tr:
        return '(trOnly %s)' % v.t
    if v.conj:
        return '(cjOnly %s)' % v.t
    return v.t


class Exec:
    """symbolic execution of one method; `classes` = ClassDef nodes searched for private helpers"""

    def __init__(self, classes, hooks, assume):
        self.classes = classes
        self.hooks = hooks      # 'self.<attr>' / call text -> handler
        self.assume = assume
        self.depth = 0
        self.divisions = []

    # ------------------------------------------------------------------ helpers
    def find_method(self, name):
        for c in self.classes:
            found = [n for n in c.body if isinstance(n, ast.FunctionDef) and n.name == name]
            if len(found) > 1:
                raise TranslateError('method %s defined twice' % name)
            if found:
                for d in found[0].decorator_list:
                    if ast.unparse(d) not in ('staticmethod',):
                        raise TranslateError('method %s is wrapped by @%s' % (name, ast.unparse(d)))
                return found[0]
        return None

    def call_fn(self, fn, args, kwargs):
        if self.depth > 6:
            raise TranslateError('helper nesting too deep: ' + fn.name)
        params = [a.arg for a in fn.args.args]
        static = any(ast.unparse(d) == 'staticmethod' for d in fn.decorator_list)
        env = {}
        if not static:
            if not params or params[0] != 'self':
                raise TranslateError('method %s without self' % fn.name)
            env['self'] = Val('self')
            params = params[1:]
        defaults = fn.args.defaults
        dflt = dict(zip(params[len(params) - len(defaults):], defaults))
        if fn.args.vararg or fn.args.kwarg or fn.args.kwonlyargs:
            raise TranslateError('method %s: star arguments' % fn.name)
        if len(args) > len(params):
            raise TranslateError('too many arguments for ' + fn.name)
        for p, a in zip(params, args):
            env[p] = a
        for k, a in kwargs.items():
            if k not in params or k in env:
                raise TranslateError('bad keyword %s for %s' % (k, fn.name))
            env[k] = a
        for p in params:
            if p not in env:
                if p not in dflt:
                    raise TranslateError('missing argument %s of %s' % (p, fn.name))
                env[p] = self.expr(dflt[p], {})
        self.depth += 1
        try:
            r = self.block(fn.body, env)
        finally:
            self.depth -= 1
        if r is None:
            raise TranslateError('%s: no return value' % fn.name)
        return r

    # ------------------------------------------------------------------ statements
    def block(self, stmts, env):
        for st in stmts:
            r = self.stmt(st, env)
            if r is not None:
                return r
        return None

    def stmt(self, st, env):
        if isinstance(st, ast.Expr) and isinstance(st.value, ast.Constant):
            return None
        if isinstance(st, ast.Pass) or isinstance(st, ast.Assert):
            return None
        if isinstance(st, ast.Return):
            if st.value is None:
                raise TranslateError('bare return')
            return self.expr(st.value, env)
        if isinstance(st, ast.AnnAssign) and st.value is not None:
            st = ast.Assign(targets=[st.target], value=st.value)
        if isinstance(st, ast.Assign):
            if len(st.targets) != 1:
                raise TranslateError('chained assignment')
            tg = st.targets[0]
            v = self.expr(st.value, env)
            if isinstance(tg, ast.Name):
                env[tg.id] = v
                return None
            if isinstance(tg, ast.Subscript) and isinstance(tg.value, ast.Name):
                arr = env.get(tg.value.id)
                ix = self.expr(tg.slice, env)
                if arr is None or arr.kind != 'array' or ix.kind != 'idxL':
                    raise TranslateError('unsupported store: ' + ast.unparse(st))
                if getattr(arr, 'stored', None) is not None:
                    raise TranslateError('array written twice: ' + ast.unparse(st))
                arr.stored = v
                return None
            raise TranslateError('unsupported assignment: ' + ast.unparse(st))
        if isinstance(st, ast.AugAssign):
            if not isinstance(st.target, ast.Name) or not isinstance(st.op, (ast.Add, ast.Sub)):
                raise TranslateError('unsupported augmented assignment: ' + ast.unparse(st))
            env[st.target.id] = self.binop(st.op, env[st.target.id], self.expr(st.value, env))
            return None
        if isinstance(st, ast.If):
            c = self.cond(st.test, env)
            return self.block(st.body if c else st.orelse, env)
        if isinstance(st, ast.With):
            for it in st.items:
                if not ast.unparse(it.context_expr).startswith('np.errstate('):
                    raise TranslateError('unsupported with: ' + ast.unparse(it.context_expr))
            return self.block(st.body, env)
        if isinstance(st, ast.For):
            return self.loop(st, env)
        if isinstance(st, ast.FunctionDef):
            if st.decorator_list or st.args.defaults or st.args.vararg or st.args.kwarg or st.args.kwonlyargs:
                raise TranslateError('unsupported local function ' + st.name)
            env[st.name] = Val('localfn', fn=st, env=env)      # late binding, as in Python
            return None
        raise TranslateError('unsupported statement: ' + ast.unparse(st)[:80])

    def range_kind(self, it, env):
        """`range(self.K)` -> 'K' (users); `range(<stream count>)` -> 'L'"""
        if not (isinstance(it, ast.Call) and ast.unparse(it.func) == 'range' and len(it.args) == 1 and not it.keywords):
            raise TranslateError('unsupported loop range: ' + ast.unparse(it))
        a = self.expr(it.args[0], env)
        if a.kind == 'count' and a.t in ('K', 'L'):
            return a.t
        raise TranslateError('unsupported loop bound: ' + ast.unparse(it))

    def loop(self, st, env):
        if st.orelse:
            raise TranslateError('unsupported loop')
        pre = {}
        if isinstance(st.target, ast.Tuple) and len(st.target.elts) == 2 \
                and all(isinstance(x, ast.Name) for x in st.target.elts) and isinstance(st.iter, ast.Call) \
                and ast.unparse(st.iter.func) == 'enumerate' and len(st.iter.args) == 1 and not st.iter.keywords:
            # `for l, x in enumerate(<one value per stream>)`
            g = self.expr(st.iter.args[0], env)
            if g.kind != 'array' or not getattr(g, 'complete', False):
                raise TranslateError('unsupported enumerate: ' + ast.unparse(st.iter))
            rk, var = 'L', st.target.elts[0].id
            pre[st.target.elts[1].id] = g.stored
        else:
            if not isinstance(st.target, ast.Name):
                raise TranslateError('unsupported loop target')
            rk = self.range_kind(st.iter, env)
            var = st.target.id
        env.update(pre)
        if rk == 'L':
            # the loop over the streams of user k: the body is executed once, with the stream index symbolic;
            # every array written at [l] holds "the value for stream l"
            env[var] = Val('idxL', 'l')
            before = dict(env)
            r = self.block(st.body, env)
            if r is not None:
                raise TranslateError('return inside a loop')
            for k_, v in list(env.items()):
                if k_ in before and before[k_] is not v and k_ != var:
                    if before[k_].kind == 'mat' or before[k_].kind == 'real':
                        raise TranslateError('value carried across stream iterations: ' + k_)
            return None
        # loop over the users: accumulation only
        jname = 'j%d' % self.depth if self.depth else 'j'
        body_env = dict(env)
        body_env[var] = Val('idxK', jname)
        accs = {}
        for k_, v in env.items():
            if v.kind == 'real' and getattr(v, 'zero_lit', False):
                accs[k_] = Val('acc', k_)
                body_env[k_] = accs[k_]
        r = self.block(st.body, body_env)
        if r is not None:
            raise TranslateError('return inside a loop')
        for k_, a in accs.items():
            v = body_env[k_]
            if v is a:
                continue
            if v.kind != 'accsum' or v.acc is not a:
                raise TranslateError('loop variable %s is not a plain accumulation' % k_)
            env[k_] = mat('(sumMat K (fun %s => %s))' % (jname, v.t))
        for k_, v in body_env.items():
            if k_ not in accs and k_ in env and env[k_] is not v and k_ != var:
                raise TranslateError('value carried across user iterations: ' + k_)
        return None

    def cond(self, e, env):
        if isinstance(e, ast.BoolOp):
            vs = [self.cond(x, env) for x in e.values]
            return any(vs) if isinstance(e.op, ast.Or) else all(vs)
        if isinstance(e, ast.UnaryOp) and isinstance(e.op, ast.Not):
            return not self.cond(e.operand, env)
        if isinstance(e, ast.Compare) and len(e.ops) == 1:
            op, rhs = e.ops[0], e.comparators[0]
            if isinstance(op, (ast.Is, ast.IsNot)) and isinstance(rhs, ast.Constant) and rhs.value is None:
                v = self.expr(e.left, env)
                return (v.kind == 'none') == isinstance(op, ast.Is)
            if isinstance(op, ast.Eq) and isinstance(e.left, ast.Call) and ast.unparse(e.left.func) == 'np.ndim' \
                    and isinstance(rhs, ast.Constant) and rhs.value == 0:
                v = self.expr(e.left.args[0], env)
                if v.kind in ('real', 'mat'):
                    return v.kind == 'real'
        if isinstance(e, ast.Call) and ast.unparse(e.func) == 'isinstance' and len(e.args) == 2:
            what = ast.unparse(e.args[1])
            if what == 'Number':
                v = self.expr(e.args[0], env)
                if v.kind in ('real', 'mat'):
                    return v.kind == 'real'
            if ast.unparse(e.args[0]) == 'self._multiUserChannel' and what.endswith('MultiUserChannelMatrixExtInt'):
                return bool(self.assume['extint'])
        raise TranslateError('unsupported condition: ' + ast.unparse(e))

    # ------------------------------------------------------------------ expressions
    def binop(self, op, a, b):
        if isinstance(op, ast.Add):
            if a.kind == 'acc' and b.kind == 'mat':
                return Val('accsum', fin(b), acc=a)
            if a.kind == 'mat' and b.kind == 'acc':     # `acc = term + acc`: elementwise + is commutative, exactly
                return Val('accsum', fin(a), acc=b)
            if a.kind == 'mat' and b.kind == 'mat':
                x, y = fin(a), fin(b)
                # numpy's elementwise + is commutative (exactly, in binary64 too): `Rek + first_part` and
                # `first_part + Rek` are one tree, the accumulated sum first
                if 'sumMat' in y and 'sumMat' not in x:
                    x, y = y, x
                return mat('(madd %s %s)' % (x, y))
        if isinstance(op, ast.Sub) and a.kind == 'mat' and b.kind == 'mat':
            return mat('(msub %s %s)' % (fin(a), fin(b)))
        if isinstance(op, ast.Mult):
            if a.kind == 'real' and b.kind == 'mat':
                return mat('(smul (RC.ofReal %s) %s)' % (a.t, fin(b)))
            if a.kind == 'mat' and b.kind == 'real':
                return mat('(smulR %s %s)' % (fin(a), b.t))
        if isinstance(op, ast.Div) and a.kind == 'cplx' and b.kind == 'cplx':
            self.divisions.append((a.t, b.t))
            return Val('cplx', '(%s / %s)' % (a.t, b.t))
        if isinstance(op, ast.Div) and a.kind == 'mat' and b.kind == 'mat':
            return Val('divmat', a=a, b=b)      # only `.item()` is defined on it: the quotient of two 1x1 arrays
        if isinstance(op, ast.MatMult) and a.kind == 'mat' and b.kind == 'mat':
            return mat('(matMul %s %s)' % (fin(a), fin(b)))
        raise TranslateError('unsupported operation %s on %s, %s' % (type(op).__name__, a.kind, b.kind))

    def flip(self, v, conj=False, tr=False):
        if v.kind != 'mat':
            raise TranslateError('conjugate / transpose of a %s' % v.kind)
        return Val('mat', v.t, conj=v.conj != conj, tr=v.tr != tr)

    def is_l(self, e, env):
        return isinstance(e, ast.Name) and env.get(e.id) is not None and env[e.id].kind == 'idxL'

    def is_l1_slice(self, s, env):
        return (isinstance(s, ast.Slice) and s.step is None and s.lower is not None and s.upper is not None
                and self.is_l(s.lower, env) and ast.unparse(s.upper) in (s.lower.id + ' + 1', '1 + ' + s.lower.id))

    @staticmethod
    def is_full(s):
        return isinstance(s, ast.Slice) and s.lower is None and s.upper is None and s.step is None

    def expr(self, e, env):
        txt = ast.unparse(e)
        if txt in self.hooks:
            return self.hooks[txt](self, e, env)
        if isinstance(e, ast.Call) and ast.unparse(e.func) in ChannelHooks.GETTERS:
            return ChannelHooks.channel(self, e, env)
        if isinstance(e, ast.IfExp):
            return self.expr(e.body if self.cond(e.test, env) else e.orelse, env)
        if isinstance(e, ast.Name):
            if e.id in env:
                return env[e.id]
            if any(c.name == e.id for c in self.classes):
                return Val('cls')
            raise TranslateError('unknown name ' + e.id)
        if isinstance(e, ast.Constant):
            if e.value is None:
                return Val('none')
            if isinstance(e.value, (int, float)) and not isinstance(e.value, bool) and e.value == 0:
                return Val('real', '(0 : ρ)', zero_lit=True)
            raise TranslateError('unsupported literal %r' % (e.value,))
        if isinstance(e, ast.Lambda):
            if e.args.defaults or e.args.vararg or e.args.kwarg or e.args.kwonlyargs:
                raise TranslateError('unsupported lambda')
            return Val('closure', node=e, env=dict(env))
        if isinstance(e, ast.BinOp):
            return self.binop(e.op, self.expr(e.left, env), self.expr(e.right, env))
        if isinstance(e, (ast.GeneratorExp, ast.ListComp)):
            if len(e.generators) != 1 or e.generators[0].ifs or not isinstance(e.generators[0].target, ast.Name) \
                    or self.range_kind(e.generators[0].iter, env) != 'L':
                raise TranslateError('unsupported comprehension: ' + txt)
            env2 = dict(env)
            env2[e.generators[0].target.id] = Val('idxL', 'l')
            return Val('array', stored=self.expr(e.elt, env2), complete=True)
        if isinstance(e, ast.Attribute):
            if e.attr == 'T':
                return self.flip(self.expr(e.value, env), tr=True)
            if e.attr == 'H':
                return self.flip(self.expr(e.value, env), tr=True, conj=True)
            base = self.expr(e.value, env)
            if e.attr == 'shape' and base.kind == 'mat':
                return Val('shape')
            if base.kind in ('self', 'cls'):
                fn = self.find_method(e.attr)
                if fn is not None and e.attr.startswith('_') and not e.attr.startswith('__'):
                    return Val('method', fn=fn)
            raise TranslateError('unsupported attribute: ' + txt)
        if isinstance(e, ast.Subscript):
            base = self.expr(e.value, env)
            s = e.slice
            if base.kind == 'mat' and isinstance(s, ast.Tuple) and len(s.elts) == 2:
                a, b = s.elts
                if self.is_full(a) and self.is_l1_slice(b, env):
                    return mat('(colOf %s %s)' % (fin(base), env[b.lower.id].t))
                if self.is_l1_slice(a, env) and self.is_full(b):
                    return mat('(rowOf %s %s)' % (fin(base), env[a.lower.id].t))
                raise TranslateError('unsupported slice: ' + txt)
            ix = self.expr(s, env)
            if base.kind == 'matlist':
                return base.at(ix)
            if base.kind == 'bkl' and ix.kind == 'idxL':
                return mat(base.t)
            if base.kind == 'shape' and isinstance(s, ast.Constant) and s.value == 1:
                return Val('count', 'L')
            raise TranslateError('unsupported subscript: ' + txt)
        if isinstance(e, ast.Call):
            return self.call(e, env)
        raise TranslateError('unsupported expression: ' + txt[:80])

    def call(self, e, env):
        f = e.func
        ftxt = ast.unparse(f)
        args = e.args
        if any(isinstance(a, ast.Starred) for a in args) or any(k.arg is None for k in e.keywords):
            raise TranslateError('star arguments: ' + ast.unparse(e))
        kw = {k.arg: k.value for k in e.keywords}
        if ftxt in ('np.dot', 'np.matmul') and len(args) == 2 and not kw:
            return self.binop(ast.MatMult(), self.expr(args[0], env), self.expr(args[1], env))
        if ftxt in ('np.conj', 'np.conjugate') and len(args) == 1 and not kw:
            return self.flip(self.expr(args[0], env), conj=True)
        if ftxt == 'np.transpose' and len(args) == 1 and not kw:
            return self.flip(self.expr(args[0], env), tr=True)
        if ftxt == 'np.eye' and len(args) == 1 and not kw:
            if ast.unparse(args[0]) != 'self.Nr[k]' or env.get('k') is None or env['k'].kind != 'idxK':
                raise TranslateError('np.eye of something that is not self.Nr[k]')
            return mat('(eye : Mat α n n)')
        if ftxt in ('np.abs', 'abs', 'np.absolute') and len(args) == 1 and not kw:
            v = self.expr(args[0], env)
            if v.kind != 'cplx':
                raise TranslateError('np.abs of a %s' % v.kind)
            return Val('real', '(RC.abs %s)' % v.t)
        if ftxt == 'np.divide' and len(args) == 2 and not kw:
            return Val('divmat', a=self.expr(args[0], env), b=self.expr(args[1], env))
        if ftxt in ('cast', 'typing.cast') and len(args) == 2 and not kw:
            return self.expr(args[1], env)
        if ftxt in ('np.array', 'np.asarray') and len(args) == 1 and isinstance(args[0], ast.ListComp):
            return self.expr(args[0], env)
        if ftxt == 'np.empty':
            return Val('array', stored=None)
        if ftxt == 'sum' and len(args) + len(kw) == 2 and isinstance(args[0], ast.GeneratorExp):
            st0 = args[1] if len(args) == 2 else kw.get('start')
            if not (isinstance(st0, ast.Constant) and isinstance(st0.value, (int, float))
                    and not isinstance(st0.value, bool) and st0.value == 0):
                raise TranslateError('sum() with a start value other than 0')
            args, kw = args[:1], {}
        if ftxt == 'sum' and len(args) == 1 and not kw and isinstance(args[0], ast.GeneratorExp):
            g = args[0]
            if len(g.generators) != 1 or g.generators[0].ifs or not isinstance(g.generators[0].target, ast.Name):
                raise TranslateError('unsupported generator: ' + ast.unparse(g))
            if self.range_kind(g.generators[0].iter, env) != 'K':
                raise TranslateError('sum over something that is not range(self.K)')
            jname = 'j%d' % self.depth if self.depth else 'j'
            env2 = dict(env)
            env2[g.generators[0].target.id] = Val('idxK', jname)
            return mat('(sumMat K (fun %s => %s))' % (jname, fin(self.expr(g.elt, env2))))
        if isinstance(f, ast.Attribute):
            if f.attr in ('conj', 'conjugate') and not args and not kw:
                return self.flip(self.expr(f.value, env), conj=True)
            if f.attr == 'transpose' and not args and not kw:
                return self.flip(self.expr(f.value, env), tr=True)
            if f.attr == 'dot' and len(args) == 1 and not kw:
                return self.binop(ast.MatMult(), self.expr(f.value, env), self.expr(args[0], env))
            if f.attr == 'item' and not args and not kw:
                v = self.expr(f.value, env)
                if v.kind == 'divmat':
                    return self.binop(ast.Div(), Val('cplx', '(item %s)' % fin(v.a)), Val('cplx', '(item %s)' % fin(v.b)))
                return Val('cplx', '(item %s)' % fin(v))
        fv = self.expr(f, env)
        avs = [self.expr(a, env) for a in args]
        kvs = {k: self.expr(v, env) for k, v in kw.items()}
        if fv.kind == 'method':
            return self.call_fn(fv.fn, avs, kvs)
        if fv.kind == 'localfn':
            ps = [a.arg for a in fv.fn.args.args]
            if len(ps) != len(avs) or kvs:
                raise TranslateError('local function called with wrong arity')
            env2 = dict(fv.env)
            env2.update(zip(ps, avs))
            if self.depth > 6:
                raise TranslateError('nesting too deep')
            self.depth += 1
            try:
                r = self.block(fv.fn.body, env2)
            finally:
                self.depth -= 1
            if r is None:
                raise TranslateError('local function without a value')
            return r
        if fv.kind == 'closure':
            ps = [a.arg for a in fv.node.args.args]
            if len(ps) != len(avs) or kvs:
                raise TranslateError('lambda called with wrong arity')
            env2 = dict(fv.env)
            env2.update(zip(ps, avs))
            return self.expr(fv.node.body, env2)
        raise TranslateError('unsupported call: ' + ast.unparse(e)[:80])


# ---------------------------------------------------------------------- hooks (the data the formulas read)
def _need_k(first, env, what):
    if not (isinstance(first, ast.Name) and env.get(first.id) is not None and env[first.id].kind == 'idxK'
            and env[first.id].t == 'k'):
        raise TranslateError('%s: the receiver index must be k' % what)


class ChannelHooks(dict):
    """`self.get_Hkl(k, j)` / `self._get_channel(k, j)` -> `(G j)` (the row of channels into receiver k)"""
    GETTERS = ('self.get_Hkl', 'self._get_channel')

    @staticmethod
    def channel(ex, e, env):
        if len(e.args) != 2 or e.keywords:
            raise TranslateError('channel getter arity')
        _need_k(e.args[0], env, ast.unparse(e))
        j = ex.expr(e.args[1], env)
        if j.kind != 'idxK':
            raise TranslateError('channel getter: transmitter index')
        return mat('(G %s)' % j.t)


def matlist(name):
    def at(ix):
        if ix.kind != 'idxK':
            raise TranslateError('%s indexed by a %s' % (name, ix.kind))
        return mat('(%s %s)' % (name, ix.t))
    return Val('matlist', at=at)


def reallist(name):
    def at(ix):
        if ix.kind != 'idxK':
            raise TranslateError('%s indexed by a %s' % (name, ix.kind))
        return Val('real', '(%s %s)' % (name, ix.t))
    return Val('matlist', at=at)


def find_class(tree, name):
    for n in tree.body:
        if isinstance(n, ast.ClassDef) and n.name == name:
            return n
    raise TranslateError('class %s not found' % name)


CH_VARS = ('variable {α ρ : Type} [Zero α] [One α] [Add α] [Sub α] [Mul α] [Div α] [Conj α] [RC ρ α] [Zero ρ]\n'
           'variable {K n : Nat} {T S : Fin K → Nat}\n')
GV = '(G : (j : Fin K) → Mat α n (T j)) (V : (j : Fin K) → Mat α (T j) (S j))'
GVFP = GV + ' (F : (j : Fin K) → Mat α (T j) (S j)) (P : Fin K → ρ)'


def gen(repo):
    mu = parse_file(os.path.join(repo, 'pyphysim/channels/multiuser.py'))
    ia = parse_file(os.path.join(repo, 'pyphysim/ia/iabase.py'))
    cCh = find_class(mu, 'MultiUserChannelMatrix')
    cIa = find_class(ia, 'IASolverBaseClass')
    out = []
    kK = Val('idxK', 'k')
    lL = Val('idxL', 'l')

    def method(cls, name):
        found = [n for n in cls.body if isinstance(n, ast.FunctionDef) and n.name == name]
        if len(found) != 1:
            raise TranslateError('%s.%s: %d definitions' % (cls.name, name, len(found)))
        for d in found[0].decorator_list:
            if ast.unparse(d) != 'staticmethod':
                raise TranslateError('%s is wrapped by @%s' % (name, ast.unparse(d)))
        return found[0]

    def run(ex, fn, argmap):
        params = [a.arg for a in fn.args.args if a.arg != 'self']
        if sorted(params) != sorted(argmap):
            raise TranslateError('%s: parameters are %s, expected %s' % (fn.name, params, sorted(argmap)))
        return ex.call_fn(fn, [argmap[p] for p in params], {})

    def per_l(v, what):
        if v.kind != 'array' or v.stored is None:
            raise TranslateError('%s: the result is not an array written once per stream' % what)
        return v.stored

    # ------------------------------------------------------------ channel object (interference channel)
    hooks = ChannelHooks()
    hooks['self.K'] = lambda ex, e, env: Val('count', 'K')

    def shape_hook(ex, e, env):
        return Val('count', 'L')
    hooks['F_all_users[k].shape[1]'] = shape_hook
    hooks['Fk.shape[1]'] = shape_hook

    def ch(assume=None):
        return Exec((cCh,), hooks, assume or {})

    f1 = method(cCh, '_calc_Bkl_cov_matrix_first_part')
    for nm, arg, extra in (('chFirstNone', Val('none'), ''),
                           ('chFirstScalar', Val('real', 'c'), ' (c : ρ)'),
                           ('chFirstMat', mat('Rek'), ' (Rek : Mat α n n)')):
        v = run(ch(), f1, {'F_all_users': matlist('V'), 'k': kK, 'N0_or_Rek': arg})
        out.append('def %s %s (k : Fin K)%s : Mat α n n :=\n  %s\n' % (nm, GV, extra, fin(v)))
    f2 = method(cCh, '_calc_Bkl_cov_matrix_second_part')
    v = run(ch(), f2, {'Fk': mat('Fk'), 'k': kK, 'l': lL})
    out.append('def chSecond (G : (j : Fin K) → Mat α n (T j)) (k : Fin K) {s : Nat} (Fk : Mat α (T k) s) (l : Fin s) '
               ': Mat α n n :=\n  %s\n' % fin(v))
    f3 = method(cCh, '_calc_Bkl_cov_matrix_all_l')
    for nm, arg, extra in (('chBklScalar', Val('real', 'c'), ' (c : ρ)'),
                           ('chBklMat', mat('Rek'), ' (Rek : Mat α n n)')):
        v = per_l(run(ch(), f3, {'F_all_users': matlist('V'), 'k': kK, 'N0_or_Rek': arg}), nm)
        out.append('def %s %s (k : Fin K)%s (l : Fin (S k)) : Mat α n n :=\n  %s\n' % (nm, GV, extra, fin(v)))
    f4 = method(cCh, '_calc_SINR_k')
    ex = ch()
    v = per_l(run(ex, f4, {'k': kK, 'Fk': mat('Fk'), 'Uk': mat('Uk'), 'Bkl_all_l': Val('bkl', 'B')}), 'chSinr')
    if v.kind != 'real' or len(ex.divisions) != 1:
        raise TranslateError('_calc_SINR_k: one quotient under np.abs expected')
    sig = ('(G : (j : Fin K) → Mat α n (T j)) (k : Fin K) {s : Nat} (Fk : Mat α (T k) s) (Uk : Mat α n s) '
           '(B : Mat α n n) (l : Fin s)')
    out.append('def chSinrDen %s : α :=\n  %s\n' % (sig, ex.divisions[0][1]))
    out.append('def chSinrVal %s : ρ :=\n  %s\n' % (sig, v.t))

    # ------------------------------------------------------------ joint processing (`_impl` twins: one channel Hk)
    jp = []
    try:
        g1 = method(cCh, '_calc_JP_Bkl_cov_matrix_first_part_impl')
        v = run(ch(), g1, {'Hk': mat('Hk'), 'F_all_users': matlist('V'), 'Rek': mat('Rek')})
        jp.append('def jpFirst {t : Nat} (Hk : Mat α n t) {s : Fin K → Nat} (V : (j : Fin K) → Mat α t (s j)) '
                  '(Rek : Mat α n n) : Mat α n n :=\n  %s\n' % fin(v))
        g2 = method(cCh, '_calc_JP_Bkl_cov_matrix_second_part_impl')
        v = run(ch(), g2, {'Hk': mat('Hk'), 'Fk': mat('Fk'), 'l': lL})
        jp.append('def jpSecond {t s : Nat} (Hk : Mat α n t) (Fk : Mat α t s) (l : Fin s) : Mat α n n :=\n  %s\n' % fin(v))
        g4 = method(cCh, '_calc_JP_SINR_k_impl')
        ex = ch()
        v = per_l(run(ex, g4, {'Hk': mat('Hk'), 'Fk': mat('Fk'), 'Uk': mat('Uk'), 'Bkl_all_l': Val('bkl', 'B')}), 'jpSinr')
        if v.kind != 'real' or len(ex.divisions) != 1:
            raise TranslateError('_calc_JP_SINR_k_impl: one quotient under np.abs expected')
        sig = '{t s : Nat} (Hk : Mat α n t) (Fk : Mat α t s) (Uk : Mat α n s) (B : Mat α n n) (l : Fin s)'
        jp.append('def jpSinrDen %s : α :=\n  %s\n' % (sig, ex.divisions[0][1]))
        jp.append('def jpSinrVal %s : ρ :=\n  %s\n' % (sig, v.t))
    except TranslateError as e:
        raise TranslateError('joint processing: %s' % e)
    out += jp

    # ------------------------------------------------------------ IA solver
    sh = ChannelHooks()
    sh['self.K'] = lambda ex, e, env: Val('count', 'K')
    sh['self.full_F'] = lambda ex, e, env: matlist('V')
    sh['self._F'] = lambda ex, e, env: matlist('F')
    sh['self.P'] = lambda ex, e, env: reallist('P')
    sh['self._P'] = sh['self.P']
    sh['self.noise_var'] = lambda ex, e, env: Val('real', 'noise')
    sh['self._Ns[k]'] = lambda ex, e, env: Val('count', 'L')
    sh['self.Ns[k]'] = sh['self._Ns[k]']
    sh['self.full_W_H[k]'] = lambda ex, e, env: mat('WHk')
    sh['self._multiUserChannel.calc_cov_matrix_extint_without_noise()[k]'] = lambda ex, e, env: mat('Ext')

    def so(assume=None):
        return Exec((cIa,), sh, assume or {'extint': False})

    s1 = method(cIa, '_calc_Bkl_cov_matrix_first_part')
    v = run(so(), s1, {'k': kK})
    out.append('def solFirst %s (k : Fin K) : Mat α n n :=\n  %s\n' % (GVFP, fin(v)))
    s2 = method(cIa, '_calc_Bkl_cov_matrix_second_part')
    v = run(so(), s2, {'k': kK, 'l': lL})
    out.append('def solSecond %s (k : Fin K) (l : Fin (S k)) : Mat α n n :=\n  %s\n' % (GVFP, fin(v)))
    s3 = method(cIa, '_calc_Bkl_cov_matrix_all_l')
    for nm, ext, extra in (('solBklPlain', False, ''), ('solBklExt', True, ' (Ext : Mat α n n)')):
        texts = []
        for arg in (Val('real', 'noise'), Val('none')):
            v = per_l(run(so({'extint': ext}), s3, {'k': kK, 'noise_power': arg}), nm)
            texts.append(fin(v))
        if texts[0] != texts[1]:
            raise TranslateError('solver _calc_Bkl_cov_matrix_all_l: a given noise power and self.noise_var are used '
                                 'differently')
        out.append('def %s %s (k : Fin K) (noise : ρ)%s (l : Fin (S k)) : Mat α n n :=\n  %s\n'
                   % (nm, GVFP, extra, texts[0]))
    s4 = method(cIa, '_calc_SINR_k')
    ex = so()
    v = per_l(run(ex, s4, {'k': kK, 'Bkl_all_l': Val('bkl', 'B')}), 'solSinr')
    if v.kind != 'real' or len(ex.divisions) != 1:
        raise TranslateError('solver _calc_SINR_k: one quotient under np.abs expected')
    sig = GVFP + ' (k : Fin K) (WHk : Mat α (S k) n) (B : Mat α n n) (l : Fin (S k))'
    out.append('def solSinrDen %s : α :=\n  %s\n' % (sig, ex.divisions[0][1]))
    out.append('def solSinrVal %s : ρ :=\n  %s\n' % (sig, v.t))

    pre = ('/-- a transpose that is NOT paired with a conjugation (no model definition contains it) -/\n'
           'def trOnly {m n : Nat} (A : Mat α m n) : Mat α n m := fun i j => A j i\n'
           '/-- a conjugation that is NOT paired with a transpose -/\n'
           'def cjOnly {m n : Nat} (A : Mat α m n) : Mat α m n := fun i j => Conj.conj (A i j)\n'
           '/-- `M * c` with a real scalar on the right -/\n'
           'def smulR {m n : Nat} (A : Mat α m n) (c : ρ) : Mat α m n := fun i j => A i j * RC.ofReal c\n')
    return (HEADER % ('pyphysim/channels/multiuser.py (MultiUserChannelMatrix._calc_Bkl_cov_matrix_*, _calc_SINR_k, '
                      '_calc_JP_*_impl), pyphysim/ia/iabase.py (IASolverBaseClass._calc_Bkl_cov_matrix_*, _calc_SINR_k)')
            + 'import PyPhysim.Model.C11\nset_option linter.unusedVariables false\n'
            + 'namespace PyPhysim.Generated.C11\nopen PyPhysim.Sinr\n\n' + CH_VARS + '\n' + pre + '\n'
            + '\n'.join(out) + '\nend PyPhysim.Generated.C11\n')


TARGETS = {'C11Formulas': gen}
