"""Translator plugin for C05: Generated/C05Loop.lean.

Re-emits, from the current AST of `SimulationRunner._simulate_for_current_params_common`
(runner.py), the control skeleton of one parameter variation as a small automaton in
"ask" normal form, over the outcome / state vocabulary of the hand model `Model/C05.lean`:

  * the method is executed SYMBOLICALLY (private `self.__helper(..)` methods are inlined,
    `while` / `while True` + `break` / `continue`, `if`, `try .. except SkipThisOne .. else`,
    tuple returns are followed) from its entry up to the next call of
    `__run_simulation_and_track_elapsed_time` (a *cut*: the program waits for an outcome of
    the user's `_run_simulation`) or up to `return`;
  * every cut (program point = continuation stack) becomes one constructor `askN` of the
    inductive `Ctl`, whose arguments are the values that are live there and not constant
    (found by a widening fixpoint followed by a liveness pass; arguments are ordered by first
    use, so the names of the Python locals play no role);
  * `entry start`, `onOk c r`, `onSkip c` are the decision trees over the tests the code
    makes (`self._keep_going(params, results, rep)`, `rep < self.rep_max`, IN SOURCE ORDER)
    between two cuts, with the updates (merge, counters) at the leaves;
  * `ret` carries what is returned and what is handed to the final `save_partial_results`.

The theorem `generated_loop_matches_model` (Properties/C05.lean) proves that running this
automaton over any outcome stream equals the hand model's `runVariation`.

Fragment: anything the symbolic executor does not know raises TranslateError => tie broken.
"""
import ast
import copy
import os

from harness.translate import TranslateError, parse_file, find_fn

RUNNER = 'pyphysim/simulations/runner.py'
PARAMS = 'pyphysim/simulations/parameters.py'
CLASS = 'SimulationRunner'
METHOD = '_simulate_for_current_params_common'
CONSUME = ('__run_simulation_and_track_elapsed_time', '_run_simulation')
HOOKS = ('_on_simulate_current_params_start', '_on_simulate_current_params_finish')
SKIPNAME = 'num_skipped_reps'
FUEL = 4000


def _err(msg, node=None):
    where = ' (line %d)' % node.lineno if node is not None and hasattr(node, 'lineno') else ''
    raise TranslateError('C05Loop: ' + msg + where)


# ---------------------------------------------------------------- symbolic values
# ('none',) | ('int', sym|None, c) | ('obj', oid) | ('tuple', (vals..)) | ('bool', b) | ('opaque',) |
# ('self',) | ('params',) | ('progress',) | ('repmax',)
# contents: ('sym', name) | ('merge', a, b)
NONE = ('none',)
OPAQUE = ('opaque',)


def const(c):
    return ('int', None, c)


class Cfg:
    """kont: tuple of frames (top last); envs: list of dicts (one per inlined call); heap: oid -> dict"""

    def __init__(self, kont, envs, heap, log=()):
        self.kont, self.envs, self.heap, self.log = kont, envs, heap, log

    def fork(self):
        return Cfg(self.kont, copy.deepcopy(self.envs), copy.deepcopy(self.heap), self.log)

    @property
    def env(self):
        return self.envs[-1]

    def push(self, fr):
        self.kont = self.kont + (fr,)

    def pop(self):
        fr = self.kont[-1]
        self.kont = self.kont[:-1]
        return fr

    def new_obj(self, content, skipped=None, rep=None):
        oid = 1 + max([0] + list(self.heap))
        self.heap[oid] = {'content': content, 'skipped': skipped, 'rep': rep}
        return ('obj', oid)


class Skip(Exception):
    pass


def is_self_attr(e, names=None):
    return (isinstance(e, ast.Attribute) and isinstance(e.value, ast.Name) and e.value.id == 'self'
            and (names is None or e.attr in names))


def is_self_call(e, names=None):
    return isinstance(e, ast.Call) and is_self_attr(e.func, names)


def is_saver_call(e, name):
    f = e.func if isinstance(e, ast.Call) else None
    return (isinstance(f, ast.Attribute) and f.attr == name and is_self_attr(f.value, ('_simulation_results_saver',)))


def is_helper_call(e):
    return (is_self_call(e) and e.func.attr.startswith('__') and not e.func.attr.endswith('__')
            and e.func.attr not in CONSUME)


class Hoist(ast.NodeTransformer):
    """pull calls that consume an outcome / calls of private helpers out of a simple statement"""

    def __init__(self, counter):
        self.pre, self.counter = [], counter

    def visit_Call(self, node):
        node = self.generic_visit(node)
        if is_self_call(node, CONSUME) or is_helper_call(node):
            self.counter[0] += 1
            name = '%%t%d' % self.counter[0]
            self.pre.append(ast.copy_location(ast.Assign(targets=[ast.Name(id=name, ctx=ast.Store())], value=node), node))
            return ast.copy_location(ast.Name(id=name, ctx=ast.Load()), node)
        return node

    def visit_Lambda(self, node):
        return node


class Exec:
    def __init__(self, tree):
        self.tree = tree
        self.cls = [n for n in tree.body if isinstance(n, ast.ClassDef) and n.name == CLASS]
        if not self.cls:
            _err('class %s not found' % CLASS)
        self.fn = find_fn(tree, METHOD, CLASS)
        self.counter = [0]
        self.prepped = {}
        self.fuel = 0

    # -------------------------------------------------------------- statements preparation
    def prep(self, stmts):
        key = id(stmts)
        if key in self.prepped:
            return self.prepped[key][1]
        out = []
        for s in stmts:
            if isinstance(s, ast.Expr) and isinstance(s.value, ast.Constant):
                continue
            if isinstance(s, (ast.Pass, ast.Assert)):
                continue
            if isinstance(s, (ast.Assign, ast.AugAssign, ast.Expr, ast.Return, ast.AnnAssign)):
                direct = s.value if not isinstance(s, ast.Return) or s.value is not None else None
                if isinstance(s, ast.Assign) and (is_self_call(direct, CONSUME) or is_helper_call(direct)):
                    h = Hoist(self.counter)
                    direct.args = [h.visit(a) for a in direct.args]
                    out.extend(h.pre)
                    out.append(s)
                    continue
                h = Hoist(self.counter)
                s2 = h.visit(s)
                out.extend(h.pre)
                out.append(s2)
            else:
                out.append(s)
        self.prepped[key] = (stmts, out)      # keep `stmts` alive: id() must stay unique
        return out

    def helper(self, name):
        fns = [n for n in self.cls[0].body if isinstance(n, ast.FunctionDef) and n.name == name]
        if len(fns) != 1:
            _err('private helper %s not found (or defined twice)' % name)
        fn = fns[0]
        decs = [ast.unparse(d) for d in fn.decorator_list]
        if any(d != 'staticmethod' for d in decs):
            _err('helper %s has a decorator the translator does not model' % name)
        return fn, 'staticmethod' in decs

    # -------------------------------------------------------------- expressions
    def ev(self, e, c):
        if isinstance(e, ast.Constant):
            if e.value is None:
                return NONE
            if isinstance(e.value, bool):
                return ('bool', e.value)
            if isinstance(e.value, int):
                return const(e.value)
            return OPAQUE
        if isinstance(e, ast.Name):
            if e.id not in c.env:
                if e.id in ('Result',):
                    return OPAQUE
                _err('name %s is not bound on this path' % e.id, e)
            return c.env[e.id]
        if isinstance(e, ast.Tuple):
            return ('tuple', tuple(self.ev(x, c) for x in e.elts))
        if isinstance(e, ast.Attribute):
            if is_self_attr(e, ('rep_max',)):
                return ('repmax',)
            if is_self_attr(e):
                return OPAQUE
            v = self.ev(e.value, c)
            if v[0] == 'obj' and e.attr == 'current_rep':
                r = c.heap[v[1]]['rep']
                if r is None:
                    _err('.current_rep read from a results object that was not loaded from a file', e)
                return r
            if v[0] == 'opaque':
                return OPAQUE
            _err('attribute %s of %s' % (e.attr, v[0]), e)
        if isinstance(e, ast.BinOp) and isinstance(e.op, (ast.Add, ast.Sub)):
            a, b = self.ev(e.left, c), self.ev(e.right, c)
            if a[0] == 'int' and b[0] == 'int' and b[1] is None:
                k = b[2] if isinstance(e.op, ast.Add) else -b[2]
                return ('int', a[1], a[2] + k)
            if a[0] == 'int' and b[0] == 'int' and a[1] is None and isinstance(e.op, ast.Add):
                return ('int', b[1], a[2] + b[2])
            _err('arithmetic outside the fragment: %s' % ast.unparse(e), e)
        if is_saver_call(e, 'load_partial_results'):
            if '%loaded' not in c.envs[0]:
                _err('load_partial_results is called twice', e)
            return c.envs[0].pop('%loaded')
        if is_saver_call(e, 'save_partial_results'):
            self.final_save(e, c)
            return OPAQUE
        _err('expression outside the fragment: %s' % ast.unparse(e)[:80], e)

    def final_save(self, e, c):
        if len(e.args) != 3 or e.keywords:
            _err('save_partial_results: expected (rep, params, results)', e)
        rep, par, obj = [self.ev(a, c) for a in e.args]
        if rep[0] != 'int' or par[0] != 'params' or obj[0] != 'obj':
            _err('save_partial_results: expected (rep, params, results)', e)
        h = c.heap[obj[1]]
        c.log = c.log + (('save', rep, h['content'], h['skipped']),)

    # -------------------------------------------------------------- tests (forking)
    def test(self, e, c, kt, kf):
        if isinstance(e, ast.BoolOp):
            vals = e.values

            def chain(i, c):
                if i == len(vals) - 1:
                    return self.test(vals[i], c, kt, kf)
                if isinstance(e.op, ast.And):
                    return self.test(vals[i], c, lambda c2: chain(i + 1, c2), kf)
                return self.test(vals[i], c, kt, lambda c2: chain(i + 1, c2))
            return chain(0, c)
        if isinstance(e, ast.UnaryOp) and isinstance(e.op, ast.Not):
            return self.test(e.operand, c, kf, kt)
        if isinstance(e, ast.Constant) and isinstance(e.value, bool):
            return kt(c) if e.value else kf(c)
        if isinstance(e, ast.Name):
            v = self.ev(e, c)
            if v[0] == 'bool':
                return kt(c) if v[1] else kf(c)
            _err('truth value of %s (%s) is not known' % (e.id, v[0]), e)
        if isinstance(e, ast.Compare) and len(e.ops) == 1:
            op, a, b = e.ops[0], self.ev(e.left, c), self.ev(e.comparators[0], c)
            if isinstance(op, (ast.Is, ast.IsNot)):
                if b != NONE or a[0] not in ('none', 'obj'):
                    _err('identity test outside the fragment: %s' % ast.unparse(e), e)
                r = (a == NONE) == isinstance(op, ast.Is)
                return kt(c) if r else kf(c)
            if isinstance(op, (ast.Lt, ast.LtE, ast.Gt, ast.GtE)):
                if a[0] == 'repmax' and b[0] == 'int':      # mirrored comparison
                    a, b = b, a
                    op = {ast.Lt: ast.Gt, ast.LtE: ast.GtE, ast.Gt: ast.Lt, ast.GtE: ast.LtE}[type(op)]()
                if a[0] == 'int' and b[0] == 'repmax':
                    # rep < max | rep <= max | not (rep <= max) | not (rep < max)
                    kind, neg = {ast.Lt: ('lt', False), ast.LtE: ('le', False),
                                 ast.Gt: ('le', True), ast.GtE: ('lt', True)}[type(op)]
                    atom = (kind, a)
                    t, f = (kf, kt) if neg else (kt, kf)
                    return ('if', atom, t(c.fork()), f(c.fork()))
                if a[0] == 'int' and b[0] == 'int' and a[1] is None and b[1] is None:
                    r = {ast.Lt: a[2] < b[2], ast.LtE: a[2] <= b[2], ast.Gt: a[2] > b[2], ast.GtE: a[2] >= b[2]}[type(op)]
                    return kt(c) if r else kf(c)
            _err('comparison outside the fragment: %s' % ast.unparse(e), e)
        if is_self_call(e, ('_keep_going',)):
            if len(e.args) != 3 or e.keywords:
                _err('_keep_going: expected (params, results, rep)', e)
            par, obj, rep = [self.ev(a, c) for a in e.args]
            if par[0] != 'params' or obj[0] != 'obj' or rep[0] != 'int':
                _err('_keep_going: expected (params, results, rep)', e)
            h = c.heap[obj[1]]
            if h['skipped'] is None:
                _err('_keep_going consulted on results without the num_skipped_reps entry', e)
            atom = ('keep', h['content'], h['skipped'], rep)
            return ('if', atom, kt(c.fork()), kf(c.fork()))
        _err('test outside the fragment: %s' % ast.unparse(e)[:80], e)

    # -------------------------------------------------------------- control
    def bind(self, target, v, c):
        if target is None:
            return
        if isinstance(target, ast.Name):
            c.env[target.id] = v
        elif isinstance(target, ast.Tuple):
            if v[0] != 'tuple' or len(v[1]) != len(target.elts):
                _err('cannot unpack %s' % v[0], target)
            for t, x in zip(target.elts, v[1]):
                self.bind(t, x, c)
        else:
            _err('assignment target outside the fragment: %s' % ast.unparse(target), target)

    def do_return(self, v, c):
        while c.kont:
            fr = c.pop()
            if fr[0] == 'call':
                c.envs.pop()
                self.bind(fr[1], v, c)
                return None
        return ('leaf', 'ret', v, c)

    def do_raise_skip(self, c):
        while c.kont:
            fr = c.pop()
            if fr[0] == 'call':
                c.envs.pop()
            if fr[0] == 'try':
                for h in fr[1].handlers:
                    if isinstance(h.type, ast.Name) and h.type.id == 'SkipThisOne':
                        if h.name:
                            _err('`except SkipThisOne as x` is outside the fragment', h)
                        c.push(('seq', self.prep(h.body), 0))
                        return
        _err('SkipThisOne raised by a repetition escapes the method (the model has no such outcome)')

    def skip_counter(self, e, c):
        """obj['num_skipped_reps'][-1].update(1)  ->  the object"""
        if not (isinstance(e, ast.Call) and isinstance(e.func, ast.Attribute) and e.func.attr == 'update'
                and len(e.args) == 1 and not e.keywords):
            return None
        s1 = e.func.value
        if not (isinstance(s1, ast.Subscript) and isinstance(s1.value, ast.Subscript)):
            return None
        s2 = s1.value
        if not (isinstance(s2.slice, ast.Constant) and s2.slice.value == SKIPNAME):
            return None
        if ast.unparse(s1.slice) != '-1':
            _err('num_skipped_reps: only the last entry may be updated', e)
        obj, inc = self.ev(s2.value, c), self.ev(e.args[0], c)
        if obj[0] != 'obj' or inc[0] != 'int' or inc[1] is not None:
            _err('num_skipped_reps update outside the fragment', e)
        return obj, inc[2]

    def call_stmt(self, e, c):
        f = e.func
        if is_self_call(e, HOOKS):
            return
        if isinstance(f, ast.Name) and c.env.get(f.id) == ('progress',):
            return
        if is_saver_call(e, 'save_partial_results_maybe'):
            if len(e.args) != 3 or e.keywords:
                _err('save_partial_results_maybe: expected (rep, params, results)', e)
            rep, par, obj = [self.ev(a, c) for a in e.args]
            if rep[0] != 'int' or par[0] != 'params' or obj[0] != 'obj':
                _err('save_partial_results_maybe: expected (rep, params, results)', e)
            h = c.heap[obj[1]]
            c.log = c.log + (('maybe', rep, h['content'], h['skipped']),)
            return
        if is_saver_call(e, 'save_partial_results'):
            self.final_save(e, c)
            return
        sc = self.skip_counter(e, c)
        if sc is not None:
            h = c.heap[sc[0][1]]
            if h['skipped'] is None:
                _err('num_skipped_reps updated before it was added', e)
            h['skipped'] = ('int', h['skipped'][1], h['skipped'][2] + sc[1])
            return
        if isinstance(f, ast.Attribute) and f.attr == 'add_new_result':
            obj = self.ev(f.value, c)
            if obj[0] != 'obj' or len(e.args) != 3 or not (isinstance(e.args[0], ast.Constant) and e.args[0].value == SKIPNAME):
                _err('add_new_result outside the fragment: %s' % ast.unparse(e)[:80], e)
            if ast.unparse(e.args[1]) != 'Result.SUMTYPE':
                _err('num_skipped_reps must be a SUMTYPE result', e)
            v = self.ev(e.args[2], c)
            if v[0] != 'int' or v[1] is not None:
                _err('initial num_skipped_reps outside the fragment', e)
            c.heap[obj[1]]['skipped'] = v
            return
        if isinstance(f, ast.Attribute) and f.attr == 'merge_all_results':
            obj = self.ev(f.value, c)
            if obj[0] != 'obj' or len(e.args) != 1 or e.keywords:
                _err('merge_all_results outside the fragment', e)
            oth = self.ev(e.args[0], c)
            if oth[0] != 'obj' or oth[1] == obj[1]:
                _err('merge_all_results: argument is not a (distinct) results object', e)
            if c.heap[oth[1]]['skipped'] is not None:
                _err('merge_all_results: merged object carries a num_skipped_reps entry', e)
            c.heap[obj[1]]['content'] = ('merge', c.heap[obj[1]]['content'], c.heap[oth[1]]['content'])
            return
        _err('call statement outside the fragment: %s' % ast.unparse(e)[:80], e)

    def go(self, c):
        """run until the next cut / return; returns a tree: ('if', atom, t, f) | ('leaf', kind, payload, cfg)"""
        while True:
            self.fuel += 1
            if self.fuel > FUEL:
                _err('symbolic execution does not reach a repetition or a return (loop without a repetition?)')
            if not c.kont:
                return ('leaf', 'ret', NONE, c)
            fr = c.kont[-1]
            if fr[0] == 'seq':
                _, stmts, i = fr
                if i == len(stmts):
                    c.pop()
                    continue
                c.kont = c.kont[:-1] + (('seq', stmts, i + 1),)
                r = self.stmt(stmts[i], c)
                if r is not None:
                    return r
                continue
            if fr[0] == 'loop':
                node = fr[1]

                def enter(c2, node=node):
                    c2.push(('seq', self.prep(node.body), 0))
                    return self.go(c2)

                def leave(c2):
                    c2.pop()
                    return self.go(c2)
                return self.test(node.test, c, enter, leave)
            if fr[0] == 'try':
                c.pop()
                if fr[1].orelse:
                    c.push(('seq', self.prep(fr[1].orelse), 0))
                continue
            if fr[0] == 'call':
                r = self.do_return(NONE, c)
                if r is not None:
                    return r
                continue
            _err('internal: frame %s' % fr[0])

    def stmt(self, s, c):
        if isinstance(s, ast.AnnAssign):
            if s.value is None:
                return None
            s = ast.copy_location(ast.Assign(targets=[s.target], value=s.value), s)
        if isinstance(s, ast.Assign):
            if len(s.targets) != 1:
                _err('chained assignment', s)
            v = s.value
            if is_self_call(v, CONSUME):
                if len(v.args) != 1 or self.ev(v.args[0], c) != ('params',):
                    _err('a repetition must be run with the current parameters', s)
                return ('leaf', 'cut', s.targets[0], c)
            if is_helper_call(v):
                return self.inline(v, s.targets[0], c)
            if isinstance(v, (ast.Compare, ast.BoolOp)) or is_self_call(v, ('_keep_going',)) or \
                    (isinstance(v, ast.UnaryOp) and isinstance(v.op, ast.Not)):
                tgt = s.targets[0]

                def kb(b):
                    def k(c2):
                        self.bind(tgt, ('bool', b), c2)
                        return self.go(c2)
                    return k
                return self.test(v, c, kb(True), kb(False))
            self.bind(s.targets[0], self.ev(v, c), c)
            return None
        if isinstance(s, ast.AugAssign):
            if not isinstance(s.target, ast.Name):
                _err('augmented assignment target', s)
            self.bind(s.target, self.ev(ast.BinOp(left=ast.Name(id=s.target.id, ctx=ast.Load()), op=s.op,
                                                  right=s.value), c), c)
            return None
        if isinstance(s, ast.Expr):
            if isinstance(s.value, ast.Name):
                return None
            if not isinstance(s.value, ast.Call):
                _err('expression statement outside the fragment', s)
            if is_helper_call(s.value):
                return self.inline(s.value, None, c)
            if is_self_call(s.value, CONSUME):
                _err('the result of a repetition is discarded', s)
            self.call_stmt(s.value, c)
            return None
        if isinstance(s, ast.If):
            def kt(c2):
                c2.push(('seq', self.prep(s.body), 0))
                return self.go(c2)

            def kf(c2):
                c2.push(('seq', self.prep(s.orelse), 0))
                return self.go(c2)
            return self.test(s.test, c, kt, kf)
        if isinstance(s, ast.While):
            if s.orelse:
                _err('while .. else', s)
            c.push(('loop', s))
            return None
        if isinstance(s, ast.For):
            # only:  for _ in range(n): <obj>['num_skipped_reps'][-1].update(1)
            it = s.iter
            body = self.prep(s.body)
            if not (isinstance(it, ast.Call) and isinstance(it.func, ast.Name) and it.func.id == 'range'
                    and len(it.args) == 1 and len(body) == 1 and isinstance(body[0], ast.Expr) and not s.orelse):
                _err('for loop outside the fragment', s)
            n = self.ev(it.args[0], c)
            sc = self.skip_counter(body[0].value, c)
            if sc is None or n[0] != 'int' or sc[1] != 1:
                _err('for loop outside the fragment', s)
            h = c.heap[sc[0][1]]
            if h['skipped'] is None or h['skipped'][1] is not None and n[1] is not None:
                _err('num_skipped_reps: sum of two unknowns', s)
            h['skipped'] = ('int', h['skipped'][1] or n[1], h['skipped'][2] + n[2])
            return None
        if isinstance(s, ast.Try):
            if s.finalbody:
                _err('try .. finally', s)
            c.push(('try', s))
            c.push(('seq', self.prep(s.body), 0))
            return None
        if isinstance(s, ast.Break):
            while c.kont:
                fr = c.pop()
                if fr[0] == 'loop':
                    return None
                if fr[0] == 'call':
                    break
            _err('break outside a loop', s)
        if isinstance(s, ast.Continue):
            while c.kont:
                if c.kont[-1][0] == 'loop':
                    return None
                if c.pop()[0] == 'call':
                    break
            _err('continue outside a loop', s)
        if isinstance(s, ast.Return):
            return self.do_return(NONE if s.value is None else self.ev(s.value, c), c)
        _err('statement outside the fragment: %s' % type(s).__name__, s)

    def inline(self, call, target, c):
        fn, static = self.helper(call.func.attr)
        a = fn.args
        if a.vararg or a.kwarg or a.kwonlyargs or a.posonlyargs or call.keywords or a.defaults:
            _err('helper %s: argument passing outside the fragment' % fn.name, call)
        names = [x.arg for x in a.args]
        vals = [self.ev(x, c) for x in call.args]
        if not static:
            vals = [('self',)] + vals
        if len(names) != len(vals):
            _err('helper %s: wrong number of arguments' % fn.name, call)
        if sum(1 for fr in c.kont if fr[0] == 'call') > 6:
            _err('helper calls nested too deeply')
        c.push(('call', target))
        c.envs.append(dict(zip(names, vals)))
        c.push(('seq', self.prep(fn.body), 0))
        return None


# ---------------------------------------------------------------- automaton construction
def kont_key(c, target):
    out = []
    for fr in c.kont:
        if fr[0] == 'seq':
            out.append(('seq', id(fr[1]), fr[2]))
        elif fr[0] == 'call':
            out.append(('call', ast.dump(fr[1]) if fr[1] is not None else None))
        else:
            out.append((fr[0], id(fr[1])))
    return (tuple(out), ast.dump(target))


def store_slots(c, only=None):
    """canonical flat view of envs + heap: [(slot, term)], objects renumbered by first reach"""
    ren, slots = {}, []

    def val(slot, v):
        if v[0] == 'obj':
            if v[1] in ren:
                slots.append((slot, ('alias', ren[v[1]])))
                return
            ren[v[1]] = n = len(ren)
            slots.append((slot, ('obj', n)))
            h = c.heap[v[1]]
            slots.append((slot + ('content',), h['content']))
            slots.append((slot + ('skipped',), h['skipped'] if h['skipped'] is not None else NONE))
            slots.append((slot + ('rep',), h['rep'] if h['rep'] is not None else NONE))
        elif v[0] == 'tuple':
            slots.append((slot, ('tuple', len(v[1]))))
            for i, x in enumerate(v[1]):
                val(slot + (i,), x)
        else:
            slots.append((slot, v))
    for d, env in enumerate(c.envs):
        for name in sorted(env):
            if only is None or (d, name) in only:
                val((d, name), env[name])
    return slots


def is_const(t):
    return t[0] in ('none', 'obj', 'alias', 'tuple', 'bool', 'opaque', 'self', 'params', 'progress', 'repmax') or \
        (t[0] == 'int' and t[1] is None)


def sym_for(slot, term_kind):
    return 's%s' % '_'.join(str(x) for x in slot)


def generalise(cfgs):
    """join of the arrival stores of one node: slot -> const term | ('gen', kind, symbol).  Locals that are not
    bound on every arrival, or hold values of different shapes, are dropped (reading them later is refused)"""
    only = None
    for c in cfgs:
        ks = set((d, n) for d, env in enumerate(c.envs) for n in env)
        only = ks if only is None else only & ks
    while True:
        slots_list = [store_slots(c, only) for c in cfgs]
        bad = set()
        for k in only:
            terms = [dict(sl)[k] for sl in slots_list]
            shapes = set(t if t[0] in ('obj', 'alias', 'tuple', 'none', 'bool') else t[0] for t in terms)
            if len(shapes) != 1 and not all(t[0] == 'int' for t in terms):
                bad.add(k)
        if not bad:
            break
        only = only - bad
    common = None
    for sl in slots_list:
        keys = [s for s, _ in sl]
        common = keys if common is None else [k for k in common if k in keys]
    tmpl = []
    for k in common:
        terms = [dict(sl)[k] for sl in slots_list]
        t0 = terms[0]
        if all(t == t0 for t in terms) and is_const(t0):
            tmpl.append((k, t0))
            continue
        kinds = set('int' if t[0] == 'int' else 'content' if t[0] in ('sym', 'merge') else t[0] for t in terms)
        if k[-1] == 'rep' and len(kinds) != 1:
            tmpl.append((k, NONE))      # `.current_rep` of the results: only known right after loading
            continue
        if len(k) == 2 and len(kinds) != 1:
            tmpl.append((k, OPAQUE))    # a local of no fixed shape: unusable from here on (reading it is refused)
            continue
        if len(kinds) != 1 or kinds & {'obj', 'alias', 'tuple', 'none'}:
            _err('a local variable holds values of different shapes at the same repetition call: %s -> %s'
                 % (k, sorted(kinds)))
        kind = kinds.pop()
        if kind not in ('int', 'content'):
            _err('cannot generalise %s at %s' % (kind, k))
        tmpl.append((k, ('gen', kind, sym_for(k, kind))))
    return tmpl


def instantiate(tmpl, proto):
    """a Cfg whose store is the template (symbols of this node), control taken from `proto`"""
    c = Cfg(proto.kont, [dict() for _ in proto.envs], {}, ())
    objs = {}
    tm = dict(tmpl)

    def term(k):
        t = tm[k]
        if t[0] == 'gen':
            return ('int', t[2], 0) if t[1] == 'int' else ('sym', t[2])
        return t

    def build(k):
        t = tm[k]
        if t[0] == 'obj':
            def fld(f):
                x = term(k + (f,))
                return None if x == NONE else x
            oid = 1 + len(objs)
            objs[t[1]] = oid
            c.heap[oid] = {'content': term(k + ('content',)), 'skipped': fld('skipped'), 'rep': fld('rep')}
            return ('obj', oid)
        if t[0] == 'alias':
            return ('obj', objs[t[1]])
        if t[0] == 'tuple':
            return ('tuple', tuple(build(k + (i,)) for i in range(t[1])))
        return term(k)
    for k, _ in tmpl:
        if len(k) == 2:
            c.envs[k[0]][k[1]] = build(k)
    return c


def leaves(tree):
    if tree[0] == 'if':
        yield from leaves(tree[2])
        yield from leaves(tree[3])
    else:
        yield tree


def build_automaton(ex):
    arrivals, protos, order, seen = {}, {}, [], {}

    def start_cfg(loaded):
        c = Cfg((), [{}], {}, ())
        a = ex.fn.args
        names = [x.arg for x in a.args]
        if names[:2] != ['self', 'current_params'] or len(names) > 3 or a.vararg or a.kwarg or a.kwonlyargs:
            _err('unexpected signature of %s' % METHOD)
        c.env['self'] = ('self',)
        c.env['current_params'] = ('params',)
        if len(names) == 3:
            c.env[names[2]] = ('progress',)
        c.env['%loaded'] = c.new_obj(('sym', 'a'), None, ('int', 'n', 0)) if loaded else NONE
        c.push(('seq', ex.prep(ex.fn.body), 0))
        return c

    def record(tree):
        changed = False
        for lf in leaves(tree):
            if lf[1] != 'cut':
                continue
            key = kont_key(lf[3], lf[2])
            sl = store_slots(lf[3])
            if key not in arrivals:
                arrivals[key], protos[key], seen[key] = [], (lf[3], lf[2]), []
                order.append(key)
            if sl not in seen[key]:
                seen[key].append(sl)
                arrivals[key].append(lf[3])
                changed = True
        return changed

    def explore(key, outcome, tmpl):
        proto, target = protos[key]
        c = instantiate(tmpl, proto)
        if outcome == 'ok':
            ex.bind(target, c.new_obj(('sym', 'r')), c)
        else:
            ex.do_raise_skip(c)
        ex.fuel = 0
        return ex.go(c)

    for _ in range(40):
        changed = False
        ex.fuel = 0
        entry = {ld: ex.go(start_cfg(ld)) for ld in (False, True)}
        for t in entry.values():
            changed |= record(t)
        edges = {}
        tmpls = {k: generalise(arrivals[k]) for k in order}
        for key in list(order):
            for oc in ('ok', 'skip'):
                edges[(key, oc)] = explore(key, oc, tmpls[key])
                changed |= record(edges[(key, oc)])
        if not changed and all(generalise(arrivals[k]) == tmpls[k] for k in order):
            return entry, edges, tmpls, order
        # arrival stores are expressed in the symbols of the source node; only their constant / non-constant
        # pattern matters for the templates, so the iteration stabilises quickly
    _err('the widening fixpoint did not stabilise')


# ---------------------------------------------------------------- emission
def term_syms(t, acc):
    if t is None:
        return
    if t[0] == 'int' and t[1] is not None:
        if t[1] not in acc:
            acc.append(t[1])
    elif t[0] == 'sym':
        if t[1] not in acc:
            acc.append(t[1])
    elif t[0] == 'merge':
        term_syms(t[1], acc)
        term_syms(t[2], acc)


def atom_syms(atom, acc):
    if atom[0] == 'keep':
        for t in atom[1:]:
            term_syms(t, acc)
    else:
        term_syms(atom[1], acc)


class Emit:
    def __init__(self, entry, edges, tmpls, order):
        self.entry, self.edges, self.tmpls, self.order = entry, edges, tmpls, order
        self.live = {k: [] for k in order}      # symbols, in order of first use
        self.rets = []

    def ret_payload(self, lf):
        v, c = lf[2], lf[3]
        if v[0] != 'tuple' or len(v[1]) != 3 or v[1][0][0] != 'int' or v[1][1][0] != 'obj':
            _err('the method must return (current_rep, results, partial file name)')
        h = c.heap[v[1][1][1]]
        if h['skipped'] is None:
            _err('returned results carry no num_skipped_reps entry')
        saves = [e for e in c.log if e[0] == 'save']
        if len(saves) != 1:
            _err('expected exactly one final save_partial_results on every returning path, found %d' % len(saves))
        if saves[0][3] is None:
            _err('saved results carry no num_skipped_reps entry')
        return (v[1][0], h['content'], h['skipped']), saves[0][1:]

    def assignment(self, lf):
        key = kont_key(lf[3], lf[2])
        only = set(k for k, _ in self.tmpls[key] if len(k) == 2)
        sl = dict(store_slots(lf[3], only))
        return key, [(t[2], sl[k]) for k, t in self.tmpls[key] if t[0] == 'gen']

    def use_tree(self, tree, acc):
        """symbols of the SOURCE node used by a tree, given the current liveness of the targets"""
        if tree[0] == 'if':
            atom_syms(tree[1], acc)
            self.use_tree(tree[2], acc)
            self.use_tree(tree[3], acc)
        elif tree[1] == 'ret':
            (rep, cont, sk), (srep, scont, ssk) = self.ret_payload(tree)
            for t in (rep, cont, sk, srep, scont, ssk):
                term_syms(t, acc)
        else:
            key, asg = self.assignment(tree)
            asg = dict(asg)
            for s in self.live[key]:
                term_syms(asg[s], acc)

    def liveness(self):
        for _ in range(50):
            changed = False
            for k in self.order:
                acc = []
                for oc in ('ok', 'skip'):
                    self.use_tree(self.edges[(k, oc)], acc)
                acc = [s for s in acc if s != 'r']
                if acc != self.live[k]:
                    # keep discovered order stable: old ones first
                    new = [s for s in self.live[k] if s in acc] + [s for s in acc if s not in self.live[k]]
                    if new != self.live[k]:
                        self.live[k] = new
                        changed = True
            if not changed:
                return
        _err('liveness did not stabilise')

    def kinds(self, key):
        d = {t[2]: t[1] for _, t in self.tmpls[key] if t[0] == 'gen'}
        return [d[s] for s in self.live[key]]

    # ---- Lean text
    def nat(self, t, names):
        if t[0] != 'int':
            _err('internal: nat term %r' % (t,))
        if t[1] is None:
            return str(t[2])
        if t[2] < 0:
            _err('a counter is decremented')
        return names[t[1]] if t[2] == 0 else '(%s + %d)' % (names[t[1]], t[2])

    def cont(self, t, names):
        if t[0] == 'sym':
            return names[t[1]]
        if t[0] == 'merge':
            return '(merge %s %s)' % (self.cont(t[1], names), self.cont(t[2], names))
        _err('internal: content term %r' % (t,))

    def any(self, t, names):
        return self.nat(t, names) if t[0] == 'int' else self.cont(t, names)

    def tree(self, tree, names, ind):
        pad = '  ' * ind
        if tree[0] == 'if':
            a = tree[1]
            if a[0] == 'keep':
                cond = 'keep %s %s %s' % (self.cont(a[1], names), self.nat(a[2], names), self.nat(a[3], names))
            elif a[0] == 'lt':
                cond = 'decide (%s < repMax)' % self.nat(a[1], names)
            else:
                cond = 'decide (%s ≤ repMax)' % self.nat(a[1], names)
            return '%sif %s then\n%s\n%selse\n%s' % (pad, cond, self.tree(tree[2], names, ind + 1), pad,
                                                      self.tree(tree[3], names, ind + 1))
        if tree[1] == 'ret':
            (rep, cont, sk), (srep, scont, ssk) = self.ret_payload(tree)
            return '%s.ret %s %s %s ⟨%s, %s, %s⟩' % (pad, self.nat(rep, names), self.cont(cont, names), self.nat(sk, names),
                                                    self.cont(scont, names), self.nat(ssk, names), self.nat(srep, names))
        key, asg = self.assignment(tree)
        asg = dict(asg)
        args = ' '.join(self.any(asg[s], names) for s in self.live[key])
        return '%s.ask%d%s' % (pad, self.order.index(key), (' ' + args) if args else '')

    def guard_seqs(self, tree, path, out):
        if tree[0] == 'if':
            kind = {'keep': 'keep', 'lt': 'limit', 'le': 'limit<='}[tree[1][0]]
            self.guard_seqs(tree[2], path + [kind], out)
            self.guard_seqs(tree[3], path + ['not ' + kind], out)
        elif tree[1] == 'cut' and path and path not in out:
            out.append(path)

    def maybe_saves(self):
        """per edge leaf: the save_partial_results_maybe calls made since the outcome arrived"""
        out = []
        for k in self.order:
            for oc in ('ok', 'skip'):
                for lf in leaves(self.edges[(k, oc)]):
                    n = sum(1 for e in lf[3].log if e[0] == 'maybe')
                    if (self.order.index(k), oc, n) not in out:
                        out.append((self.order.index(k), oc, n))
        return out

    def text(self):
        self.liveness()
        L = ['-- GENERATED by harness/gen/c05.py from pyphysim/simulations/runner.py. DO NOT EDIT.',
             'import PyPhysim.Model.C05', '',
             '/-!', 'Control skeleton of `SimulationRunner._simulate_for_current_params_common`, re-emitted from the AST:',
             'one constructor `askN` per program point at which the method waits for an outcome of',
             '`_run_simulation` (arguments: the non-constant live values there), `ret` = the method returned',
             '(`current_rep`, results, `num_skipped_reps` value, what the final `save_partial_results` got).', '-/',
             'set_option linter.unusedVariables false', '',
             'namespace PyPhysim.Generated.C05Loop', 'open PyPhysim.C05', '', 'variable {R : Type}', '']
        L.append('/-- where the method is: waiting for a repetition (`askN`) or finished (`ret rep acc skipped saved`) -/')
        L.append('inductive Ctl (R : Type)')
        for i, k in enumerate(self.order):
            args = ''.join(' (%s%d : %s)' % ('n' if kd == 'int' else 'x', j, 'Nat' if kd == 'int' else 'R')
                           for j, kd in enumerate(self.kinds(k)))
            L.append('  | ask%d%s' % (i, args))
        L.append('  | ret (rep : Nat) (acc : R) (skipped : Nat) (saved : Saved R)')
        L.append('')

        def node_names(k):
            return {s: ('n%d' if kd == 'int' else 'x%d') % j for j, (s, kd) in enumerate(zip(self.live[k], self.kinds(k)))}

        L.append('/-- from the entry of the method to the first repetition / to `return`; `start = some (a, n)`:')
        L.append('    `load_partial_results` returned results `a` with `current_rep = n` -/')
        L.append('def entry (repMax : Nat) (keep : Keep R) : Option (R × Nat) → Ctl R')
        L.append('  | some (a, n) =>\n' + self.tree(self.entry[True], {'a': 'a', 'n': 'n'}, 2))
        L.append('  | none =>\n' + self.tree(self.entry[False], {}, 2))
        L.append('')
        for oc, nm, extra in (('ok', 'onOk', ' (r : R)'), ('skip', 'onSkip', '')):
            L.append('/-- the repetition %s: up to the next repetition / to `return` -/' %
                     ('returned results `r`' if oc == 'ok' else 'raised `SkipThisOne`'))
            L.append('def %s (merge : R → R → R) (repMax : Nat) (keep : Keep R) (c : Ctl R)%s : Ctl R :=' % (nm, extra))
            L.append('  match c with')
            for i, k in enumerate(self.order):
                names = node_names(k)
                pat = ' '.join(names[s] for s in self.live[k])
                names['r'] = 'r'
                L.append('  | .ask%d%s =>\n%s' % (i, (' ' + pat) if pat else '', self.tree(self.edges[(k, oc)], names, 2)))
            L.append('  | .ret rep acc skipped saved => .ret rep acc skipped saved')
            L.append('')
        seqs = []
        for t in list(self.entry.values()) + [self.edges[(k, oc)] for k in self.order for oc in ('ok', 'skip')]:
            self.guard_seqs(t, [], seqs)
        L.append('/-- the tests made, IN SOURCE ORDER, on the paths that go on to another repetition -/')
        L.append('def guardTests : List (List String) := [%s]' %
                 ', '.join('[%s]' % ', '.join('"%s"' % x for x in s) for s in seqs))
        L.append('')
        L.append('/-- (program point, outcome, number of `save_partial_results_maybe` calls before the next point), per path -/')
        L.append('def periodicSaveCalls : List (Nat × String × Nat) := [%s]' %
                 ', '.join('(%d, "%s", %d)' % x for x in self.maybe_saves()))
        L.append('')
        L.append('def Ctl.isRet : Ctl R → Bool\n  | .ret .. => true\n  | _ => false')
        L.append('')
        L.append('/-- run the automaton over an outcome stream; `n` counts the repetitions asked for.  Stops at `ret`')
        L.append('    (rest of the stream untouched) or when the stream is exhausted -/')
        L.append('def run (merge : R → R → R) (repMax : Nat) (keep : Keep R) : Ctl R → Nat → List (Outcome R) → Ctl R × Nat × List (Outcome R)')
        L.append('  | c, n, [] => (c, n, [])')
        L.append('  | c, n, o :: os =>')
        L.append('    if c.isRet then (c, n, o :: os)')
        L.append('    else match o with')
        L.append('      | .ok r => run merge repMax keep (onOk merge repMax keep c r) (n + 1) os')
        L.append('      | .skip => run merge repMax keep (onSkip merge repMax keep c) (n + 1) os')
        L.append('')
        L.append('end PyPhysim.Generated.C05Loop')
        return '\n'.join(L) + '\n'


def gen_loop(repo):
    tree = parse_file(os.path.join(repo, RUNNER))
    ex = Exec(tree)
    entry, edges, tmpls, order = build_automaton(ex)
    if not order:
        _err('the method never runs a repetition')
    return Emit(entry, edges, tmpls, order).text()


# =====================================================================================================
# Generated/C05Grid.lean: which combination is which (SimulationParameters.get_unpacked_params_list,
# get_num_unpacked_variations)
# =====================================================================================================
# The two methods are evaluated over a small algebra of list terms (loops over a symbolic list are executed once
# with a symbolic element and summarised as a map / a family of dictionary entries):
#   ('S',)                      self._unpacked_parameters_set (iteration order NOT defined)
#   ('sorted', t)               sorted(t)
#   ('vals', k)                 self.parameters[k]   (iter(..) / list(..) / tuple(..) are transparent)
#   ('map', x, body, over)      [body for x in over]
#   ('product', L)              itertools.product(*L)
#   ('enumerate', L), ('idx', x), ('item', x), ('var', x), ('len', t), ('range', n), ('regular',)
#   ('dict', [families]), families: ('zip', K, C) | ('fam', over, x, key, val) | ('regularfam',)
#   ('create', d, i, parent)    SimulationParameters._create(d, i, parent)
PCLASS = 'SimulationParameters'


def _gerr(msg, node=None):
    where = ' (line %d)' % node.lineno if node is not None and hasattr(node, 'lineno') else ''
    raise TranslateError('C05Grid: ' + msg + where)


class SymDict:
    def __init__(self, depth):
        self.fams, self.depth = [], depth


class SymList:
    def __init__(self, depth):
        self.term, self.depth = None, depth


def norm_len(t):
    """len(..) of a term, up to the operations that keep the length"""
    while t[0] in ('sorted',) or (t[0] == 'map'):
        t = t[1] if t[0] == 'sorted' else t[3]
    return ('len', t)


def simp_term(t):
    if not isinstance(t, tuple):
        return t
    t = tuple(simp_term(x) for x in t)
    if t[0] == 'map':
        _, x, body, over = t
        if body == ('var', x):
            return over
        if over[0] == 'map':                       # fusion
            _, y, b2, o2 = over
            return simp_term(('map', y, subst_term(body, ('var', x), b2), o2))
    if t[0] == 'len':
        return norm_len(t[1])
    return t


def subst_term(t, old, new):
    if t == old:
        return new
    if isinstance(t, tuple):
        return tuple(subst_term(x, old, new) for x in t)
    if isinstance(t, list):
        return [subst_term(x, old, new) for x in t]
    return t


def freeze(v):
    if isinstance(v, SymDict):
        return ('dict', tuple(canon_fam(f) for f in v.fams))
    if isinstance(v, SymList):
        if v.term is None:
            return ('list',)
        return v.term
    return v


def canon_fam(f):
    f = simp_term(f)
    if f[0] == 'fam':
        _, over, x, key, val = f
        # for j in range(len K): d[K[j]] = C[j]   ==   zip(K, C)
        if over[0] == 'range' and key[0] == 'get' and val[0] == 'get' and key[2] == ('var', x) and val[2] == ('var', x) \
                and over[1] == norm_len(key[1]):
            return ('zip', key[1], val[1])
        if over == ('regular',) and key == ('var', x) and val == ('vals', ('var', x)):
            return ('regularfam',)
    return f


class GridEval:
    def __init__(self, tree, fn):
        self.tree, self.fn = tree, fn
        self.n = 0
        self.loops = []
        self.ret = None

    def fresh(self):
        self.n += 1
        return 'v%d' % self.n

    def run(self):
        env = {'self': ('self',)}
        r = self.block(self.fn.body, env)
        return r

    # returns ('ret', term) when the block returns on every path, else None; `if` guards are collected
    def block(self, stmts, env):
        self.guards = getattr(self, 'guards', [])
        for s in stmts:
            if isinstance(s, ast.Expr) and isinstance(s.value, ast.Constant):
                continue
            if isinstance(s, ast.Return):
                return ('ret', freeze(self.ev(s.value, env)))
            if isinstance(s, ast.FunctionDef):
                rets = [x for x in s.body if not (isinstance(x, ast.Expr) and isinstance(x.value, ast.Constant))]
                if len(rets) != 1 or not isinstance(rets[0], ast.Return) or s.decorator_list:
                    _gerr('nested function outside the fragment', s)
                env[s.name] = ('fn', [a.arg for a in s.args.args], rets[0].value, env)
                continue
            if isinstance(s, ast.If):
                cond = self.ev(s.test, env)
                if s.orelse:
                    _gerr('if/else outside the fragment', s)
                r = self.block(s.body, dict(env))
                if r is None:
                    _gerr('an `if` that does not return is outside the fragment', s)
                self.guards.append((cond, r[1]))
                continue
            if isinstance(s, ast.Assign) and len(s.targets) == 1:
                t = s.targets[0]
                if isinstance(t, ast.Name):
                    env[t.id] = self.ev(s.value, env)
                    continue
                if isinstance(t, ast.Subscript):
                    self.setitem(self.ev(t.value, env), freeze(self.ev(t.slice, env)), freeze(self.ev(s.value, env)), s)
                    continue
                _gerr('assignment target outside the fragment', s)
            if isinstance(s, ast.For):
                if s.orelse or not isinstance(s.target, ast.Name):
                    _gerr('for loop outside the fragment', s)
                over = freeze(self.ev(s.iter, env))
                x = self.fresh()
                self.loops.append((x, over))
                env2 = dict(env)
                env2[s.target.id] = ('var', x)
                if self.block(s.body, env2) is not None:
                    _gerr('return inside a loop', s)
                self.loops.pop()
                continue
            if isinstance(s, ast.Expr) and isinstance(s.value, ast.Call) and isinstance(s.value.func, ast.Attribute) \
                    and s.value.func.attr == 'append' and len(s.value.args) == 1:
                lst = self.ev(s.value.func.value, env)
                if not isinstance(lst, SymList):
                    _gerr('append to something that is not a local list', s)
                wrap = self.loops[lst.depth:]
                if len(wrap) != 1 or lst.term is not None:
                    _gerr('list built in a way outside the fragment', s)
                lst.term = simp_term(('map', wrap[0][0], freeze(self.ev(s.value.args[0], env)), wrap[0][1]))
                continue
            _gerr('statement outside the fragment: %s' % ast.unparse(s)[:60], s)
        return None

    def setitem(self, d, k, v, node):
        if not isinstance(d, SymDict):
            _gerr('item assignment to something that is not a local dictionary', node)
        wrap = self.loops[d.depth:]
        if len(wrap) != 1:
            _gerr('dictionary filled in a way outside the fragment', node)
        d.fams.append(('fam', wrap[0][1], wrap[0][0], k, v))

    def comp(self, e, env, elt_fn):
        if len(e.generators) != 1 or e.generators[0].ifs or e.generators[0].is_async:
            _gerr('comprehension outside the fragment', e)
        g = e.generators[0]
        over = freeze(self.ev(g.iter, env))
        x = self.fresh()
        env2 = dict(env)
        if isinstance(g.target, ast.Name):
            env2[g.target.id] = ('var', x)
        elif isinstance(g.target, ast.Tuple) and len(g.target.elts) == 2 and over[0] == 'enumerate' and \
                all(isinstance(t, ast.Name) for t in g.target.elts):
            env2[g.target.elts[0].id] = ('idx', x)
            env2[g.target.elts[1].id] = ('item', x)
        else:
            _gerr('comprehension target outside the fragment', e)
        self.loops.append((x, over))
        body = freeze(elt_fn(env2))
        self.loops.pop()
        return simp_term(('map', x, body, over))

    def ev(self, e, env):
        if isinstance(e, ast.Name):
            if e.id not in env:
                _gerr('unknown name %s' % e.id, e)
            return env[e.id]
        if isinstance(e, ast.Constant) and (isinstance(e.value, int) or e.value is None):
            return ('const', e.value)
        if isinstance(e, ast.Attribute) and isinstance(e.value, ast.Name) and e.value.id == 'self':
            if e.attr == '_unpacked_parameters_set':
                return ('S',)
            if e.attr == 'parameters':
                return ('P',)
            if e.attr == '_original_sim_params':
                return ('parent',)
            # a property of the class: its value is the value of its single return expression
            props = [n for c in self.tree.body if isinstance(c, ast.ClassDef) and c.name == PCLASS for n in c.body
                     if isinstance(n, ast.FunctionDef) and n.name == e.attr
                     and any(ast.unparse(d) == 'property' for d in n.decorator_list)]
            if len(props) == 1:
                sub = GridEval(self.tree, props[0])
                r = sub.run()
                if r is None or sub.guards:
                    _gerr('property %s outside the fragment' % e.attr, e)
                return r[1]
            _gerr('attribute self.%s outside the fragment' % e.attr, e)
        if isinstance(e, ast.UnaryOp) and isinstance(e.op, ast.Not):
            return ('not', freeze(self.ev(e.operand, env)))
        if isinstance(e, ast.Compare) and len(e.ops) == 1:
            return ('cmp', type(e.ops[0]).__name__, freeze(self.ev(e.left, env)), freeze(self.ev(e.comparators[0], env)))
        if isinstance(e, ast.Subscript):
            c, k = self.ev(e.value, env), freeze(self.ev(e.slice, env))
            if c == ('P',):
                return ('vals', k)
            return ('get', freeze(c), k)
        if isinstance(e, ast.Starred):
            return ('star', freeze(self.ev(e.value, env)))
        if isinstance(e, ast.Tuple):
            return ('tuple', tuple(freeze(self.ev(x, env)) for x in e.elts))
        if isinstance(e, ast.List) and len(e.elts) == 0:
            return SymList(len(self.loops))
        if isinstance(e, ast.List) and len(e.elts) == 1:
            return ('single', freeze(self.ev(e.elts[0], env)))
        if isinstance(e, ast.Dict) and not e.keys:
            return SymDict(len(self.loops))
        if isinstance(e, (ast.ListComp, ast.GeneratorExp)):
            return self.comp(e, env, lambda env2: self.ev(e.elt, env2))
        if isinstance(e, ast.BinOp) and isinstance(e.op, ast.Sub):
            a, b = freeze(self.ev(e.left, env)), freeze(self.ev(e.right, env))
            if a == ('keys', ('P',)) and b == ('S',):
                return ('regular',)
            _gerr('difference outside the fragment', e)
        if isinstance(e, ast.Call):
            return self.call(e, env)
        _gerr('expression outside the fragment: %s' % ast.unparse(e)[:60], e)

    def call(self, e, env):
        f = ast.unparse(e.func)
        if e.keywords:
            _gerr('keyword arguments outside the fragment: %s' % ast.unparse(e)[:60], e)
        if isinstance(e.func, ast.Name) and e.func.id in env and isinstance(env[e.func.id], tuple) and env[e.func.id][0] == 'fn':
            _, names, body, cenv = env[e.func.id]
            env2 = dict(cenv)
            env2.update(zip(names, [self.ev(a, env) for a in e.args]))
            return self.ev(body, env2)
        if f in ('functools.reduce', 'reduce') and len(e.args) in (2, 3) and ast.unparse(e.args[0]) == 'operator.mul':
            if len(e.args) == 3 and freeze(self.ev(e.args[2], env)) != ('const', 1):
                _gerr('reduce with an initial value other than 1', e)
            return ('prod', freeze(self.ev(e.args[1], env)))
        args = [self.ev(a, env) for a in e.args]
        fa = [freeze(a) for a in args]
        if f in ('iter', 'list', 'tuple') and len(fa) == 1:
            return fa[0]
        if f == 'set' and len(fa) == 1 and fa[0] == ('keys', ('P',)):
            return fa[0]
        if f == 'sorted' and len(fa) == 1:
            if fa[0][0] == 'sorted':
                return fa[0]
            return ('sorted', fa[0])
        if f == 'len' and len(fa) == 1:
            return norm_len(fa[0])
        if f == 'range' and len(fa) == 1:
            return ('range', fa[0])
        if f == 'enumerate' and len(fa) == 1:
            return ('enumerate', fa[0])
        if f == 'zip' and len(fa) == 2:
            return ('pairs', (('zip', fa[0], fa[1]),))
        if f == 'itertools.chain':
            fams = []
            for a in fa:
                fams.extend(self.as_pairs(a, e))
            return ('pairs', tuple(fams))
        if f == 'dict' and len(fa) == 1:
            return ('dict', tuple(canon_fam(x) for x in self.as_pairs(fa[0], e)))
        if f in ('OrderedDict', 'dict', 'collections.OrderedDict') and not fa:
            return SymDict(len(self.loops))
        if f == 'itertools.product' and len(fa) == 1 and fa[0][0] == 'star':
            return ('product', fa[0][1])
        if f == 'math.prod' and len(fa) == 1:
            return ('prod', fa[0])
        if f in ('SimulationParameters._create', 'self._create', 'cls._create') and len(fa) == 3:
            return ('create', fa[0], fa[1], fa[2])
        if isinstance(e.func, ast.Attribute):
            recv = self.ev(e.func.value, env)
            if e.func.attr == 'keys' and not fa:
                if isinstance(recv, SymDict):
                    fr = freeze(recv)[1]
                    if len(fr) == 1 and fr[0][0] == 'fam' and fr[0][3] == ('var', fr[0][2]):
                        return fr[0][1]
                    _gerr('keys() of a dictionary built in a way outside the fragment', e)
                if recv == ('P',):
                    return ('keys', ('P',))
            if e.func.attr == 'values' and not fa and isinstance(recv, SymDict):
                fr = freeze(recv)[1]
                if len(fr) == 1 and fr[0][0] == 'fam' and fr[0][3] == ('var', fr[0][2]):
                    return simp_term(('map', fr[0][2], fr[0][4], fr[0][1]))
                _gerr('values() of a dictionary built in a way outside the fragment', e)
            if e.func.attr == 'get_num_unpacked_variations' and not fa and recv == ('parent',):
                return ('parent-count',)
        _gerr('call outside the fragment: %s' % ast.unparse(e)[:70], e)

    def as_pairs(self, t, node):
        if t[0] == 'pairs':
            return list(t[1])
        if t[0] == 'map' and t[2][0] == 'tuple' and len(t[2][1]) == 2:
            return [('fam', t[3], t[1], t[2][1][0], t[2][1][1])]
        _gerr('not a sequence of (key, value) pairs: %r' % (t[0],), node)


def order_lean(t):
    """the list of (name, values) pairs an order term denotes"""
    if t == ('sorted', ('S',)):
        return 'sortParams ps'
    if t == ('S',):
        _gerr('the combinations are produced in the iteration order of a set (names are not sorted)')
    _gerr('order of the unpacked names outside the fragment: %r' % (t,))


def gen_grid(repo):
    tree = parse_file(os.path.join(repo, PARAMS))
    # ---- get_unpacked_params_list
    fn = find_fn(tree, 'get_unpacked_params_list', PCLASS)
    ge = GridEval(tree, fn)
    r = ge.run()
    if r is None:
        _gerr('get_unpacked_params_list does not end with a return')
    empty_guard = False
    for cond, val in ge.guards:
        if cond in (('not', ('S',)), ('cmp', 'Eq', ('len', ('S',)), ('const', 0))) and val == ('single', ('self',)):
            empty_guard = True
        else:
            _gerr('get_unpacked_params_list: guard outside the fragment: %r' % (cond,))
    t = r[1]
    # expected normal form
    if not (t[0] == 'map' and t[3][0] == 'enumerate' and t[2][0] == 'create'):
        _gerr('get_unpacked_params_list: the result is not [_create(v, i, self) for i, v in enumerate(..)]: %r' % (t[:1],))
    z = t[1]
    _, d, idx, parent = t[2]
    if d != ('item', z) or parent != ('self',):
        _gerr('get_unpacked_params_list: _create is not applied to (dictionary, index, self)')
    if idx != ('idx', z):
        _gerr('get_unpacked_params_list: the unpack index is not the position in the list')
    dicts = t[3][1]
    if not (dicts[0] == 'map' and dicts[2][0] == 'dict' and dicts[3][0] == 'product'):
        _gerr('get_unpacked_params_list: the dictionaries are not built one per element of itertools.product(..)')
    comb = dicts[1]
    fams = list(dicts[2][1])
    zips = [f for f in fams if f[0] == 'zip']
    if len(zips) != 1 or zips[0][2] != ('var', comb) or [f for f in fams if f[0] not in ('zip', 'regularfam')]:
        _gerr('get_unpacked_params_list: entries of a combination outside the fragment: %r' % (fams,))
    if ('regularfam',) not in fams:
        _gerr('get_unpacked_params_list: the regular parameters are not copied into the combinations')
    keys = zips[0][1]
    prod_arg = dicts[3][1]
    if not (prod_arg[0] == 'map' and prod_arg[2] == ('vals', ('var', prod_arg[1]))):
        _gerr('get_unpacked_params_list: the product is not over the value lists of the unpacked parameters')
    prod_order = prod_arg[3]
    if keys != prod_order:
        _gerr('get_unpacked_params_list: names and values are paired in different orders (%r vs %r)' % (keys, prod_order))
    order = order_lean(prod_order)
    # ---- get_num_unpacked_variations
    fn2 = find_fn(tree, 'get_num_unpacked_variations', PCLASS)
    g2 = GridEval(tree, fn2)
    r2 = g2.run()
    if r2 is None:
        _gerr('get_num_unpacked_variations does not end with a return')
    one_guard = False
    for cond, val in g2.guards:
        if cond == ('cmp', 'IsNot', ('parent',), ('const', None)) and val == ('parent-count',):
            continue      # a variation reports the count of the object it came from
        if cond in (('not', ('S',)), ('cmp', 'Eq', ('len', ('S',)), ('const', 0))) and val == ('const', 1):
            one_guard = True
            continue
        _gerr('get_num_unpacked_variations: guard outside the fragment: %r' % (cond,))
    t2 = r2[1]
    if not (t2[0] == 'prod' and t2[1][0] == 'map' and t2[1][2] == ('len', ('vals', ('var', t2[1][1])))
            and t2[1][3] in (('S',), ('sorted', ('S',)))):
        _gerr('get_num_unpacked_variations: not the product of the lengths of the unpacked parameters: %r' % (t2,))
    L = ['-- GENERATED by harness/gen/c05.py from pyphysim/simulations/parameters.py. DO NOT EDIT.',
         'import PyPhysim.Model.C05', '',
         '/-!', 'Which combination is which: `SimulationParameters.get_unpacked_params_list` and',
         '`get_num_unpacked_variations`, re-emitted from the AST (loops summarised as maps).', '-/',
         'namespace PyPhysim.Generated.C05Grid', 'open PyPhysim.C05', '', 'variable {V : Type}', '',
         '/-- the names, in the order in which `itertools.product` receives their value lists (first = slowest) -/',
         'def unpackedNames (ps : List (Param V)) : List String := (%s).map (·.1)' % order, '',
         '/-- the values of the unpacked parameters of every element of `get_unpacked_params_list()`, in list order -/',
         'def unpackedValues (ps : List (Param V)) : List (List V) :=']
    body = 'product ((%s).map (·.2))' % order
    L.append('  if ps.isEmpty then [[]] else %s' % body if empty_guard else '  ' + body)
    L += ['', '/-- element `i` of the list: (name, value) pairs of the unpacked parameters and its `_unpack_index` -/',
          'def variation (ps : List (Param V)) (i : Nat) : Option (List (String × V) × Nat) :=',
          '  ((unpackedValues ps)[i]?).map (fun c => ((unpackedNames ps).zip c, i))', '',
          '/-- `get_num_unpacked_variations`: `reduce(operator.mul, lengths)` over the lengths of the unpacked',
          '    parameters taken in the iteration order of a set, i.e. in ANY order -/',
          'def numVariations : List Nat → Nat']
    if one_guard:
        L += ['  | [] => 1', '  | l :: ls => ls.foldl (· * ·) l']
    else:
        L += ['  | ls => ls.foldl (· * ·) 1']
    L += ['', 'end PyPhysim.Generated.C05Grid']
    return '\n'.join(L) + '\n'


TARGETS = {'C05Loop': gen_loop, 'C05Grid': gen_grid}
