"""Source normalisation shared by the translator plugins (AST -> AST, before any pattern is matched).

Every pass maps a Python fragment to another one with the SAME meaning, so that harmless rewrites of the
library reach the plugins in one normal form (and are emitted as the same Lean text), while a semantic change
still changes the emitted text or leaves the recognised fragment.  The passes and why each is sound:

  canon_expr
    pow(a, b)            -> a ** b              the two-argument builtin IS the operator (same __pow__ call)
    not (a == b)         -> a != b   (and !=, is / is not, in / not in)   definition of the negated operator
                                                 (on the ints / strings / None the fragments are about)
    not (x % n)          -> x % n == 0          truthiness of an int
    <literal> < e        -> e > <literal>       mirrored comparison (same for <=, >, >=, ==, !=)
    (e)  [unary +e]      -> e
  hoist_ifexp
    x = A if c else B    -> if c: x = A else: x = B      (also `return A if c else B`)  definition of IfExp
  tail_form   (statement lists; `terminates` = every path ends in return / raise)
    if c: T(erminates)  ; rest     -> if c: T else: rest          guard clause == else branch
    if c: A else: T     ; rest     -> if c: A; rest else: T
    if c: A else: B     ; return v -> if c: A; return v else: B; return v     (single exit -> one exit per leaf;
                                      only a trailing `return <name or constant>` is duplicated)
    if not c: A else: B            -> if c: B else: A             (also for a test `a != b`, `is not`, `not in`)
    v = e ; return v               -> return e                    when asked (collapse=True): v is a local that
                                                                  dies with the return
    trailing `return` / `return None` of a function body, `pass`, docstrings, `assert ...` (a check, never a
    value) are dropped
  inline_calls
    x = helper(args) / return helper(args) / ... helper(args) ...  with `helper` a private function or method
    (leading underscore, no decorator but @staticmethod, positional parameters only) whose normalised body is
    either straight-line `v1 = e1; ...; return e` over PURE expressions (substituted into the call site) or a
    decision tree of such leaves (spliced in at statement level, `return e` becoming `x = e` / `return e`).
    Arguments must be side-effect-free expressions (names, attributes, literals, arithmetic): they may then be
    duplicated or dropped freely.  Sound because Python evaluates the helper's body with its parameters bound
    to the argument values and neither side has effects.

What is deliberately NOT normalised: anything numeric that is only equal over the reals (re-association,
distribution, a/b*c vs a*c/b ...) — those are left to the bridge theorems, which are proved in Lean.
"""
import ast
import copy

from harness.translate import TranslateError

NEG_CMP = {ast.Eq: ast.NotEq, ast.NotEq: ast.Eq, ast.Is: ast.IsNot, ast.IsNot: ast.Is, ast.In: ast.NotIn,
           ast.NotIn: ast.In}
MIRROR = {ast.Lt: ast.Gt, ast.Gt: ast.Lt, ast.LtE: ast.GtE, ast.GtE: ast.LtE, ast.Eq: ast.Eq, ast.NotEq: ast.NotEq}
NEGATIVE_OPS = (ast.NotEq, ast.IsNot, ast.NotIn)


def is_num_literal(e):
    if isinstance(e, ast.UnaryOp) and isinstance(e.op, ast.USub):
        e = e.operand
    return isinstance(e, ast.Constant) and isinstance(e.value, (int, float)) and not isinstance(e.value, bool)


class _Canon(ast.NodeTransformer):
    def visit_Call(self, node):
        self.generic_visit(node)
        if isinstance(node.func, ast.Name) and node.func.id == 'pow' and len(node.args) == 2 and not node.keywords \
                and not any(isinstance(a, ast.Starred) for a in node.args):
            return ast.BinOp(left=node.args[0], op=ast.Pow(), right=node.args[1])
        return node

    def visit_UnaryOp(self, node):
        self.generic_visit(node)
        if isinstance(node.op, ast.UAdd):
            return node.operand
        if isinstance(node.op, ast.Not):
            x = node.operand
            if isinstance(x, ast.Compare) and len(x.ops) == 1 and type(x.ops[0]) in NEG_CMP:
                return ast.Compare(left=x.left, ops=[NEG_CMP[type(x.ops[0])]()], comparators=x.comparators)
            if isinstance(x, ast.BinOp) and isinstance(x.op, ast.Mod):
                return ast.Compare(left=x, ops=[ast.Eq()], comparators=[ast.Constant(value=0)])
            if isinstance(x, ast.UnaryOp) and isinstance(x.op, ast.Not) and isinstance(x.operand, (ast.Compare, ast.BoolOp)):
                return x.operand
        return node

    def visit_Compare(self, node):
        self.generic_visit(node)
        if len(node.ops) == 1 and type(node.ops[0]) in MIRROR and is_num_literal(node.left) \
                and not is_num_literal(node.comparators[0]):
            return ast.Compare(left=node.comparators[0], ops=[MIRROR[type(node.ops[0])]()], comparators=[node.left])
        return node


def canon_expr(node):
    """expression-level canonical spellings (see module docstring); returns a NEW tree"""
    return _Canon().visit(copy.deepcopy(node))


def canon_fn(fn):
    """canon_expr over a whole FunctionDef / statement (new tree)"""
    return _Canon().visit(copy.deepcopy(fn))


# ------------------------------------------------------------------ statements
def is_doc(s):
    return isinstance(s, ast.Expr) and isinstance(s.value, ast.Constant) and isinstance(s.value.value, str)


def is_bare_return(s):
    return isinstance(s, ast.Return) and (s.value is None or (isinstance(s.value, ast.Constant) and s.value.value is None))


def terminates(stmts):
    """every path through the statement list ends in return / raise"""
    if not stmts:
        return False
    s = stmts[-1]
    if isinstance(s, (ast.Return, ast.Raise)):
        return True
    if isinstance(s, ast.If):
        return terminates(s.body) and terminates(s.orelse)
    return False


def hoist_ifexp(stmts):
    out = []
    for s in stmts:
        v = getattr(s, 'value', None)
        if isinstance(s, (ast.Assign, ast.AnnAssign, ast.Return)) and isinstance(v, ast.IfExp):
            def mk(val):
                t = copy.copy(s)
                t.value = val
                return t
            out.append(ast.If(test=v.test, body=hoist_ifexp([mk(v.body)]), orelse=hoist_ifexp([mk(v.orelse)])))
        elif isinstance(s, ast.If):
            out.append(ast.If(test=s.test, body=hoist_ifexp(s.body), orelse=hoist_ifexp(s.orelse)))
        else:
            out.append(s)
    return out


def _positive(test, body, orelse):
    """make the test positive, swapping the branches"""
    while True:
        if isinstance(test, ast.UnaryOp) and isinstance(test.op, ast.Not):
            test, body, orelse = test.operand, orelse, body
        elif isinstance(test, ast.Compare) and len(test.ops) == 1 and isinstance(test.ops[0], NEGATIVE_OPS):
            test = ast.Compare(left=test.left, ops=[NEG_CMP[type(test.ops[0])]()], comparators=test.comparators)
            body, orelse = orelse, body
        else:
            return test, body, orelse


def negate(test):
    if isinstance(test, ast.Compare) and len(test.ops) == 1 and type(test.ops[0]) in NEG_CMP:
        return ast.Compare(left=test.left, ops=[NEG_CMP[type(test.ops[0])]()], comparators=test.comparators)
    if isinstance(test, ast.UnaryOp) and isinstance(test.op, ast.Not):
        return test.operand
    return ast.UnaryOp(op=ast.Not(), operand=test)


def _small_tail(rest):
    return (len(rest) == 1 and isinstance(rest[0], ast.Return) and rest[0].value is not None
            and isinstance(rest[0].value, (ast.Name, ast.Constant)))


def tail_form(stmts, fn_tail=True, collapse=False, drop_asserts=True):
    """decision-tree normal form of a statement list (see module docstring)"""
    stmts = [s for s in hoist_ifexp(stmts) if not is_doc(s) and not isinstance(s, ast.Pass)
             and not (drop_asserts and isinstance(s, ast.Assert))]
    out = []
    for i, s in enumerate(stmts):
        if isinstance(s, (ast.Return, ast.Raise)):
            out.append(s)
            break                                   # anything after it is unreachable
        if not isinstance(s, ast.If):
            out.append(s)
            continue
        rest = stmts[i + 1:]
        body, orelse = list(s.body), list(s.orelse)
        tb, te = terminates(tail_form(body, False, collapse, drop_asserts)), \
            terminates(tail_form(orelse, False, collapse, drop_asserts))
        if tb and te:
            rest = []
        elif tb:
            orelse, rest = orelse + rest, []
        elif te:
            body, rest = body + rest, []
        elif _small_tail(rest):
            body, orelse, rest = body + rest, orelse + rest, []
        tail_here = fn_tail and not rest
        body = tail_form(body, tail_here, collapse, drop_asserts)
        orelse = tail_form(orelse, tail_here, collapse, drop_asserts)
        test, body, orelse = _positive(s.test, body, orelse)
        if not body and not orelse:
            # an `if` with no effect left (its test is pure in every fragment that uses this pass)
            out += tail_form(rest, fn_tail, collapse, drop_asserts)
            break
        if not body:
            # `if c: pass else: B`: the one-armed spelling `if <not c>: B`
            out.append(ast.If(test=negate(test), body=orelse, orelse=[]))
        else:
            out.append(ast.If(test=test, body=body, orelse=orelse))
        out += tail_form(rest, fn_tail, collapse, drop_asserts)
        break
    if fn_tail and out and is_bare_return(out[-1]):
        out.pop()
    if collapse and len(out) >= 2 and isinstance(out[-1], ast.Return) and isinstance(out[-1].value, ast.Name) \
            and isinstance(out[-2], ast.Assign) and len(out[-2].targets) == 1 \
            and isinstance(out[-2].targets[0], ast.Name) and out[-2].targets[0].id == out[-1].value.id:
        out[-2:] = [ast.Return(value=out[-2].value)]
    return out


# ------------------------------------------------------------------ inlining of private helpers
PURE_CALLS = {'float', 'int', 'abs', 'max', 'min', 'len', 'range', 'cast', 'complex', 'round', 'isinstance'}
PURE_MODULES = {'np', 'math', 'numpy'}
extra_pure_calls = set()        # plugins may add names of library functions they translate (dB2Linear, qfunc ...)


def is_pure_call(call):
    f = call.func
    if isinstance(f, ast.Name):
        return f.id in PURE_CALLS or f.id in extra_pure_calls or (f.id.startswith('_') and not f.id.startswith('__'))
    if isinstance(f, ast.Attribute):
        root = f
        while isinstance(root, ast.Attribute):
            root = root.value
        if isinstance(root, ast.Name) and root.id in PURE_MODULES and not f.attr.startswith('random'):
            return 'random' not in ast.unparse(f)
        # private helper methods: inlined (then judged by their own body) or rejected by the plugin
        if isinstance(f.value, ast.Name) and f.attr.startswith('_') and not f.attr.startswith('__'):
            return True
    return False


def is_pure_expr(e):
    """side-effect-free expression over names / attributes / literals / arithmetic / comparisons and calls of
    functions known to be pure (numpy / math functions, the builtins above, private helpers, plugin extras)"""
    for n in ast.walk(e):
        if isinstance(n, (ast.Name, ast.Attribute, ast.Constant, ast.BinOp, ast.UnaryOp, ast.Compare, ast.BoolOp,
                          ast.Tuple, ast.List, ast.Subscript, ast.Slice, ast.IfExp, ast.Starred, ast.keyword,
                          ast.operator, ast.unaryop, ast.cmpop, ast.boolop, ast.expr_context)):
            continue
        if isinstance(n, ast.Call) and is_pure_call(n):
            continue
        return False
    return True


class _Subst(ast.NodeTransformer):
    def __init__(self, env):
        self.env = env

    def visit_Name(self, node):
        if isinstance(node.ctx, ast.Load) and node.id in self.env:
            return copy.deepcopy(self.env[node.id])
        return node


def subst(e, env):
    return _Subst(env).visit(copy.deepcopy(e))


def helper_params(fn, call):
    """{parameter: argument expression}; raises unless the call is a plain positional one"""
    params = [a.arg for a in fn.args.args]
    is_static = any(ast.unparse(d) == 'staticmethod' for d in fn.decorator_list)
    if params and params[0] in ('self', 'cls') and not is_static:
        params = params[1:]
    if (fn.args.vararg or fn.args.kwarg or fn.args.kwonlyargs or fn.args.posonlyargs or call.keywords
            or any(isinstance(a, ast.Starred) for a in call.args) or len(call.args) > len(params)
            or len(params) - len(call.args) > len(fn.args.defaults)):
        raise TranslateError('helper %s: unsupported signature / call form' % fn.name)
    args = list(call.args)
    if len(args) < len(params):
        args += fn.args.defaults[len(fn.args.defaults) - (len(params) - len(args)):]
    for a in args:
        if not is_pure_expr(a):
            raise TranslateError('helper %s: argument with possible side effects' % fn.name)
    return dict(zip(params, args))


def straight_line_value(fn, call, collapse=True, caller_locals=()):
    """the expression `helper(args)` stands for when the helper body is `v1 = e1; ..; return e` (else None).
    A name the helper reads from ITS enclosing scope (a module constant, ...) must not be a local of the caller,
    where the substituted text would mean something else."""
    body = tail_form(canon_fn(fn).body, True, collapse=collapse)
    env = helper_params(fn, call)
    bound = set(env)
    free = set()
    for s in body[:-1]:
        if not (isinstance(s, ast.Assign) and len(s.targets) == 1 and isinstance(s.targets[0], ast.Name)
                and is_pure_expr(s.value)):
            return None
        free |= {n.id for n in ast.walk(s.value) if isinstance(n, ast.Name)} - bound
        env[s.targets[0].id] = subst(s.value, env)
        bound.add(s.targets[0].id)
    if not body or not isinstance(body[-1], ast.Return) or body[-1].value is None or not is_pure_expr(body[-1].value):
        return None
    free |= {n.id for n in ast.walk(body[-1].value) if isinstance(n, ast.Name)} - bound
    if free & set(caller_locals):
        raise TranslateError('helper %s reads %s from its own scope, which the caller rebinds'
                             % (fn.name, sorted(free & set(caller_locals))))
    return subst(body[-1].value, env)


def local_names(fn):
    """parameters and every name the function binds"""
    out = {a.arg for a in fn.args.args + fn.args.kwonlyargs + fn.args.posonlyargs}
    out |= {n.id for n in ast.walk(fn) if isinstance(n, ast.Name) and isinstance(n.ctx, ast.Store)}
    return out


class Inliner(ast.NodeTransformer):
    """replace calls of private helpers (found by `lookup(call) -> FunctionDef | None`) whose body is a
    straight line by the value they stand for; nested helpers are inlined first (bounded depth)"""

    def __init__(self, lookup, depth=0, caller_locals=()):
        self.lookup = lookup
        self.depth = depth
        self.caller_locals = set(caller_locals)   # names bound in the function the calls are inlined into

    def visit_Call(self, node):
        self.generic_visit(node)
        fn = self.lookup(node)
        if fn is None:
            return node
        if self.depth > 4:
            raise TranslateError('helper nesting too deep / recursive: ' + fn.name)
        inner = Inliner(self.lookup, self.depth + 1, local_names(fn)).visit(copy.deepcopy(fn))
        v = straight_line_value(inner, node, caller_locals=self.caller_locals - {'self', 'cls'})
        return node if v is None else v


def splice_call(stmt, lookup):
    """`x = helper(args)` / `return helper(args)` with a DECISION-TREE helper: the helper's normalised body with
    every `return e` leaf replaced by `x = e` (resp. kept); None when `stmt` is not such a statement"""
    if not (isinstance(stmt, (ast.Assign, ast.Return)) and isinstance(stmt.value, ast.Call)):
        return None
    if isinstance(stmt, ast.Assign) and not (len(stmt.targets) == 1 and isinstance(stmt.targets[0], ast.Name)):
        return None
    fn = lookup(stmt.value)
    if fn is None:
        return None
    env = helper_params(fn, stmt.value)
    body = tail_form(canon_fn(fn).body, True)
    if not terminates(body):
        raise TranslateError('helper %s may fall off its end' % fn.name)
    local = set()
    for n in ast.walk(ast.Module(body=body, type_ignores=[])):
        if isinstance(n, ast.Name) and isinstance(n.ctx, ast.Store):
            local.add(n.id)
    clash = local & (set(env) | {stmt.targets[0].id if isinstance(stmt, ast.Assign) else ''})
    if clash:
        raise TranslateError('helper %s rebinds %s' % (fn.name, sorted(clash)))

    def leafs(stmts):
        out = []
        for s in stmts:
            if isinstance(s, ast.If):
                out.append(ast.If(test=subst(s.test, env), body=leafs(s.body), orelse=leafs(s.orelse)))
            elif isinstance(s, ast.Return):
                v = subst(s.value, env) if s.value is not None else ast.Constant(value=None)
                out.append(ast.Assign(targets=[copy.deepcopy(stmt.targets[0])], value=v)
                           if isinstance(stmt, ast.Assign) else ast.Return(value=v))
            else:
                out.append(subst(s, env))
        return out
    return leafs(body)


def private_lookup(module=None, classes=(), owners=('self', 'cls'), skip=()):
    """lookup for Inliner / splice_call: `_name(..)` at module level, `self._name(..)` / `Class._name(..)`
    in the given class chain; only undecorated (or @staticmethod) single definitions qualify"""
    class_names = {c.name for c in classes}

    def lookup(call):
        f = call.func
        if isinstance(f, ast.Name):
            name, scopes = f.id, ([module.body] if module is not None else [])
        elif isinstance(f, ast.Attribute) and isinstance(f.value, ast.Name) and (
                f.value.id in owners or f.value.id in class_names):
            name, scopes = f.attr, [c.body for c in classes]
        else:
            return None
        if not name.startswith('_') or name.startswith('__') or name in skip:
            return None
        for body in scopes:
            found = [n for n in body if isinstance(n, ast.FunctionDef) and n.name == name]
            if len(found) > 1:
                raise TranslateError('helper %s defined twice' % name)
            if found:
                for d in found[0].decorator_list:
                    if ast.unparse(d) != 'staticmethod':
                        raise TranslateError('helper %s is wrapped by decorator @%s' % (name, ast.unparse(d)))
                return found[0]
        return None
    return lookup


# ------------------------------------------------------------------ classes, loops over literal tables
def class_chain(tree, name):
    """the ClassDef `name` of the module followed by its base classes defined in the same module (MRO order
    for single inheritance; good enough to find the private helper a `self._x(..)` call reaches)"""
    by_name = {n.name: n for n in tree.body if isinstance(n, ast.ClassDef)}
    out, todo = [], [name]
    while todo:
        n = todo.pop(0)
        c = by_name.get(n)
        if c is None or c in out:
            continue
        out.append(c)
        todo += [b.id for b in c.bases if isinstance(b, ast.Name)]
    return out


def _literal_rows(it):
    if not isinstance(it, (ast.Tuple, ast.List)):
        return None
    rows = []
    for r in it.elts:
        if isinstance(r, (ast.Tuple, ast.List)) and all(is_num_literal(x) or (isinstance(x, ast.Constant) and isinstance(x.value, str))
                                                         for x in r.elts):
            rows.append(list(r.elts))
        elif is_num_literal(r) or (isinstance(r, ast.Constant) and isinstance(r.value, str)):
            rows.append([r])
        else:
            return None
    return rows


def unroll_for_else(stmts):
    """`for <names> in <literal table>: if <test>: <body>; break` + `else: <E>`  ->  the if/elif ladder with the
    row constants substituted (first matching row runs its body and leaves the loop, no match runs E).  The
    loop variables must not be read after the loop."""
    out = []
    for k, s in enumerate(stmts):
        if isinstance(s, ast.If):
            s = ast.If(test=s.test, body=unroll_for_else(s.body), orelse=unroll_for_else(s.orelse))
        if not isinstance(s, ast.For):
            out.append(s)
            continue
        rows = _literal_rows(s.iter)
        names = [s.target.id] if isinstance(s.target, ast.Name) else (
            [x.id for x in s.target.elts] if isinstance(s.target, ast.Tuple) and all(isinstance(x, ast.Name) for x in s.target.elts)
            else None)
        body = [b for b in s.body if not is_doc(b)]
        if (rows is None or names is None or not rows or any(len(r) != len(names) for r in rows) or len(body) != 1
                or not isinstance(body[0], ast.If) or body[0].orelse or not body[0].body
                or not isinstance(body[0].body[-1], ast.Break) or not is_pure_expr(body[0].test)
                or any(isinstance(n, (ast.Break, ast.Continue)) for b in body[0].body[:-1] for n in ast.walk(b))):
            out.append(s)
            continue
        later = {n.id for t in stmts[k + 1:] for n in ast.walk(t) if isinstance(n, ast.Name) and isinstance(n.ctx, ast.Load)}
        stored = {n.id for b in body[0].body for n in ast.walk(b) if isinstance(n, ast.Name) and isinstance(n.ctx, ast.Store)}
        if later & set(names) or stored & set(names):
            out.append(s)
            continue
        ladder = list(s.orelse)
        for r in reversed(rows):
            env = dict(zip(names, r))
            ladder = [ast.If(test=subst(body[0].test, env), body=[subst(b, env) for b in body[0].body[:-1]] or [ast.Pass()],
                             orelse=ladder)]
        out += ladder
    return out
