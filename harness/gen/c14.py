"""Translator plugin: the sample-index bookkeeping and the Jakes formula of JakesSampleGenerator -> Lean
(Generated/C14Jakes.lean).

`generate_more_samples` and `skip_samples_for_next_generation` of pyphysim/channels/fading_generators.py are
executed SYMBOLICALLY on the current AST, once per kind of request size (`default` = no argument, `int z` = an
integer-valued object, `notInt`), private helpers / properties of the class chain being inlined.  Values are typed:

  Lin      canonical linear integer form  a*k + b*z + c   (k = `self._sample_index` at entry, z = the VALIDATED
           size `operator.index(arg)`); Python ints
  Raw      the argument as passed (not validated): may be tested `is None` and passed to `operator.index` only
  Arange   integer index vector (first : Lin, count : Lin, step : int)  from `np.arange`, `+ Lin`, `* int`
  Real     scalar real expression (Ts, Fd, literals, pi, tau = 2*pi, math.sqrt, 1.0 / L ...)
  Time     Arange * Real -- the time vector: (integer index) * (scalar), the ONLY accepted way of making times;
           a float offset added to a time vector (`current_time + arange * Ts`) is refused; a further factor
           makes it an Elem (part of the phase), which cannot be reshaped / returned as the time vector
  Elem     real expression per ray (phi_l, psi_l) and per time instant `t`
  Cis      np.exp(1j * Elem); RaySum = np.sum(Cis, axis=0) / Cis.sum(axis=0); Jakes = Real * RaySum
  Opaque   shapes / lengths that only feed `t.shape = ...` (never allowed into an index, a time or the formula)

Symbolic tests (`z < 0`) fork; every path ends in `raise E` or a return, with the counter reached THERE, so
"validation happens before the state changes" is part of what is emitted (a refused size must leave `k`).
Emitted: `genStep`, `skipStep` (decision trees over `SizeArg`), `timeOfIndex`, `rayPhase`, `amplitude`, `jakes`
(+ the formula of the free function `generate_jakes_samples`), all related to the hand model for ALL inputs by
the bridge theorems of Properties/C14.lean.  Anything outside the fragment raises => tie broken.
"""
import ast
import os
from fractions import Fraction

from harness.translate import HEADER, TranslateError, parse_file
from harness.gen import norm

FILE = 'pyphysim/channels/fading_generators.py'
CLS = 'JakesSampleGenerator'


def fail(msg, node=None):
    where = ' (line %d)' % node.lineno if node is not None and hasattr(node, 'lineno') else ''
    raise TranslateError('C14Jakes: ' + msg + where)


# ------------------------------------------------------------------------------------------------ values
class Lin:
    """a*k + b*z + c"""

    def __init__(self, k=0, z=0, c=0):
        self.k, self.z, self.c = k, z, c

    def key(self):
        return ('lin', self.k, self.z, self.c)

    def add(self, o, s=1):
        return Lin(self.k + s * o.k, self.z + s * o.z, self.c + s * o.c)

    def scale(self, m):
        return Lin(self.k * m, self.z * m, self.c * m)

    def is_const(self):
        return self.k == 0 and self.z == 0

    def lean(self):
        parts = []
        for name, co in (('k', self.k), ('z', self.z)):
            if co == 0:
                continue
            t = name if abs(co) == 1 else '%d * %s' % (abs(co), name)
            parts.append(('-' if co < 0 else '+', t))
        if self.c != 0 or not parts:
            parts.append(('-' if self.c < 0 else '+', str(abs(self.c))))
        out = ''
        for i, (sg, t) in enumerate(parts):
            out = (t if sg == '+' else '-' + t) if i == 0 else out + ' %s %s' % (sg, t)
        return '(%s : Int)' % out


class Raw:          # the request size as passed
    def __init__(self, kind):
        self.kind = kind        # 'int' | 'notInt'

    def key(self):
        return ('raw', self.kind)


class NoneV:
    def key(self):
        return ('none',)


class Opaque:
    def key(self):
        return ('opaque',)


class ShapeV(Opaque):   # self._shape / self.shape
    pass


class Arange:
    def __init__(self, first, count, step):
        self.first, self.count, self.step = first, count, step

    def key(self):
        return ('arange', self.first.key(), self.count.key(), self.step)


class Real:
    """scalar real expression; `py` = a Python scalar (its division raises ZeroDivisionError); `syms` = symbols used"""

    def __init__(self, lean, py=False, syms=()):
        self.lean, self.py, self.syms = lean, py, frozenset(syms)

    def key(self):
        return ('real', self.lean)


class NatSym(Real):     # self.L
    pass


class FloatOfCounter:
    """a float scalar computed from the sample counter (`self._current_time` = index * Ts)"""

    def __init__(self, lin, real):
        self.lin, self.real = lin, real

    def key(self):
        return ('floatOfCounter', self.lin.key(), self.real.key())


class Time:
    def __init__(self, idx, scale):
        self.idx, self.scale = idx, scale       # Arange, Real

    def key(self):
        return ('time', self.idx.key(), self.scale.key())


class Elem:
    """real expression elementwise in (ray, t); `time` = the Time vector bound to `t` if t occurs (else None)"""

    def __init__(self, lean, time=None, syms=()):
        self.lean, self.time, self.syms = lean, time, frozenset(syms)

    def key(self):
        return ('elem', self.lean, self.time.key() if self.time else None)


class ImagUnit:
    def key(self):
        return ('1j',)


class ImagArg:      # 1j * Elem
    def __init__(self, e):
        self.e = e


class Cis:          # np.exp(1j * Elem)
    def __init__(self, e):
        self.e = e


class RaySum:       # np.sum(Cis, axis=0)
    def __init__(self, e):
        self.e = e


class Jakes:        # Real * RaySum
    def __init__(self, amp, e):
        self.amp, self.e = amp, e

    def key(self):
        return ('jakes', self.amp.key(), self.e.key())


class ModuleRef:
    def __init__(self, name):
        self.name = name


def lit(v):
    fr = Fraction(v).limit_denominator(10 ** 12) if isinstance(v, float) else Fraction(v)
    if isinstance(v, float) and float(fr) != v:
        fail('non-rational literal %r' % v)
    if fr < 0:
        fail('negative literal')
    if fr.denominator == 1:
        return '((%d : Nat) : α)' % fr.numerator
    return '(((%d : Nat) : α) / ((%d : Nat) : α))' % (fr.numerator, fr.denominator)


PI = Real('Transc.pi', py=True)
TAU = Real('(((2 : Nat) : α) * Transc.pi)', py=True)
CONSTS = {('np', 'pi'): PI, ('numpy', 'pi'): PI, ('math', 'pi'): PI, ('math', 'tau'): TAU}


class _Return(Exception):
    def __init__(self, v):
        self.v = v


class _Raise(Exception):
    def __init__(self, err, node):
        self.err, self.node = err, node


class _Fork(Exception):
    def __init__(self, cond):
        self.cond = cond


ERRS = {'ValueError', 'TypeError', 'ZeroDivisionError', 'IndexError', 'KeyError', 'OverflowError'}


class Exec:
    def __init__(self, classes, decisions):
        self.classes = classes
        self.decisions = list(decisions)
        self.taken = 0
        self.k = Lin(k=1)           # self._sample_index
        self.samples = None         # self._samples as assigned by the request
        self.depth = 0

    # --------------------------------------------------------------------------------- class lookup
    def member(self, name):
        for c in self.classes:
            found = [n for n in c.body if isinstance(n, ast.FunctionDef) and n.name == name]
            getters = [n for n in found if any(ast.unparse(d) == 'property' for d in n.decorator_list)]
            if getters:
                return 'property', getters[0]
            if found:
                if len(found) > 1:
                    fail('method %s defined twice' % name)
                for d in found[0].decorator_list:
                    if ast.unparse(d) not in ('staticmethod',):
                        fail('method %s is wrapped by decorator @%s' % (name, ast.unparse(d)))
                return 'method', found[0]
        return None, None

    # --------------------------------------------------------------------------------- decisions
    def decide(self, cond):
        if self.taken < len(self.decisions):
            d = self.decisions[self.taken]
            self.taken += 1
            return d
        raise _Fork(cond)

    # --------------------------------------------------------------------------------- expressions
    def attr_self(self, name, node):
        kind, fn = self.member(name)
        if kind == 'property':
            return self.call_fn(fn, [], {}, node)
        if kind == 'method':
            fail('bound method self.%s used as a value' % name, node)
        if name == '_sample_index':
            return self.k
        if name == '_Ts':
            return Real('Ts', syms=['Ts'])
        if name == '_Fd':
            return Real('Fd', syms=['Fd'])
        if name == '_L':
            return NatSym('(L : α)', py=True, syms=['L'])
        if name == '_phi_l':
            return Elem('ray.1', syms=['phi'])
        if name == '_psi_l':
            return Elem('ray.2', syms=['psi'])
        if name == '_shape':
            return ShapeV()
        fail('unknown attribute self.' + name, node)

    def real_of(self, v, node):
        if isinstance(v, Real):
            return v
        if isinstance(v, Lin) and v.is_const() and v.c >= 0:
            return Real(lit(v.c), py=True)
        if isinstance(v, Lin):
            fail('an integer expression of the counter / request size is used as a real scalar', node)
        fail('not a real scalar: ' + type(v).__name__, node)

    def elem_of(self, v, node):
        if isinstance(v, Elem):
            return v
        if isinstance(v, Time):
            return Elem('t', time=v, syms=['t'])
        r = self.real_of(v, node)
        return Elem(r.lean, syms=r.syms)

    def binop(self, op, a, b, node):
        if isinstance(a, Opaque) or isinstance(b, Opaque):
            for x in (a, b):
                if not isinstance(x, (Opaque, Lin)):
                    fail('a shape / length is mixed with ' + type(x).__name__, node)
            return Opaque()
        # integer arithmetic
        if isinstance(a, Lin) and isinstance(b, Lin):
            if isinstance(op, ast.Add):
                return a.add(b)
            if isinstance(op, ast.Sub):
                return a.add(b, -1)
            if isinstance(op, ast.Mult):
                if a.is_const():
                    return b.scale(a.c)
                if b.is_const():
                    return a.scale(b.c)
            fail('non-linear integer arithmetic', node)
        if isinstance(a, Raw) or isinstance(b, Raw):
            fail('arithmetic on the request size before it is validated (operator.index)', node)
        if isinstance(a, Arange) or isinstance(b, Arange):
            ar, o, left = (a, b, True) if isinstance(a, Arange) else (b, a, False)
            if isinstance(o, Lin):
                if isinstance(op, ast.Add):
                    return Arange(ar.first.add(o), ar.count, ar.step)
                if isinstance(op, ast.Sub) and left:
                    return Arange(ar.first.add(o, -1), ar.count, ar.step)
                if isinstance(op, ast.Mult) and o.is_const():
                    return Arange(ar.first.scale(o.c), ar.count, ar.step * o.c)
                fail('unsupported arithmetic on an index vector', node)
            if isinstance(o, Real) and isinstance(op, ast.Mult):
                return Time(ar, o)                      # (integer index) * scalar: the time vector
            fail('index vector combined with ' + type(o).__name__, node)
        if isinstance(a, Lin) and isinstance(b, Real) and not a.is_const() and isinstance(op, ast.Mult):
            return FloatOfCounter(a, b)
        if isinstance(b, Lin) and isinstance(a, Real) and not b.is_const() and isinstance(op, ast.Mult):
            return FloatOfCounter(b, a)
        if isinstance(a, FloatOfCounter) or isinstance(b, FloatOfCounter):
            fail('the time vector is built from a float time (`current_time + arange * Ts`), not as '
                 '(integer sample index) * Ts', node)
        if isinstance(a, Time) or isinstance(b, Time):
            tm, o = (a, b) if isinstance(a, Time) else (b, a)
            if isinstance(o, (Real, Lin, Time)) and not isinstance(op, (ast.Mult, ast.Div)):
                fail('a float offset is added to / combined with a time vector (times must be '
                     '(integer sample index) * Ts)', node)
        # complex unit
        if isinstance(a, ImagUnit) or isinstance(b, ImagUnit):
            o = b if isinstance(a, ImagUnit) else a
            if isinstance(op, ast.Mult) and isinstance(o, (Elem, Time, Real)):
                return ImagArg(self.elem_of(o, node))
            fail('unsupported use of 1j', node)
        if isinstance(a, RaySum) or isinstance(b, RaySum):
            s, o = (a, b) if isinstance(a, RaySum) else (b, a)
            if isinstance(op, ast.Mult) and isinstance(o, (Real, Lin)):
                return Jakes(self.real_of(o, node), s.e)
            if isinstance(op, ast.Div) and s is a and isinstance(o, (Real, Lin)):
                r = self.real_of(o, node)
                return Jakes(self.div(Real(lit(1), py=True), r, node), s.e)
            fail('unsupported arithmetic on the sum over the rays', node)
        for x in (a, b):
            if isinstance(x, (ImagArg, Cis, Jakes, NoneV, ModuleRef)):
                fail('unsupported operand ' + type(x).__name__, node)
        # real arithmetic
        if isinstance(a, (Elem, Time)) or isinstance(b, (Elem, Time)):
            ea, eb = self.elem_of(a, node), self.elem_of(b, node)
            if ea.time is not None and eb.time is not None and ea.time.key() != eb.time.key():
                fail('two different time vectors in one expression', node)
            sym = {ast.Add: '+', ast.Mult: '*', ast.Div: '/'}.get(type(op))
            if sym is None:
                fail('unsupported real operator ' + type(op).__name__, node)
            return Elem('(%s %s %s)' % (ea.lean, sym, eb.lean), time=ea.time or eb.time, syms=ea.syms | eb.syms)
        ra, rb = self.real_of(a, node), self.real_of(b, node)
        if isinstance(op, ast.Div):
            return self.div(ra, rb, node)
        sym = {ast.Add: '+', ast.Mult: '*'}.get(type(op))
        if sym is None:
            fail('unsupported real operator ' + type(op).__name__, node)
        return Real('(%s %s %s)' % (ra.lean, sym, rb.lean), py=ra.py and rb.py, syms=ra.syms | rb.syms)

    def div(self, ra, rb, node):
        if 'L' in rb.syms:
            if not (ra.py and rb.py):
                fail('division by an expression of L that is not a Python scalar division', node)
            self.zero_div = True            # Python scalar division: L = 0 raises ZeroDivisionError
        return Real('(%s / %s)' % (ra.lean, rb.lean), py=ra.py and rb.py, syms=ra.syms | rb.syms)

    zero_div = False

    def expr(self, e, env):
        if isinstance(e, ast.Constant):
            v = e.value
            if v is None:
                return NoneV()
            if isinstance(v, bool):
                fail('boolean constant', e)
            if isinstance(v, int):
                return Lin(c=v)
            if isinstance(v, float):
                return Real(lit(v), py=True)
            if isinstance(v, complex) and v == 1j:
                return ImagUnit()
            fail('unsupported constant %r' % (v,), e)
        if isinstance(e, ast.Name):
            if e.id in env:
                return env[e.id]
            if e.id in ('np', 'numpy', 'math', 'operator'):
                return ModuleRef(e.id)
            fail('unknown name ' + e.id, e)
        if isinstance(e, ast.Attribute):
            if isinstance(e.value, ast.Name) and e.value.id == 'self':
                return self.attr_self(e.attr, e)
            if isinstance(e.value, ast.Name) and (e.value.id, e.attr) in CONSTS and e.value.id not in env:
                return CONSTS[(e.value.id, e.attr)]
            fail('unsupported attribute ' + ast.unparse(e), e)
        if isinstance(e, ast.BinOp):
            return self.binop(e.op, self.expr(e.left, env), self.expr(e.right, env), e)
        if isinstance(e, ast.UnaryOp) and isinstance(e.op, ast.USub):
            v = self.expr(e.operand, env)
            if isinstance(v, Lin):
                return v.scale(-1)
            fail('unsupported negation', e)
        if isinstance(e, (ast.List, ast.Tuple)):
            for x in e.elts:
                if isinstance(x, ast.Starred):
                    x = x.value
                v = self.expr(x, env)
                if not isinstance(v, (Lin, Opaque)):
                    fail('a list / tuple may hold dimensions only', e)
            return Opaque()
        if isinstance(e, ast.Call):
            return self.call(e, env)
        fail('unsupported expression ' + type(e).__name__, e)

    def call(self, e, env):
        fn = e.func
        name = None
        if isinstance(fn, ast.Attribute) and isinstance(fn.value, ast.Name) and fn.value.id not in env:
            name = fn.value.id + '.' + fn.attr
        elif isinstance(fn, ast.Name) and fn.id not in env:
            name = fn.id
        kw = {k.arg: k.value for k in e.keywords}
        if None in kw or any(isinstance(a, ast.Starred) for a in e.args):
            fail('unsupported call form', e)
        if name is not None and name.startswith('self.'):
            kind, f = self.member(name[5:])
            if kind != 'method':
                fail('unknown method ' + name, e)
            return self.call_fn(f, [self.expr(a, env) for a in e.args],
                                {k: self.expr(v, env) for k, v in kw.items()}, e)
        if name is not None and name.split('.')[0] == CLS and '.' in name:      # JakesSampleGenerator._helper(..)
            kind, f = self.member(name.split('.', 1)[1])
            if kind == 'method' and any(ast.unparse(d) == 'staticmethod' for d in f.decorator_list):
                return self.call_fn(f, [self.expr(a, env) for a in e.args],
                                    {k: self.expr(v, env) for k, v in kw.items()}, e)
            fail('unknown call ' + name, e)
        # method form of the sum over the rays: X.sum(axis=0)
        if isinstance(fn, ast.Attribute) and fn.attr == 'sum' and name is None or \
                (isinstance(fn, ast.Attribute) and fn.attr == 'sum' and name not in ('np.sum', 'numpy.sum')):
            return self.ray_sum(self.expr(fn.value, env), e.args, kw, env, e)
        args = [self.expr(a, env) for a in e.args]
        if name in ('np.sum', 'numpy.sum'):
            if not args:
                fail('np.sum without operand', e)
            return self.ray_sum(args[0], e.args[1:], kw, env, e)
        if name == 'operator.index' and len(args) == 1 and not kw:
            v = args[0]
            if isinstance(v, Lin):
                return v
            if isinstance(v, Raw):
                if v.kind == 'notInt':
                    raise _Raise('TypeError', e)
                return Lin(z=1)
            fail('operator.index of ' + type(v).__name__, e)
        if name == 'int' and len(args) == 1 and isinstance(args[0], Lin):
            return args[0]
        if name == 'len' and len(args) == 1 and isinstance(args[0], Opaque):
            return Opaque()
        if name in ('np.arange', 'numpy.arange') and not kw:
            for v in args:
                if isinstance(v, Raw):
                    fail('np.arange of the request size before it is validated (operator.index)', e)
                if not isinstance(v, Lin):
                    fail('np.arange of ' + type(v).__name__, e)
            if len(args) == 1:
                return Arange(Lin(), args[0], 1)
            if len(args) == 2:
                return Arange(args[0], args[1].add(args[0], -1), 1)
            fail('np.arange with a step', e)
        if name in ('np.cos', 'numpy.cos', 'np.sin', 'numpy.sin', 'math.cos', 'math.sin') and len(args) == 1 \
                and not kw:
            f = 'Transc.cos' if name.endswith('cos') else 'Transc.sin'
            v = args[0]
            if isinstance(v, (Elem, Time)):
                v = self.elem_of(v, e)
                return Elem('(%s %s)' % (f, v.lean), time=v.time, syms=v.syms)
            r = self.real_of(v, e)
            return Real('(%s %s)' % (f, r.lean), py=name.startswith('math'), syms=r.syms)
        if name in ('np.sqrt', 'numpy.sqrt', 'math.sqrt') and len(args) == 1 and not kw:
            r = self.real_of(args[0], e)
            return Real('(Transc.sqrt %s)' % r.lean, py=name.startswith('math') and r.py, syms=r.syms)
        if name in ('np.exp', 'numpy.exp') and len(args) == 1 and not kw:
            if isinstance(args[0], ImagArg):
                return Cis(args[0].e)
            fail('np.exp of something that is not 1j * (real phase)', e)
        if name == 'float' and len(args) == 1 and isinstance(args[0], Real):
            return args[0]
        fail('unsupported call ' + (name or ast.unparse(fn)), e)

    def ray_sum(self, v, rest, kw, env, node):
        if not isinstance(v, Cis):
            fail('sum of something that is not np.exp(1j * phase)', node)
        axis = None
        if len(rest) == 1 and not kw:
            axis = rest[0]
        elif not rest and set(kw) == {'axis'}:
            axis = kw['axis']
        if not (isinstance(axis, ast.Constant) and axis.value == 0 and not isinstance(axis.value, bool)):
            fail('the rays must be summed with axis=0', node)
        return RaySum(v.e)

    # --------------------------------------------------------------------------------- tests
    def test(self, t, env):
        if isinstance(t, ast.UnaryOp) and isinstance(t.op, ast.Not):
            return not self.test(t.operand, env)
        if isinstance(t, ast.Compare) and len(t.ops) == 1:
            op, a, b = t.ops[0], self.expr(t.left, env), self.expr(t.comparators[0], env)
            if isinstance(op, (ast.Is, ast.IsNot)):
                if not isinstance(b, NoneV):
                    fail('`is` with something that is not None', t)
                if isinstance(a, ShapeV):
                    r = self.decide(('shapeNone',))
                elif isinstance(a, NoneV):
                    r = True
                elif isinstance(a, (Raw, Lin)):
                    r = False
                else:
                    fail('`is None` test of ' + type(a).__name__, t)
                return r if isinstance(op, ast.Is) else not r
            if isinstance(a, Raw) or isinstance(b, Raw):
                fail('the request size is compared before it is validated (operator.index)', t)
            if isinstance(a, Lin) and isinstance(b, Lin) and type(op) in (ast.Lt, ast.LtE, ast.Gt, ast.GtE, ast.Eq,
                                                                            ast.NotEq):
                d = a.add(b, -1)                        # d `op` 0
                if d.is_const():
                    return {ast.Lt: d.c < 0, ast.LtE: d.c <= 0, ast.Gt: d.c > 0, ast.GtE: d.c >= 0,
                            ast.Eq: d.c == 0, ast.NotEq: d.c != 0}[type(op)]
                sym = {ast.Lt: '<', ast.LtE: '≤', ast.Gt: '>', ast.GtE: '≥', ast.Eq: '=', ast.NotEq: '≠'}[type(op)]
                return self.decide(('cmp', d.lean(), sym, d.key()))
        fail('unsupported test ' + ast.unparse(t), t)

    # --------------------------------------------------------------------------------- statements
    def call_fn(self, fn, args, kwargs, node):
        if self.depth > 6:
            fail('helper nesting too deep / recursive: ' + fn.name, node)
        a = fn.args
        if a.vararg or a.kwarg or a.kwonlyargs or a.posonlyargs:
            fail('unsupported signature of ' + fn.name, node)
        params = [p.arg for p in a.args]
        static = any(ast.unparse(d) == 'staticmethod' for d in fn.decorator_list)
        if not static:
            if not params or params[0] != 'self':
                fail('method %s without self' % fn.name, node)
            params = params[1:]
        defaults = dict(zip(params[len(params) - len(a.defaults):], a.defaults))
        if len(args) > len(params) or any(k not in params for k in kwargs):
            fail('bad call of ' + fn.name, node)
        env = dict(zip(params, args))
        for k, v in kwargs.items():
            if k in env:
                fail('argument %s given twice' % k, node)
            env[k] = v
        for p in params:
            if p not in env:
                if p not in defaults:
                    raise _Raise('TypeError', node)         # missing required argument
                env[p] = self.expr(defaults[p], {})
        self.depth += 1
        try:
            self.block(fn.body, env)
        except _Return as r:
            return r.v
        finally:
            self.depth -= 1
        return NoneV()

    def block(self, stmts, env):
        for s in stmts:
            self.stmt(s, env)

    def store(self, tgt, v, env, node):
        if isinstance(tgt, ast.Name):
            env[tgt.id] = v
            return
        if isinstance(tgt, ast.Attribute) and isinstance(tgt.value, ast.Name):
            if tgt.value.id == 'self':
                if tgt.attr == '_sample_index':
                    if not isinstance(v, Lin):
                        fail('the sample counter is assigned something that is not an integer expression of the '
                             'counter and the validated request size (%s)' % type(v).__name__, node)
                    self.k = v
                    return
                if tgt.attr == '_samples':
                    self.samples = v
                    return
                fail('assignment to self.' + tgt.attr, node)
            if tgt.attr == 'shape' and tgt.value.id in env:
                if not isinstance(env[tgt.value.id], (Time, Arange)) or not isinstance(v, Opaque):
                    fail('unsupported reshape', node)
                return                                       # t.shape = ...: broadcasting layout only
        fail('unsupported assignment target ' + ast.unparse(tgt), node)

    def stmt(self, s, env):
        if isinstance(s, ast.Expr) and isinstance(s.value, ast.Constant) and isinstance(s.value.value, str):
            return
        if isinstance(s, ast.Pass):
            return
        if isinstance(s, ast.Expr) and isinstance(s.value, ast.Call):
            self.expr(s.value, env)                          # e.g. self._check(num_samples): may raise
            return
        if isinstance(s, ast.Assign) and len(s.targets) == 1:
            self.store(s.targets[0], self.expr(s.value, env), env, s)
            return
        if isinstance(s, ast.AnnAssign):
            if s.value is not None:
                self.store(s.target, self.expr(s.value, env), env, s)
            return
        if isinstance(s, ast.AugAssign):
            cur = self.expr(ast.copy_location(_load(s.target), s), env)
            new = self.binop(s.op, cur, self.expr(s.value, env), s)
            self.store(s.target, new, env, s)
            return
        if isinstance(s, ast.If):
            if self.test(s.test, env):
                self.block(s.body, env)
            else:
                self.block(s.orelse, env)
            return
        if isinstance(s, ast.Return):
            raise _Return(self.expr(s.value, env) if s.value is not None else NoneV())
        if isinstance(s, ast.Raise):
            exc = s.exc
            if isinstance(exc, ast.Call):
                exc = exc.func
            if isinstance(exc, ast.Name) and exc.id in ERRS and s.cause is None:
                raise _Raise(exc.id, s)
            fail('unsupported raise', s)
        fail('unsupported statement ' + type(s).__name__, s)


def _load(tgt):
    t = ast.parse(ast.unparse(tgt), mode='eval').body
    return t


# ------------------------------------------------------------------------------------------------ exploration
def explore(classes, method, argkind, prefix=()):
    """decision tree of one request: ('leaf', counter, err | None, samples) | ('if', cond, then, else)"""
    ex = Exec(classes, prefix)
    kind, fn = ex.member(method)
    if kind != 'method':
        fail('method %s not found' % method)
    args = [] if argkind == 'default' else [Raw(argkind)]
    try:
        try:
            ret = ex.call_fn(fn, args, {}, fn)
            if not isinstance(ret, NoneV):
                fail('%s returns a value' % method, fn)
            leaf = ('leaf', ex.k, None, ex.samples, ex.zero_div)
        except _Raise as r:
            leaf = ('leaf', ex.k, r.err, None, False)
    except _Fork as f:
        if len(prefix) > 8:
            fail('too many nested tests in ' + method)
        return ('if', f.cond, explore(classes, method, argkind, tuple(prefix) + (True,)),
                explore(classes, method, argkind, tuple(prefix) + (False,)))
    if ex.taken != len(prefix):
        fail('internal: unused decisions')
    return leaf


def leaf_key(t):
    if t[0] == 'leaf':
        return ('leaf', t[1].key(), t[2], t[3].key() if t[3] is not None else None, t[4])
    return ('if', t[1][-1] if t[1][0] == 'cmp' else t[1], leaf_key(t[2]), leaf_key(t[3]))


def collapse(t):
    if t[0] == 'leaf':
        return t
    a, b = collapse(t[2]), collapse(t[3])
    if leaf_key(a) == leaf_key(b):
        return a
    return ('if', t[1], a, b)


def leaves(t):
    if t[0] == 'leaf':
        return [t]
    return leaves(t[2]) + leaves(t[3])


def emit_tree(t, leaf_fn, ind):
    if t[0] == 'leaf':
        return leaf_fn(t)
    c = t[1]
    if c[0] != 'cmp':
        fail('the outcome of a request depends on the configured shape')
    return 'if %s %s 0 then %s\n%selse %s' % (c[1], c[2], emit_tree(t[2], leaf_fn, ind + '  '), ind,
                                              emit_tree(t[3], leaf_fn, ind + '  '))


def gen_leaf(t):
    _, k, err, samples, _zd = t
    if err is not None:
        return '(%s, .error .%s)' % (k.lean(), err)
    if not isinstance(samples, Jakes) or samples.e.time is None:
        fail('generate_more_samples does not store amplitude * sum over the rays of exp(1j * phase(t)) in '
             'self._samples')
    ar = samples.e.time.idx
    return '(%s, .ok (%s, %s, %d))' % (k.lean(), ar.first.lean(), ar.count.lean(), ar.step)


def skip_leaf(t):
    _, k, err, samples, _zd = t
    if err is not None:
        return '(%s, some .%s)' % (k.lean(), err)
    if samples is not None:
        fail('skip_samples_for_next_generation stores samples')
    return '(%s, none)' % k.lean()


CLASSES = '{α : Type} [Add α] [Mul α] [Div α] [NatCast α] [Transc α]'


def formula_defs(prefix, j, zero_div, doc):
    """Lean text of the formula part for a Jakes value `j` (amp : Real, e : Elem)"""
    for s in j.amp.syms:
        if s not in ('L',):
            fail('the amplitude depends on ' + s)
    for s in j.e.syms:
        if s not in ('Fd', 'phi', 'psi', 't'):
            fail('the phase depends on ' + s)
    cap = lambda s: (prefix + s[0].upper() + s[1:]) if prefix else s
    ph, am, jk = cap('rayPhase'), cap('amplitude'), cap('jakes')
    body = ('.ok (%s L * sumList (rays.map fun r => Transc.cos (%s Fd t r)),\n'
            '         %s L * sumList (rays.map fun r => Transc.sin (%s Fd t r)))') % (am, ph, am, ph)
    if zero_div:
        body = 'if L == 0 then .error .ZeroDivisionError\n  else ' + body
    return '''/-- %s: phase of one ray `(phi_l, psi_l)` at time `t` (the argument of `np.exp(1j * ·)`) -/
def %s %s (Fd t : α) (ray : α × α) : α :=
  %s

/-- %s: the factor in front of the sum over the rays -/
def %s %s (L : Nat) : α :=
  %s

/-- %s: `amplitude * np.sum(np.exp(1j * phase), axis=0)` as (re, im), `rays` = the `(phi_l, psi_l)`, `l < L`%s -/
def %s %s (Fd : α) (L : Nat) (rays : List (α × α)) (t : α) : Except PyErr (α × α) :=
  %s
''' % (doc, ph, CLASSES, j.e.lean, doc, am, CLASSES, j.amp.lean, doc,
       ';\n    a Python scalar division by an expression of `L` raises for `L = 0`' if zero_div else '',
       jk, CLASSES, body)


def free_formula(tree):
    """the formula of the free function `generate_jakes_samples`: the value it returns as `h`, evaluated with the
    parameters `Fd`, `L`, `phi_l`, `psi_l` and the local time vector `t` as symbols"""
    fns = [n for n in tree.body if isinstance(n, ast.FunctionDef) and n.name == 'generate_jakes_samples']
    if len(fns) != 1:
        fail('generate_jakes_samples not found')
    fn = fns[0]
    ex = Exec([], ())
    tsym = Time(Arange(Lin(), Lin(z=1), 1), Real('Ts', syms=['Ts']))
    env = {'Fd': Real('Fd', syms=['Fd']), 'L': NatSym('(L : α)', py=True, syms=['L']),
           'phi_l': Elem('ray.1', syms=['phi']), 'psi_l': Elem('ray.2', syms=['psi']), 't': tsym}
    ret = [s for s in fn.body if isinstance(s, ast.Return)]
    if len(ret) != 1 or not isinstance(ret[0].value, ast.Tuple) or len(ret[0].value.elts) != 2:
        fail('generate_jakes_samples: expected one `return new_current_time, h`', fn)
    h = ret[0].value.elts[1]
    if isinstance(h, ast.Name):
        asg = [s for s in fn.body if isinstance(s, ast.Assign) and len(s.targets) == 1
               and isinstance(s.targets[0], ast.Name) and s.targets[0].id == h.id]
        if len(asg) != 1:
            fail('generate_jakes_samples: `%s` is not assigned exactly once' % h.id, fn)
        h = asg[0].value
    v = ex.expr(h, env)
    if not isinstance(v, Jakes) or v.e.time is None:
        fail('generate_jakes_samples does not return amplitude * sum over the rays of exp(1j * phase(t))', fn)
    return v, ex.zero_div


def gen(repo):
    tree = parse_file(os.path.join(repo, FILE))
    classes = norm.class_chain(tree, CLS)
    if not classes:
        fail('class %s not found' % CLS)
    trees = {}
    for method, short in (('generate_more_samples', 'gen'), ('skip_samples_for_next_generation', 'skip')):
        for ak in ('default', 'int', 'notInt'):
            trees[(short, ak)] = collapse(explore(classes, method, ak))
    # the formula: the same on every accepting path of generate_more_samples
    oks = [l for ak in ('default', 'int') for l in leaves(trees[('gen', ak)]) if l[2] is None]
    if not oks:
        fail('generate_more_samples accepts no request')
    for l in oks:
        gen_leaf(l)
    j0 = oks[0][3]
    fkey = lambda l: (l[3].amp.key(), l[3].e.lean, l[3].e.time.scale.key(), l[4])
    if any(fkey(l) != fkey(oks[0]) for l in oks):
        fail('the formula / time scale differs between the accepting paths of generate_more_samples')
    scale = j0.e.time.scale
    for s in scale.syms:
        if s != 'Ts':
            fail('the time scale depends on ' + s)
    jfree, zfree = free_formula(tree)

    def arms(short, leaf_fn):
        out = []
        for ak, pat in (('default', '.default'), ('notInt', '.notInt'), ('int', '.int z')):
            out.append('  | %s => %s' % (pat, emit_tree(trees[(short, ak)], leaf_fn, '      ')))
        return '\n'.join(out)

    # constructor: the counter starts at a literal
    init = None
    kind, ctor = Exec(classes, ()).member('__init__')
    if ctor is not None:
        for s in ast.walk(ctor):
            tg = None
            if isinstance(s, ast.Assign) and len(s.targets) == 1:
                tg = s.targets[0]
            elif isinstance(s, ast.AnnAssign) and s.value is not None:
                tg = s.target
            if tg is not None and ast.unparse(tg) == 'self._sample_index':
                if init is not None or not (isinstance(s.value, ast.Constant) and type(s.value.value) is int):
                    fail('__init__ must set self._sample_index to one integer literal', s)
                init = s.value.value
    if init is None:
        fail('__init__ does not initialise self._sample_index')

    out = HEADER % (FILE + ' (JakesSampleGenerator bookkeeping and formula, generate_jakes_samples formula)')
    out += '''import PyPhysim.Model.C14
set_option linter.unusedVariables false
namespace PyPhysim.Generated.C14
open PyPhysim.Proto
open PyPhysim.C14 (Transc sumList SizeArg)

/-! ### bookkeeping (symbolic execution; `k` = `self._sample_index` before the call, `z` = `operator.index(arg)`) -/

/-- `__init__`: `self._sample_index = <literal>` -/
def initCounter : Int := %d

/-- `generate_more_samples(arg)` at counter `k`: the counter after the call (also when it raises) and either the
    exception or the integer index vector `(first, count, step)` whose product with the time scale is the
    time vector the samples are evaluated at -/
def genStep (k : Int) : SizeArg → Int × Except PyErr (Int × Int × Int)
%s

/-- `skip_samples_for_next_generation(arg)` at counter `k`: the counter after the call and the exception, if any -/
def skipStep (k : Int) : SizeArg → Int × Option PyErr
%s

/-! ### times and formula (scalar-polymorphic) -/

/-- the time of sample index `i`: the factor the integer index vector is multiplied with -/
def timeOfIndex %s (Ts : α) (i : Nat) : α :=
  (i : α) * %s

''' % (init, arms('gen', gen_leaf), arms('skip', skip_leaf), CLASSES, scale.lean)
    out += formula_defs('', j0, oks[0][4], 'JakesSampleGenerator.generate_more_samples')
    out += '\n' + formula_defs('free', jfree, zfree, 'generate_jakes_samples')
    out += '\nend PyPhysim.Generated.C14\n'
    return out


TARGETS = {'C14Jakes': gen}
