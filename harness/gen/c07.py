"""Translator plugin for C07: Generated/C07SaveRule.lean.

Re-emits, from the current source,

  * the condition of `SimulationResultsSaver.save_partial_results_maybe`
    (`toc - self.__last_tic > 300 or current_rep % 500 == 0`) as
    `dueSave (since rep : Nat) : Bool`, with the two constants;
  * the file-system steps of `SimulationResults._save_to_pickle` and
    `_save_to_json` (following a call to a module-level helper) as lists of
    `PyPhysim.C07.SlotOp`, IN SOURCE ORDER: `with open(<target>, 'w..')` -> `.trunc`, a
    write into that file -> `.write c`; `with open(<other name>, 'w..')` -> `.tmpOpen`, a
    write into it -> `.tmpWrite c`, `F.flush()` -> `.tmpFlush`, `os.fsync(F.fileno())` ->
    `.tmpFsync`, the end of the `with` block -> `.tmpClose`;
    `os.replace(<other name>, <target>)` -> `.rename c`; an `os.fsync(..)` after the
    rename -> `.syncMain`.  (Removing `flush`, removing `fsync`, or moving either changes
    the emitted list, which the theorem `generated_save_matches_model` compares with the
    protocol the power-loss theorems are about.)

Fragment (anything else raises TranslateError => "tie broken"):
  save rule : a single `if A or B:` whose disjuncts are `<x> - self.<attr> > INT`
              and `current_rep % INT == 0` (either order); equivalent spellings are normalised first
              (harness.gen.norm): the guard-clause form `if not (A or B): return`, mirrored comparisons
              `INT < <x> - self.<attr>`, `not current_rep % INT`
  writers   : statements `with open(N, MODE) as F: <body>`, `try: <body> except ...: <cleanup>`
              (the handlers are not part of the normal path; `else:` and `finally:` blocks are: they run
              after the body), `name = <expr>` (a derived file name), `flag = True/False` and
              `if [not] flag:` on such a flag (only the branch taken on the normal path is followed:
              the `finally: if not done: cleanup` idiom), expression statements that are calls; inside a `with` body a
              call mentioning `F` as an argument or receiver is a write unless it is
              `F.flush()` / `os.fsync(F.fileno())` (emitted as steps) or `F.close()`;
              one call of a helper `helper(filename, MODE, <callable>)` is inlined
              (the callable is applied to the file: one write).
"""
import ast
import os

from harness.translate import TranslateError, parse_file, find_fn
from harness.gen import norm

RUNNER = 'pyphysim/simulations/runner.py'
RESULTS = 'pyphysim/simulations/results.py'
IGNORED_ATTRS = {'close'}


def _int(e):
    if isinstance(e, ast.Constant) and isinstance(e.value, int) and not isinstance(e.value, bool) and e.value >= 0:
        return e.value
    raise TranslateError('expected a non-negative int literal, got %s' % ast.dump(e)[:80])


def save_rule(repo):
    tree = parse_file(os.path.join(repo, RUNNER))
    fn = find_fn(tree, 'save_partial_results_maybe', 'SimulationResultsSaver')
    # normal form: guard clause `if not (A or B): return` == `if A or B: <rest>`; mirrored comparisons
    # (`300 < x` == `x > 300`) and `not rep % n` == `rep % n == 0` are brought to one spelling
    body = norm.tail_form(norm.canon_fn(fn).body, True)
    ifs = [s for s in body if isinstance(s, ast.If)]
    if len(ifs) != 1 or ifs[0].orelse or body[-1] is not ifs[0]:
        raise TranslateError('save_partial_results_maybe: expected exactly one `if` without else')
    test = ifs[0].test
    if not (isinstance(test, ast.BoolOp) and isinstance(test.op, ast.Or) and len(test.values) == 2):
        raise TranslateError('save_partial_results_maybe: condition is not `A or B`')
    secs = period = None
    for v in test.values:
        if not (isinstance(v, ast.Compare) and len(v.ops) == 1):
            raise TranslateError('save_partial_results_maybe: unsupported disjunct')
        left, op, right = v.left, v.ops[0], v.comparators[0]
        if isinstance(op, ast.Gt) and isinstance(left, ast.BinOp) and isinstance(left.op, ast.Sub):
            secs = _int(right)
        elif isinstance(op, ast.Eq) and isinstance(left, ast.BinOp) and isinstance(left.op, ast.Mod) \
                and isinstance(left.left, ast.Name) and left.left.id == 'current_rep' and _int(right) == 0:
            period = _int(left.right)
        else:
            raise TranslateError('save_partial_results_maybe: unsupported disjunct %s' % ast.dump(v)[:100])
    if secs is None or period is None:
        raise TranslateError('save_partial_results_maybe: time rule or repetition rule missing')
    # the body of the `if` must save and restart the clock
    calls = [n.func.attr for n in ast.walk(ifs[0]) if isinstance(n, ast.Call) and isinstance(n.func, ast.Attribute)]
    if 'save_partial_results' not in calls:
        raise TranslateError('save_partial_results_maybe: does not call save_partial_results')
    return secs, period


class Writer:
    """normal-path file-system steps of a save function"""

    def __init__(self, tree, target):
        self.tree = tree
        self.target = target      # name of the parameter holding the file name
        self.ops = []
        self.depth = 0
        self.flags = {}           # local name -> True / False while it provably holds that literal on the normal path

    def mentions(self, node, name):
        return any(isinstance(n, ast.Name) and n.id == name for n in ast.walk(node))

    def is_open_w(self, e):
        if not (isinstance(e, ast.Call) and isinstance(e.func, ast.Name) and e.func.id == 'open' and e.args):
            return None
        mode = e.args[1] if len(e.args) > 1 else next((k.value for k in e.keywords if k.arg == 'mode'), None)
        if isinstance(mode, ast.Constant) and isinstance(mode.value, str):
            if 'w' not in mode.value:
                raise TranslateError('save path opens a file with mode %r' % mode.value)
        elif not isinstance(mode, ast.Name):
            raise TranslateError('save path opens a file with an unsupported mode expression')
        name = e.args[0]
        if isinstance(name, ast.Name):
            return name.id
        raise TranslateError('open() on an expression that is not a plain name')

    def call(self, e, fvar, kind):
        """a call statement inside (fvar != None) or outside a with-body"""
        if isinstance(e.func, ast.Attribute) and isinstance(e.func.value, ast.Name) and e.func.value.id == 'os':
            if e.func.attr == 'replace':
                if len(e.args) != 2 or not all(isinstance(a, ast.Name) for a in e.args):
                    raise TranslateError('os.replace with unsupported arguments')
                if e.args[1].id != self.target or e.args[0].id == self.target:
                    raise TranslateError('os.replace does not move a temp file onto the target')
                if fvar is not None:
                    raise TranslateError('os.replace while the file is still open')
                self.ops.append('.rename c')
                return
            if e.func.attr == 'fsync':
                if fvar is not None and kind == 'tmp' and self.mentions(e, fvar) and '.rename c' not in self.ops:
                    self.ops.append('.tmpFsync')
                elif '.rename c' in self.ops:
                    self.ops.append('.syncMain')
                elif fvar is not None and kind == 'main':
                    pass        # in-place writing has no separate durability step in the model
                else:
                    raise TranslateError('os.fsync of something that is not the file being written')
                return
            raise TranslateError('unsupported os.%s in the save path' % e.func.attr)
        if fvar is not None and self.mentions(e, fvar):
            if isinstance(e.func, ast.Attribute) and isinstance(e.func.value, ast.Name) \
                    and e.func.value.id == fvar and e.func.attr in IGNORED_ATTRS:
                return
            if isinstance(e.func, ast.Attribute) and isinstance(e.func.value, ast.Name) \
                    and e.func.value.id == fvar and e.func.attr == 'flush':
                if kind == 'tmp':
                    self.ops.append('.tmpFlush')
                return
            self.ops.append('.write c' if kind == 'main' else '.tmpWrite c')
            return
        # a helper taking (filename, mode, callable)
        if isinstance(e.func, ast.Name) and e.args and isinstance(e.args[0], ast.Name) \
                and e.args[0].id == self.target and fvar is None:
            helper = find_fn(self.tree, e.func.id)
            if self.depth > 0:
                raise TranslateError('nested helper calls in the save path')
            params = [a.arg for a in helper.args.args]
            if len(params) != 3 or len(e.args) != 3:
                raise TranslateError('save helper must take (filename, mode, write_func)')
            sub = Writer(self.tree, params[0])
            sub.depth = 1
            sub.callable = params[2]
            sub.block(helper.body, None, None)
            self.ops += sub.ops
            return
        raise TranslateError('unsupported call in the save path: %s' % ast.dump(e)[:100])

    def block(self, stmts, fvar, kind):
        for s in stmts:
            if isinstance(s, ast.Expr) and isinstance(s.value, ast.Constant):
                continue        # docstring / comment string
            if isinstance(s, ast.Expr) and isinstance(s.value, ast.Call):
                self.call(s.value, fvar, kind)
            elif isinstance(s, ast.Assign) and len(s.targets) == 1 and isinstance(s.targets[0], ast.Name) \
                    and fvar is None:
                if s.targets[0].id == self.target:
                    raise TranslateError('the target file name is reassigned')
                if isinstance(s.value, ast.Constant) and isinstance(s.value.value, bool):
                    self.flags[s.targets[0].id] = s.value.value
                else:
                    self.flags.pop(s.targets[0].id, None)
            elif isinstance(s, ast.Try):
                # normal path (no exception): body, then `else`, then `finally`; the handlers are not on it
                self.block(s.body, fvar, kind)
                self.block(s.orelse, fvar, kind)
                self.block(s.finalbody, fvar, kind)
            elif isinstance(s, ast.If):
                # only a test on a flag whose value on the normal path is known (`done = False` ...
                # `done = True` ... `finally: if not done: <cleanup>`): the branch taken is followed
                t, neg = s.test, False
                while isinstance(t, ast.UnaryOp) and isinstance(t.op, ast.Not):
                    t, neg = t.operand, not neg
                if not (isinstance(t, ast.Name) and t.id in self.flags):
                    raise TranslateError('unsupported statement in the save path: If on something that is not '
                                         'a flag with a known value')
                self.block(s.body if self.flags[t.id] != neg else s.orelse, fvar, kind)
            elif isinstance(s, ast.With) and len(s.items) == 1 and fvar is None:
                it = s.items[0]
                name = self.is_open_w(it.context_expr)
                if name is None or not isinstance(it.optional_vars, ast.Name):
                    raise TranslateError('unsupported with-statement in the save path')
                k = 'main' if name == self.target else 'tmp'
                self.ops.append('.trunc' if k == 'main' else '.tmpOpen')
                self.block(s.body, it.optional_vars.id, k)
                if k == 'tmp':
                    self.ops.append('.tmpClose')
            else:
                raise TranslateError('unsupported statement in the save path: %s' % type(s).__name__)


def writer_ops(repo, method):
    tree = parse_file(os.path.join(repo, RESULTS))
    fn = find_fn(tree, method, 'SimulationResults')
    params = [a.arg for a in fn.args.args]
    if params != ['self', 'filename']:
        raise TranslateError('%s: unexpected signature' % method)
    w = Writer(tree, 'filename')
    w.block(fn.body, None, None)
    if not w.ops:
        raise TranslateError('%s: no file-system step recognised' % method)
    return w.ops


def gen_save_rule(repo):
    secs, period = save_rule(repo)
    pk = writer_ops(repo, '_save_to_pickle')
    js = writer_ops(repo, '_save_to_json')
    return ('-- GENERATED by harness/gen/c07.py from pyphysim/simulations/runner.py and results.py. DO NOT EDIT.\n'
            'import PyPhysim.Model.C07\n\n'
            'namespace PyPhysim.Generated.C07\nopen PyPhysim.C07\n\n'
            '/-- `toc - self.__last_tic > savePeriodSecs` -/\n'
            'def savePeriodSecs : Nat := %d\n\n'
            '/-- `current_rep %% savePeriodReps == 0` -/\n'
            'def savePeriodReps : Nat := %d\n\n'
            '/-- the condition of `save_partial_results_maybe` -/\n'
            'def dueSave (since rep : Nat) : Bool := decide (since > savePeriodSecs) || rep %% savePeriodReps == 0\n\n'
            '/-- file-system steps of `SimulationResults._save_to_pickle(filename)` -/\n'
            'def savePickleOps {C : Type} (c : C) : List (SlotOp C) := [%s]\n\n'
            '/-- file-system steps of `SimulationResults._save_to_json(filename)` -/\n'
            'def saveJsonOps {C : Type} (c : C) : List (SlotOp C) := [%s]\n\n'
            'end PyPhysim.Generated.C07\n') % (secs, period, ', '.join(pk), ', '.join(js))


TARGETS = {'C07SaveRule': gen_save_rule}
