"""Translator plugin: the error-rate formulas of fundamental.py -> Lean (Generated/C16Formulas.lean).

Real-expression fragment: names, numeric literals, + - * /, `** <int literal>`,
`** <name>` (natural power), calls np.sqrt / math.sqrt / math.sin / qfunc /
dB2Linear / level2bits(self._M) / self.<translated method>(SNR[, L]), attributes
self._M / self.K, module constant PI.  Anything else raises => tie broken.
The emitted definitions are polymorphic in the scalar (same classes as the hand
model), so they run at Float in the driver and are related to the model at ℝ by
`ring`-style bridge theorems in Properties/C16.lean.
"""
import ast
import os

from harness.translate import HEADER, TranslateError, find_fn, parse_file, strip_doc


def lit(v):
    """numeric literal -> Lean term of type α (exact)"""
    from fractions import Fraction
    fr = Fraction(v).limit_denominator(10 ** 12) if isinstance(v, float) else Fraction(v)
    if isinstance(v, float) and float(fr) != v:
        raise TranslateError('non-rational literal %r' % v)
    if fr < 0:
        raise TranslateError('negative literal')
    if fr.denominator == 1:
        return '((%d : Nat) : α)' % fr.numerator
    return '(((%d : Nat) : α) / ((%d : Nat) : α))' % (fr.numerator, fr.denominator)


class RealTr:
    def __init__(self, methods):
        self.methods = methods  # python method name -> (lean name, extra args string)

    def expr(self, e, env):
        if isinstance(e, ast.Name):
            if e.id in env:
                return env[e.id]
            if e.id == 'PI':
                return 'Trig.pi'
            raise TranslateError('unknown name ' + e.id)
        if isinstance(e, ast.Constant) and isinstance(e.value, (int, float)) and not isinstance(e.value, bool):
            return lit(e.value)
        if isinstance(e, ast.Attribute) and isinstance(e.value, ast.Name) and e.value.id == 'self':
            if e.attr == '_M':
                return '(M : α)'
            if e.attr == 'K':
                return 'K'
            raise TranslateError('unknown attribute self.' + e.attr)
        if isinstance(e, ast.BinOp):
            if isinstance(e.op, ast.Pow):
                base = self.expr(e.left, env)
                if isinstance(e.right, ast.Constant) and e.right.value == 2:
                    return '(%s * %s)' % (base, base)
                if isinstance(e.right, ast.Name) and e.right.id in env:
                    return '(powNat %s %s)' % (base, env[e.right.id])
                raise TranslateError('unsupported power')
            ops = {ast.Add: '+', ast.Sub: '-', ast.Mult: '*', ast.Div: '/'}
            if type(e.op) not in ops:
                raise TranslateError('unsupported operator')
            return '(%s %s %s)' % (self.expr(e.left, env), ops[type(e.op)], self.expr(e.right, env))
        if isinstance(e, ast.Call):
            fn = e.func
            name = None
            if isinstance(fn, ast.Attribute) and isinstance(fn.value, ast.Name):
                name = fn.value.id + '.' + fn.attr
            elif isinstance(fn, ast.Name):
                name = fn.id
            args = [self.expr(a, env) for a in e.args]
            if name in ('np.sqrt', 'math.sqrt') and len(args) == 1:
                return '(Trig.sqrt %s)' % args[0]
            if name == 'math.sin' and len(args) == 1:
                return '(Trig.sin %s)' % args[0]
            if name == 'qfunc' and len(args) == 1:
                return '(Q %s)' % args[0]
            if name == 'dB2Linear' and len(args) == 1:
                return '(dB2Linear %s)' % args[0]
            if name == 'pow' and len(e.args) == 2 and isinstance(e.args[0], ast.Constant) and e.args[0].value == 10:
                return '(Fn.pow10 %s)' % args[1]
            if name == 'level2bits' and ast.unparse(e.args[0]) == 'self._M':
                return '(k : α)'
            if name is not None and name.startswith('self.') and name[5:] in self.methods:
                lean, extra = self.methods[name[5:]]
                return '(%s %s %s)' % (lean, extra, ' '.join(args))
            raise TranslateError('unsupported call ' + ast.unparse(e)[:60])
        raise TranslateError('unsupported expression ' + ast.dump(e)[:80])

    def body(self, fn, env):
        stmts = strip_doc(fn.body)
        out = ''
        for s in stmts[:-1]:
            if not (isinstance(s, ast.Assign) and len(s.targets) == 1 and isinstance(s.targets[0], ast.Name)):
                raise TranslateError('unsupported statement in ' + fn.name)
            v = s.targets[0].id
            out += 'let %s := %s\n  ' % (v, self.expr(s.value, env))
            env = dict(env)
            env[v] = v
        last = stmts[-1]
        if not isinstance(last, ast.Return):
            raise TranslateError('last statement must be return in ' + fn.name)
        return out + self.expr(last.value, env)


CLS = '{α : Type} [Add α] [Sub α] [Mul α] [Div α] [NatCast α] [Trig α] [Fn α]'


def gen(repo):
    fund = parse_file(os.path.join(repo, 'pyphysim/modulators/fundamental.py'))
    conv = parse_file(os.path.join(repo, 'pyphysim/util/conversion.py'))
    out = []
    tr = RealTr({})
    f = find_fn(conv, 'dB2Linear')
    out.append('def dB2Linear %s (valueIndB : α) : α :=\n  %s\n' % (CLS, tr.body(f, {'valueIndB': 'valueIndB'})))
    # PSK
    f = find_fn(fund, 'calcTheoreticalSER', 'PSK')
    out.append('def pskSER %s (Q : α → α) (M : Nat) (SNR : α) : α :=\n  %s\n' % (CLS, tr.body(f, {'SNR': 'SNR'})))
    tr2 = RealTr({'calcTheoreticalSER': ('pskSER', 'Q M')})
    f = find_fn(fund, 'calcTheoreticalBER', 'PSK')
    out.append('def pskBER %s (Q : α → α) (M k : Nat) (SNR : α) : α :=\n  %s\n' % (CLS, tr2.body(f, {'SNR': 'SNR'})))
    # BPSK
    f = find_fn(fund, 'calcTheoreticalSER', 'BPSK')
    out.append('def bpskSER %s (Q : α → α) (SNR : α) : α :=\n  %s\n' % (CLS, tr.body(f, {'SNR': 'SNR'})))
    tr3 = RealTr({'calcTheoreticalSER': ('bpskSER', 'Q')})
    f = find_fn(fund, 'calcTheoreticalBER', 'BPSK')
    out.append('def bpskBER %s (Q : α → α) (SNR : α) : α :=\n  %s\n' % (CLS, tr3.body(f, {'SNR': 'SNR'})))
    # QAM
    f = find_fn(fund, '_calcTheoreticalSingleCarrierErrorRate', 'QAM')
    out.append('def qamPsc %s (Q : α → α) (M : Nat) (SNR : α) : α :=\n  %s\n' % (CLS, tr.body(f, {'SNR': 'SNR'})))
    tr4 = RealTr({'_calcTheoreticalSingleCarrierErrorRate': ('qamPsc', 'Q M')})
    f = find_fn(fund, 'calcTheoreticalSER', 'QAM')
    out.append('def qamSER %s (Q : α → α) (M : Nat) (SNR : α) : α :=\n  %s\n' % (CLS, tr4.body(f, {'SNR': 'SNR'})))
    f = find_fn(fund, 'calcTheoreticalBER', 'QAM')
    out.append('def qamBER %s (Q : α → α) (M k : Nat) (SNR : α) : α :=\n  %s\n' % (CLS, tr4.body(f, {'SNR': 'SNR'})))
    # PER: BER is supplied (the method calls the subclass' calcTheoreticalBER)
    f = find_fn(fund, 'calcTheoreticalPER', 'Modulator')
    stmts = strip_doc(f.body)
    if not (len(stmts) == 3 and ast.unparse(stmts[0]) == 'BER = self.calcTheoreticalBER(SNR)'):
        raise TranslateError('calcTheoreticalPER: unexpected shape')
    f2 = ast.FunctionDef(name='per', args=f.args, body=stmts[1:], decorator_list=[], lineno=0)
    out.append('def per %s (BER : α) (packet_length : Nat) : α :=\n  %s\n'
               % (CLS, tr.body(f2, {'BER': 'BER', 'packet_length': 'packet_length'})))
    # spectral efficiency: both branches
    f = find_fn(fund, 'calcTheoreticalSpectralEfficiency', 'Modulator')
    stmts = strip_doc(f.body)
    if not (len(stmts) == 2 and isinstance(stmts[0], ast.If) and ast.unparse(stmts[0].test) == 'packet_length is None'):
        raise TranslateError('calcTheoreticalSpectralEfficiency: unexpected shape')
    a, b = stmts[0].body[0], stmts[0].orelse[0]
    ea = ast.unparse(a.value).replace('self.calcTheoreticalBER(SNR)', 'X')
    eb = ast.unparse(b.value).replace('self.calcTheoreticalPER(SNR, packet_length)', 'X')
    if ea != eb:
        raise TranslateError('spectral efficiency branches differ in shape: %s / %s' % (ea, eb))
    e = ast.parse(ea, mode='eval').body
    out.append('def spectralEff %s (K X : α) : α :=\n  %s\n' % (CLS, tr.expr(e, {'X': 'X'})))
    return (HEADER % 'pyphysim/modulators/fundamental.py (error-rate formulas), pyphysim/util/conversion.py (dB2Linear)'
            + 'import PyPhysim.Model.C16\nset_option linter.unusedVariables false\n'
            + 'namespace PyPhysim.Generated.C16\nopen PyPhysim.C01 (Trig)\nopen PyPhysim.C16 (Fn powNat)\n\n'
            + '\n'.join(out) + '\nend PyPhysim.Generated.C16\n')


TARGETS = {'C16Formulas': gen}
