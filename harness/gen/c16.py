"""Translator plugin: the error-rate formulas of fundamental.py -> Lean (Generated/C16Formulas.lean).

Real-expression fragment: names, numeric literals, + - * /, `** <int literal>`,
`** <name>` (natural power), `10 ** e` == `pow(10, e)`, `erfc(y)` == `2 * qfunc(sqrt(2) * y)` (only while
util/misc.py defines `qfunc(x)` as `0.5 * erfc(x / math.sqrt(2))` or an equivalent listed spelling), calls np.sqrt / math.sqrt / math.sin / qfunc /
dB2Linear / level2bits(self._M) / self.<translated method>(SNR[, L]), attributes
self._M / self.K, module constant PI.  Anything else raises => tie broken.
The emitted definitions are polymorphic in the scalar (same classes as the hand
model), so they run at Float in the driver and are related to the model at ℝ by
`ring`-style bridge theorems in Properties/C16.lean.
"""
import ast
import os

from harness.translate import HEADER, TranslateError, find_fn, parse_file, strip_doc
from harness.gen import norm


def lit(v):
    """numeric literal -> Lean term of type α (exact)"""
    from fractions import Fraction
    fr = Fraction(v).limit_denominator(10 ** 12) if isinstance(v, float) else Fraction(v)
    if isinstance(v, float) and float(fr) != v:
        raise TranslateError('non-rational literal %r' % v)
    if fr < 0:
        raise TranslateError('negative literal')
    if fr.denominator == 1:
        return '((%d : Nat) : α)' % fr.numerator
    return '(((%d : Nat) : α) / ((%d : Nat) : α))' % (fr.numerator, fr.denominator)


class RealTr:
    def __init__(self, methods, classes=(), opaque=None):
        self.methods = methods  # python method name -> (lean name, extra args string)
        self.classes = classes  # ClassDef nodes searched (in order) for private helpers to inline
        self.opaque = opaque or {}  # python method name -> Lean term standing for its value (a parameter)
        self.depth = 0
        self.erfc_is_2q = RealTr.erfc_default

    erfc_default = False            # set by gen() when `erfc` in fundamental.py is scipy's and qfunc is defined through it

    def helper(self, name):
        """the private method / static helper `name` of the class chain (to be inlined), or None"""
        if not name.startswith('_') or name.startswith('__'):
            return None
        for c in self.classes:
            found = [n for n in c.body if isinstance(n, ast.FunctionDef) and n.name == name]
            if len(found) > 1:
                raise TranslateError('helper %s defined twice' % name)
            if found:
                for d in found[0].decorator_list:
                    if ast.unparse(d) not in ('staticmethod',):
                        raise TranslateError('helper %s is wrapped by decorator @%s' % (name, ast.unparse(d)))
                return found[0]
        return None

    def inline(self, fn, call, env):
        """value of `helper(args)`: the helper's body with its parameters bound to the translated arguments"""
        if self.depth > 4:
            raise TranslateError('helper nesting too deep / recursive: ' + fn.name)
        params = [a.arg for a in fn.args.args]
        if params and params[0] == 'self':
            params = params[1:]
        if (len(params) != len(call.args) or call.keywords or fn.args.vararg or fn.args.kwarg or fn.args.defaults
                or fn.args.kwonlyargs):
            raise TranslateError('helper %s: unsupported signature / call form' % fn.name)
        inner = {p_: self.expr(a, env) for p_, a in zip(params, call.args)}
        self.depth += 1
        try:
            return '(%s)' % self.body(fn, inner)
        finally:
            self.depth -= 1

    def expr(self, e, env):
        if isinstance(e, ast.Name):
            if e.id in env:
                return env[e.id]
            if e.id == 'PI':
                return 'Trig.pi'
            raise TranslateError('unknown name ' + e.id)
        if isinstance(e, ast.Constant) and isinstance(e.value, (int, float)) and not isinstance(e.value, bool):
            return lit(e.value)
        if isinstance(e, ast.Attribute) and isinstance(e.value, ast.Name) and e.value.id == 'self':
            if e.attr == '_M':
                return '(M : α)'
            if e.attr == 'K':
                return 'K'
            raise TranslateError('unknown attribute self.' + e.attr)
        if isinstance(e, ast.BinOp):
            if isinstance(e.op, ast.Pow):
                if isinstance(e.left, ast.Constant) and not isinstance(e.left.value, bool) \
                        and isinstance(e.left.value, (int, float)) and e.left.value == 10:
                    return '(Fn.pow10 %s)' % self.expr(e.right, env)         # 10 ** x == pow(10, x)
                base = self.expr(e.left, env)
                if isinstance(e.right, ast.Constant) and e.right.value == 2:
                    return '(%s * %s)' % (base, base)
                if isinstance(e.right, ast.Name) and e.right.id in env:
                    return '(powNat %s %s)' % (base, env[e.right.id])
                raise TranslateError('unsupported power')
            ops = {ast.Add: '+', ast.Sub: '-', ast.Mult: '*', ast.Div: '/'}
            if type(e.op) not in ops:
                raise TranslateError('unsupported operator')
            return '(%s %s %s)' % (self.expr(e.left, env), ops[type(e.op)], self.expr(e.right, env))
        if isinstance(e, ast.Call):
            fn = e.func
            name = None
            if isinstance(fn, ast.Attribute) and isinstance(fn.value, ast.Name):
                name = fn.value.id + '.' + fn.attr
            elif isinstance(fn, ast.Name):
                name = fn.id
            if name is not None and name.startswith('self.') and name[5:] in self.opaque:
                return self.opaque[name[5:]]
            args = [self.expr(a, env) for a in e.args]
            if name in ('np.sqrt', 'math.sqrt') and len(args) == 1:
                return '(Trig.sqrt %s)' % args[0]
            if name == 'math.sin' and len(args) == 1:
                return '(Trig.sin %s)' % args[0]
            if name == 'qfunc' and len(args) == 1:
                return '(Q %s)' % args[0]
            if name == 'erfc' and len(args) == 1 and self.erfc_is_2q:
                # qfunc(x) IS 0.5 * erfc(x / sqrt(2)) (checked in util/misc.py by `erfc_rule_ok`), hence over the
                # reals erfc(y) = 2 * qfunc(sqrt(2) * y): the same `Q` stands for both
                return '(((2 : Nat) : α) * (Q ((Trig.sqrt ((2 : Nat) : α)) * %s)))' % args[0]
            if name == 'dB2Linear' and len(args) == 1:
                return '(dB2Linear %s)' % args[0]
            if name == 'level2bits' and ast.unparse(e.args[0]) == 'self._M':
                return '(k : α)'
            if name is not None and name.startswith('self.') and name[5:] in self.opaque:
                return self.opaque[name[5:]]
            if name is not None and name.startswith('self.') and name[5:] in self.methods:
                lean, extra = self.methods[name[5:]]
                return '(%s %s %s)' % (lean, extra, ' '.join(args))
            if name is not None and '.' in name:
                owner, meth = name.split('.', 1)
                if owner == 'self' or owner in [c.name for c in self.classes]:
                    h = self.helper(meth)
                    if h is not None:
                        return self.inline(h, e, env)
            raise TranslateError('unsupported call ' + ast.unparse(e)[:60])
        raise TranslateError('unsupported expression ' + ast.dump(e)[:80])

    def body(self, fn, env):
        stmts = strip_doc(norm.canon_fn(fn).body)          # pow(a, b) -> a ** b
        out = ''
        for s in stmts[:-1]:
            if not (isinstance(s, ast.Assign) and len(s.targets) == 1 and isinstance(s.targets[0], ast.Name)):
                raise TranslateError('unsupported statement in ' + fn.name)
            v = s.targets[0].id
            out += 'let %s := %s\n  ' % (v, self.expr(s.value, env))
            env = dict(env)
            env[v] = v
        last = stmts[-1]
        if not isinstance(last, ast.Return):
            raise TranslateError('last statement must be return in ' + fn.name)
        return out + self.expr(last.value, env)


def erfc_rule_ok(repo, fund):
    """`erfc(y)` may be read as `2 * Q(sqrt(2) * y)` iff the module's `erfc` is scipy.special's and
    util/misc.py defines `qfunc(x)` as `0.5 * erfc(x / math.sqrt(2))` with the same scipy function"""
    def scipy_erfc(tree):
        hits = [n for n in tree.body if isinstance(n, ast.ImportFrom) and n.module == 'scipy.special'
                and any(a.name == 'erfc' and a.asname in (None, 'erfc') for a in n.names)]
        rebound = [n for n in ast.walk(tree) if isinstance(n, ast.Name) and n.id == 'erfc' and isinstance(n.ctx, ast.Store)]
        rebound += [n for n in ast.walk(tree) if isinstance(n, (ast.FunctionDef, ast.ClassDef)) and n.name == 'erfc']
        return len(hits) == 1 and not rebound
    misc = parse_file(os.path.join(repo, 'pyphysim/util/misc.py'))
    if not (scipy_erfc(fund) and scipy_erfc(misc)):
        return False
    q = strip_doc(find_fn(misc, 'qfunc').body)
    if len(q) != 1 or not isinstance(q[0], ast.Return):
        return False
    v = q[0].value
    if isinstance(v, ast.Call) and isinstance(v.func, ast.Name) and v.func.id == 'cast' and len(v.args) == 2:
        v = v.args[1]
    imp = [n for n in fund.body if isinstance(n, ast.ImportFrom) and n.module == 'pyphysim.util.misc'
           and any(a.name == 'qfunc' and a.asname in (None, 'qfunc') for a in n.names)]
    # spellings of  qfunc(x) = erfc(x / sqrt 2) / 2   (sqrt(0.5) = 1 / sqrt(2) over the reals)
    scaled = ['x / math.sqrt(%s)' % t for t in ('2', '2.0')] + ['math.sqrt(0.5) * x', 'x * math.sqrt(0.5)']
    forms = ['0.5 * erfc(%s)' % a for a in scaled] + ['erfc(%s) / %s' % (a, t) for a in scaled for t in ('2', '2.0')]
    return ast.unparse(v) in forms and len(imp) == 1 \
        and [a.arg for a in find_fn(misc, 'qfunc').args.args] == ['x']


CLS = '{α : Type} [Add α] [Sub α] [Mul α] [Div α] [NatCast α] [Trig α] [Fn α]'


def find_class(tree, name):
    found = [n for n in tree.body if isinstance(n, ast.ClassDef) and n.name == name]
    if len(found) != 1:
        raise TranslateError('class %s: %d definitions' % (name, len(found)))
    return found[0]


def branches_on_none(fn, var):
    """the two straight-line statement lists of a body of the shape
    `[stmts...] if <var> is None: A else: B [stmts...]` (at most one such `if`); (A-path, B-path)"""
    stmts = strip_doc(fn.body)
    ifs = [k for k, st in enumerate(stmts) if isinstance(st, ast.If)]
    if len(ifs) != 1:
        raise TranslateError('%s: expected exactly one `if %s is None`' % (fn.name, var))
    k = ifs[0]
    st = stmts[k]
    test = ast.unparse(st.test)
    if test == '%s is None' % var:
        a, b = st.body, st.orelse
    elif test == '%s is not None' % var:
        a, b = st.orelse, st.body
    else:
        raise TranslateError('%s: unexpected test `%s`' % (fn.name, test))
    if not a or not b:
        raise TranslateError('%s: a branch is missing' % fn.name)
    mk = lambda br: ast.FunctionDef(name=fn.name, args=fn.args, body=stmts[:k] + br + stmts[k + 1:], decorator_list=[],
                                    lineno=0)
    return mk(a), mk(b)


def gen(repo):
    fund = parse_file(os.path.join(repo, 'pyphysim/modulators/fundamental.py'))
    conv = parse_file(os.path.join(repo, 'pyphysim/util/conversion.py'))
    cM, cP, cB, cQ = (find_class(fund, n) for n in ('Modulator', 'PSK', 'BPSK', 'QAM'))
    RealTr.erfc_default = erfc_rule_ok(repo, fund)
    out = []
    tr = RealTr({})
    f = find_fn(conv, 'dB2Linear')
    out.append('def dB2Linear %s (valueIndB : α) : α :=\n  %s\n' % (CLS, tr.body(f, {'valueIndB': 'valueIndB'})))
    # PSK
    trp = RealTr({}, classes=(cP, cM))
    f = find_fn(fund, 'calcTheoreticalSER', 'PSK')
    out.append('def pskSER %s (Q : α → α) (M : Nat) (SNR : α) : α :=\n  %s\n' % (CLS, trp.body(f, {'SNR': 'SNR'})))
    tr2 = RealTr({'calcTheoreticalSER': ('pskSER', 'Q M')}, classes=(cP, cM))
    f = find_fn(fund, 'calcTheoreticalBER', 'PSK')
    out.append('def pskBER %s (Q : α → α) (M k : Nat) (SNR : α) : α :=\n  %s\n' % (CLS, tr2.body(f, {'SNR': 'SNR'})))
    # BPSK
    trb = RealTr({}, classes=(cB, cM))
    f = find_fn(fund, 'calcTheoreticalSER', 'BPSK')
    out.append('def bpskSER %s (Q : α → α) (SNR : α) : α :=\n  %s\n' % (CLS, trb.body(f, {'SNR': 'SNR'})))
    tr3 = RealTr({'calcTheoreticalSER': ('bpskSER', 'Q')}, classes=(cB, cM))
    f = find_fn(fund, 'calcTheoreticalBER', 'BPSK')
    out.append('def bpskBER %s (Q : α → α) (SNR : α) : α :=\n  %s\n' % (CLS, tr3.body(f, {'SNR': 'SNR'})))
    # QAM
    trq = RealTr({}, classes=(cQ, cM))
    f = find_fn(fund, '_calcTheoreticalSingleCarrierErrorRate', 'QAM')
    out.append('def qamPsc %s (Q : α → α) (M : Nat) (SNR : α) : α :=\n  %s\n' % (CLS, trq.body(f, {'SNR': 'SNR'})))
    tr4 = RealTr({'_calcTheoreticalSingleCarrierErrorRate': ('qamPsc', 'Q M')}, classes=(cQ, cM))
    f = find_fn(fund, 'calcTheoreticalSER', 'QAM')
    out.append('def qamSER %s (Q : α → α) (M : Nat) (SNR : α) : α :=\n  %s\n' % (CLS, tr4.body(f, {'SNR': 'SNR'})))
    f = find_fn(fund, 'calcTheoreticalBER', 'QAM')
    out.append('def qamBER %s (Q : α → α) (M k : Nat) (SNR : α) : α :=\n  %s\n' % (CLS, tr4.body(f, {'SNR': 'SNR'})))
    # PER: the BER is supplied (the method calls the subclass' calcTheoreticalBER exactly with its own SNR)
    f = find_fn(fund, 'calcTheoreticalPER', 'Modulator')
    calls = [n for n in ast.walk(f) if isinstance(n, ast.Call) and ast.unparse(n.func) == 'self.calcTheoreticalBER']
    if len(calls) != 1 or ast.unparse(calls[0]) != 'self.calcTheoreticalBER(SNR)':
        raise TranslateError('calcTheoreticalPER: the BER must be self.calcTheoreticalBER(SNR), once')
    trper = RealTr({}, classes=(cM,), opaque={'calcTheoreticalBER': 'BER'})
    out.append('def per %s (BER : α) (packet_length : Nat) : α :=\n  %s\n'
               % (CLS, trper.body(f, {'packet_length': 'packet_length'})))
    # spectral efficiency: both branches of `packet_length is None` must be the same function of the
    # error rate X, which is the BER without and the PER with a packet length
    f = find_fn(fund, 'calcTheoreticalSpectralEfficiency', 'Modulator')
    fa, fb = branches_on_none(f, 'packet_length')
    for fx, want, other in ((fa, 'self.calcTheoreticalBER(SNR)', 'self.calcTheoreticalPER'),
                            (fb, 'self.calcTheoreticalPER(SNR, packet_length)', 'self.calcTheoreticalBER')):
        cs = [ast.unparse(n) for n in ast.walk(fx) if isinstance(n, ast.Call)
              and ast.unparse(n.func) in ('self.calcTheoreticalBER', 'self.calcTheoreticalPER')]
        if cs != [want]:
            raise TranslateError('spectral efficiency: branch must use %s exactly once, found %s' % (want, cs))
    trse = RealTr({}, classes=(cM,), opaque={'calcTheoreticalBER': 'X', 'calcTheoreticalPER': 'X'})
    ea, eb = trse.body(fa, {}), trse.body(fb, {})
    if ea != eb:
        raise TranslateError('spectral efficiency branches differ in shape: %s / %s' % (ea, eb))
    out.append('def spectralEff %s (K X : α) : α :=\n  %s\n' % (CLS, ea))
    return (HEADER % 'pyphysim/modulators/fundamental.py (error-rate formulas), pyphysim/util/conversion.py (dB2Linear)'
            + 'import PyPhysim.Model.C16\nset_option linter.unusedVariables false\n'
            + 'namespace PyPhysim.Generated.C16\nopen PyPhysim.C01 (Trig)\nopen PyPhysim.C16 (Fn powNat)\n\n'
            + '\n'.join(out) + '\nend PyPhysim.Generated.C16\n')


TARGETS = {'C16Formulas': gen}
